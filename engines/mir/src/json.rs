//! Minimal JSON value + writer (the driver has zero cargo dependencies).
pub enum J {
    Null,
    Bool(bool),
    Num(i64),
    Str(String),
    Arr(Vec<J>),
    Obj(Vec<(String, J)>),
}

impl J {
    pub fn s<S: Into<String>>(s: S) -> J {
        J::Str(s.into())
    }
    pub fn n(n: i64) -> J {
        J::Num(n)
    }
    pub fn obj(v: Vec<(&str, J)>) -> J {
        J::Obj(v.into_iter().map(|(k, v)| (k.to_string(), v)).collect())
    }
    pub fn write(&self, out: &mut Vec<u8>) {
        match self {
            J::Null => out.extend_from_slice(b"null"),
            J::Bool(b) => out.extend_from_slice(if *b { b"true" } else { b"false" }),
            J::Num(n) => out.extend_from_slice(n.to_string().as_bytes()),
            J::Str(s) => write_str(s, out),
            J::Arr(a) => {
                out.push(b'[');
                for (i, x) in a.iter().enumerate() {
                    if i > 0 {
                        out.push(b',');
                    }
                    x.write(out);
                }
                out.push(b']');
            }
            J::Obj(o) => {
                out.push(b'{');
                for (i, (k, v)) in o.iter().enumerate() {
                    if i > 0 {
                        out.push(b',');
                    }
                    write_str(k, out);
                    out.push(b':');
                    v.write(out);
                }
                out.push(b'}');
            }
        }
    }
}

fn write_str(s: &str, out: &mut Vec<u8>) {
    out.push(b'"');
    for c in s.chars() {
        match c {
            '"' => out.extend_from_slice(b"\\\""),
            '\\' => out.extend_from_slice(b"\\\\"),
            '\n' => out.extend_from_slice(b"\\n"),
            '\r' => out.extend_from_slice(b"\\r"),
            '\t' => out.extend_from_slice(b"\\t"),
            c if (c as u32) < 0x20 => out.extend_from_slice(format!("\\u{:04x}", c as u32).as_bytes()),
            c => {
                let mut b = [0u8; 4];
                out.extend_from_slice(c.encode_utf8(&mut b).as_bytes());
            }
        }
    }
    out.push(b'"');
}
