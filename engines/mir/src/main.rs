//! xv-mir: rustc_private driver that dumps resolved MIR facts of the crate
//! named by XV_CRATE (default "xray") as JSON lines into XV_FACTS_DIR.
//! Used as RUSTC_WORKSPACE_WRAPPER; argv[1] is the real rustc path and is dropped.
#![feature(rustc_private)]
#![allow(clippy::all)]

extern crate rustc_abi;
extern crate rustc_driver;
extern crate rustc_hir;
extern crate rustc_interface;
extern crate rustc_middle;
extern crate rustc_session;
extern crate rustc_span;

mod json;
use json::J;

use rustc_hir::def::DefKind;
use rustc_hir::def_id::{DefId, LocalDefId};
use rustc_middle::mir::{
    AggregateKind, BasicBlockData, Body, BorrowKind, CastKind, Const, ConstValue, Operand, Place,
    PlaceElem, Rvalue, StatementKind, TerminatorKind, UnwindAction,
};
use rustc_middle::ty::print::with_no_trimmed_paths;
use rustc_middle::ty::{self, Instance, Ty, TyCtxt, TypingEnv};
use rustc_span::Span;
use std::io::Write;

struct Cb;

impl rustc_driver::Callbacks for Cb {
    fn after_analysis<'tcx>(
        &mut self,
        _compiler: &rustc_interface::interface::Compiler,
        tcx: TyCtxt<'tcx>,
    ) -> rustc_driver::Compilation {
        let want = std::env::var("XV_CRATE").unwrap_or_else(|_| "xray".to_string());
        let name = tcx.crate_name(rustc_hir::def_id::LOCAL_CRATE).to_string();
        if name == want {
            if let Ok(dir) = std::env::var("XV_FACTS_DIR") {
                let is_lib = tcx
                    .crate_types()
                    .iter()
                    .any(|t| !matches!(t, rustc_session::config::CrateType::Executable));
                if is_lib {
                    with_no_trimmed_paths!(dump(tcx, &dir, &name));
                }
            }
        }
        rustc_driver::Compilation::Continue
    }
}

fn main() {
    let mut args: Vec<String> = std::env::args().collect();
    if args.len() > 1 && (args[1].ends_with("rustc") || args[1].contains("rustc")) && !args[1].starts_with('-') {
        args.remove(1);
    }
    rustc_driver::run_compiler(&args, &mut Cb);
}

fn span_str(tcx: TyCtxt<'_>, sp: Span) -> String {
    // source_callsite(): for macro expansions, where the user wrote the macro call.
    let sp = sp.source_callsite();
    let sm = tcx.sess.source_map();
    let lo = sm.lookup_char_pos(sp.lo());
    let hi = sm.lookup_char_pos(sp.hi());
    let f = match &lo.file.name {
        rustc_span::FileName::Real(r) => match r.local_path() {
            Some(p) => p.display().to_string(),
            None => format!("{:?}", r),
        },
        other => format!("{:?}", other),
    };
    format!("{}:{}:{}-{}:{}", f, lo.line, lo.col.0 + 1, hi.line, hi.col.0 + 1)
}

fn dpath(tcx: TyCtxt<'_>, d: DefId) -> String {
    tcx.def_path_str(d)
}

struct Cx<'tcx> {
    tcx: TyCtxt<'tcx>,
    env: TypingEnv<'tcx>,
}

impl<'tcx> Cx<'tcx> {
    fn ty(&self, t: Ty<'tcx>) -> J {
        J::s(format!("{}", t))
    }

    fn place(&self, body: &Body<'tcx>, p: &Place<'tcx>) -> J {
        let mut proj = Vec::new();
        let tcx = self.tcx;
        for (base, elem) in p.iter_projections() {
            let bty = base.ty(&body.local_decls, tcx);
            match elem {
                PlaceElem::Deref => proj.push(J::s("*")),
                PlaceElem::Field(f, fty) => {
                    let mut o = vec![("f", J::n(f.as_usize() as i64))];
                    match bty.ty.kind() {
                        ty::Adt(adt, _) => {
                            let vidx = bty.variant_index.unwrap_or(rustc_abi::FIRST_VARIANT);
                            if vidx.as_usize() < adt.variants().len() {
                                let v = adt.variant(vidx);
                                if f.as_usize() < v.fields.len() {
                                    o.push(("n", J::s(v.fields[f].name.to_string())));
                                }
                                o.push(("adt", J::s(dpath(tcx, adt.did()))));
                                if adt.is_enum() {
                                    o.push(("v", J::s(v.name.to_string())));
                                }
                            }
                        }
                        ty::Closure(d, _) | ty::Coroutine(d, _) => {
                            o.push(("closure", J::s(dpath(tcx, *d))));
                        }
                        _ => {}
                    }
                    o.push(("t", self.ty(fty)));
                    proj.push(J::obj(o));
                }
                PlaceElem::Index(l) => proj.push(J::obj(vec![("idx", J::n(l.as_usize() as i64))])),
                PlaceElem::ConstantIndex { offset, from_end, .. } => proj.push(J::obj(vec![
                    ("cidx", J::n(offset as i64)),
                    ("from_end", J::Bool(from_end)),
                ])),
                PlaceElem::Subslice { from, to, from_end } => proj.push(J::obj(vec![
                    ("sub", J::Arr(vec![J::n(from as i64), J::n(to as i64)])),
                    ("from_end", J::Bool(from_end)),
                ])),
                PlaceElem::Downcast(name, vi) => proj.push(J::obj(vec![
                    ("dc", J::s(name.map(|s| s.to_string()).unwrap_or_default())),
                    ("vi", J::n(vi.as_usize() as i64)),
                ])),
                PlaceElem::OpaqueCast(t) => proj.push(J::obj(vec![("ocast", self.ty(t))])),
                PlaceElem::UnwrapUnsafeBinder(t) => proj.push(J::obj(vec![("unbind", self.ty(t))])),
            }
        }
        J::obj(vec![("l", J::n(p.local.as_usize() as i64)), ("p", J::Arr(proj))])
    }

    fn constant(&self, c: &Const<'tcx>) -> J {
        let ty = c.ty();
        let mut o = vec![("ty", self.ty(ty))];
        match ty.kind() {
            ty::FnDef(d, args) => {
                o.push(("fn", J::s(dpath(self.tcx, *d))));
                o.push(("substs", J::s(format!("{:?}", args))));
                if let Ok(Some(inst)) = Instance::try_resolve(self.tcx, self.env, *d, args) {
                    o.push(("rfn", J::s(dpath(self.tcx, inst.def_id()))));
                }
            }
            _ => {}
        }
        match c {
            Const::Unevaluated(u, _) => {
                o.push(("uneval", J::s(dpath(self.tcx, u.def))));
                if let Some(p) = u.promoted {
                    o.push(("promoted", J::n(p.as_usize() as i64)));
                }
            }
            Const::Val(ConstValue::Scalar(s), t) => {
                if let rustc_middle::mir::interpret::Scalar::Ptr(ptr, _) = s {
                    let (prov, _off) = ptr.prov_and_relative_offset();
                    if let Some(ga) = self.tcx.try_get_global_alloc(prov.alloc_id()) {
                        match ga {
                            rustc_middle::mir::interpret::GlobalAlloc::Static(did) => {
                                o.push(("static", J::s(dpath(self.tcx, did))));
                            }
                            rustc_middle::mir::interpret::GlobalAlloc::Function { instance, .. } => {
                                o.push(("fnptr", J::s(dpath(self.tcx, instance.def_id()))));
                            }
                            _ => {}
                        }
                    }
                }
                if let Ok(i) = s.try_to_scalar_int() {
                    let size = i.size();
                    let bits = i.to_bits(size);
                    if t.is_bool() {
                        o.push(("bool", J::Bool(bits != 0)));
                    } else if t.is_signed() {
                        let v = i.to_int(size);
                        o.push(("int", J::s(v.to_string())));
                    } else if t.is_integral() || t.is_char() {
                        o.push(("int", J::s(bits.to_string())));
                    } else if t.is_floating_point() {
                        o.push(("bits", J::s(bits.to_string())));
                    } else {
                        o.push(("int", J::s(bits.to_string())));
                    }
                }
            }
            _ => {}
        }
        o.push(("s", J::s(format!("{}", c))));
        J::obj(o)
    }

    fn operand(&self, body: &Body<'tcx>, op: &Operand<'tcx>) -> J {
        match op {
            Operand::Copy(p) => J::obj(vec![("copy", self.place(body, p))]),
            Operand::Move(p) => J::obj(vec![("move", self.place(body, p))]),
            Operand::Constant(c) => J::obj(vec![("const", self.constant(&c.const_))]),
            #[allow(unreachable_patterns)]
            _ => J::obj(vec![("other", J::s(format!("{:?}", op)))]),
        }
    }

    fn rvalue(&self, body: &Body<'tcx>, rv: &Rvalue<'tcx>) -> J {
        match rv {
            Rvalue::Use(op, ..) => J::obj(vec![("k", J::s("use")), ("op", self.operand(body, op))]),
            Rvalue::Repeat(op, n) => J::obj(vec![
                ("k", J::s("repeat")),
                ("op", self.operand(body, op)),
                ("n", J::s(format!("{}", n))),
            ]),
            Rvalue::Ref(_, bk, p) => J::obj(vec![
                ("k", J::s("ref")),
                ("mut", J::Bool(matches!(bk, BorrowKind::Mut { .. }))),
                ("place", self.place(body, p)),
            ]),
            Rvalue::ThreadLocalRef(d) => J::obj(vec![("k", J::s("tls")), ("def", J::s(dpath(self.tcx, *d)))]),
            Rvalue::RawPtr(k, p) => J::obj(vec![
                ("k", J::s("rawptr")),
                ("mut", J::Bool(format!("{:?}", k).contains("Mut"))),
                ("place", self.place(body, p)),
            ]),
            Rvalue::Cast(kind, op, t) => {
                let ks = match kind {
                    CastKind::Transmute => "transmute".to_string(),
                    other => format!("{:?}", other),
                };
                J::obj(vec![
                    ("k", J::s("cast")),
                    ("ck", J::s(ks)),
                    ("op", self.operand(body, op)),
                    ("from", self.ty(op.ty(&body.local_decls, self.tcx))),
                    ("ty", self.ty(*t)),
                ])
            }
            Rvalue::BinaryOp(op, ab) => {
                let (a, b) = &**ab;
                J::obj(vec![
                    ("k", J::s("bin")),
                    ("op", J::s(format!("{:?}", op))),
                    ("a", self.operand(body, a)),
                    ("b", self.operand(body, b)),
                    ("aty", self.ty(a.ty(&body.local_decls, self.tcx))),
                ])
            }
            Rvalue::UnaryOp(op, a) => J::obj(vec![
                ("k", J::s("un")),
                ("op", J::s(format!("{:?}", op))),
                ("a", self.operand(body, a)),
                ("aty", self.ty(a.ty(&body.local_decls, self.tcx))),
            ]),
            Rvalue::Discriminant(p) => J::obj(vec![
                ("k", J::s("discr")),
                ("place", self.place(body, p)),
                ("pty", self.ty(p.ty(&body.local_decls, self.tcx).ty)),
            ]),
            Rvalue::Aggregate(kind, ops) => {
                let mut o = vec![("k", J::s("agg"))];
                match &**kind {
                    AggregateKind::Array(t) => {
                        o.push(("ak", J::s("array")));
                        o.push(("ety", self.ty(*t)));
                    }
                    AggregateKind::Tuple => o.push(("ak", J::s("tuple"))),
                    AggregateKind::Adt(d, vi, args, _, active) => {
                        o.push(("ak", J::s("adt")));
                        let adt = self.tcx.adt_def(*d);
                        o.push(("adt", J::s(dpath(self.tcx, *d))));
                        let v = adt.variant(*vi);
                        o.push(("v", J::s(v.name.to_string())));
                        o.push(("vi", J::n(vi.as_usize() as i64)));
                        o.push((
                            "fields",
                            J::Arr(v.fields.iter().map(|f| J::s(f.name.to_string())).collect()),
                        ));
                        o.push(("substs", J::s(format!("{:?}", args))));
                        if let Some(a) = active {
                            o.push(("active", J::n(a.as_usize() as i64)));
                        }
                    }
                    AggregateKind::Closure(d, _) => {
                        o.push(("ak", J::s("closure")));
                        o.push(("def", J::s(dpath(self.tcx, *d))));
                    }
                    AggregateKind::Coroutine(d, _) | AggregateKind::CoroutineClosure(d, _) => {
                        o.push(("ak", J::s("coroutine")));
                        o.push(("def", J::s(dpath(self.tcx, *d))));
                    }
                    AggregateKind::RawPtr(t, _) => {
                        o.push(("ak", J::s("rawptr")));
                        o.push(("ety", self.ty(*t)));
                    }
                }
                o.push(("ops", J::Arr(ops.iter().map(|x| self.operand(body, x)).collect())));
                J::obj(o)
            }
            Rvalue::CopyForDeref(p) => J::obj(vec![("k", J::s("copyderef")), ("place", self.place(body, p))]),
            Rvalue::WrapUnsafeBinder(op, t) => J::obj(vec![
                ("k", J::s("wrapbinder")),
                ("op", self.operand(body, op)),
                ("ty", self.ty(*t)),
            ]),
            #[allow(unreachable_patterns)]
            other => J::obj(vec![("k", J::s("other")), ("s", J::s(format!("{:?}", other)))]),
        }
    }

    fn block(&self, body: &Body<'tcx>, bb: &BasicBlockData<'tcx>) -> J {
        let tcx = self.tcx;
        let mut stmts = Vec::new();
        for st in &bb.statements {
            let sp = span_str(tcx, st.source_info.span);
            let exp = st.source_info.span.from_expansion();
            match &st.kind {
                StatementKind::Assign(b) => {
                    let (p, rv) = &**b;
                    stmts.push(J::obj(vec![
                        ("k", J::s("assign")),
                        ("place", self.place(body, p)),
                        ("rv", self.rvalue(body, rv)),
                        ("span", J::s(sp)),
                        ("exp", J::Bool(exp)),
                    ]));
                }
                StatementKind::SetDiscriminant { place, variant_index } => {
                    stmts.push(J::obj(vec![
                        ("k", J::s("setdiscr")),
                        ("place", self.place(body, place)),
                        ("vi", J::n(variant_index.as_usize() as i64)),
                        ("span", J::s(sp)),
                    ]));
                }
                StatementKind::Intrinsic(i) => {
                    stmts.push(J::obj(vec![
                        ("k", J::s("intrinsic")),
                        ("s", J::s(format!("{:?}", i))),
                        ("span", J::s(sp)),
                    ]));
                }
                StatementKind::StorageLive(_)
                | StatementKind::StorageDead(_)
                | StatementKind::Nop
                | StatementKind::FakeRead(..)
                | StatementKind::PlaceMention(..)
                | StatementKind::AscribeUserType(..)
                | StatementKind::Coverage(..)
                | StatementKind::ConstEvalCounter
                | StatementKind::BackwardIncompatibleDropHint { .. } => {}
                #[allow(unreachable_patterns)]
                other => {
                    stmts.push(J::obj(vec![
                        ("k", J::s("other")),
                        ("s", J::s(format!("{:?}", other))),
                        ("span", J::s(sp)),
                    ]));
                }
            }
        }
        let term = bb.terminator();
        let tsp = span_str(tcx, term.source_info.span);
        let texp = term.source_info.span.from_expansion();
        let unwind = |u: &UnwindAction| -> J {
            match u {
                UnwindAction::Cleanup(b) => J::n(b.as_usize() as i64),
                _ => J::Null,
            }
        };
        let mut t: Vec<(&str, J)> = vec![("span", J::s(tsp)), ("exp", J::Bool(texp))];
        match &term.kind {
            TerminatorKind::Goto { target } => {
                t.push(("k", J::s("goto")));
                t.push(("target", J::n(target.as_usize() as i64)));
            }
            TerminatorKind::SwitchInt { discr, targets } => {
                t.push(("k", J::s("switch")));
                t.push(("discr", self.operand(body, discr)));
                t.push(("dty", self.ty(discr.ty(&body.local_decls, tcx))));
                let mut vs = Vec::new();
                for (v, b) in targets.iter() {
                    vs.push(J::Arr(vec![J::s(v.to_string()), J::n(b.as_usize() as i64)]));
                }
                t.push(("targets", J::Arr(vs)));
                t.push(("otherwise", J::n(targets.otherwise().as_usize() as i64)));
            }
            TerminatorKind::UnwindResume => t.push(("k", J::s("resume"))),
            TerminatorKind::UnwindTerminate(_) => t.push(("k", J::s("terminate"))),
            TerminatorKind::Return => t.push(("k", J::s("return"))),
            TerminatorKind::Unreachable => t.push(("k", J::s("unreachable"))),
            TerminatorKind::Drop { place, target, unwind: u, .. } => {
                t.push(("k", J::s("drop")));
                t.push(("place", self.place(body, place)));
                t.push(("pty", self.ty(place.ty(&body.local_decls, tcx).ty)));
                t.push(("target", J::n(target.as_usize() as i64)));
                t.push(("unwind", unwind(u)));
            }
            TerminatorKind::Call { func, args, destination, target, unwind: u, fn_span, .. } => {
                t.push(("k", J::s("call")));
                t.push(("func", self.operand(body, func)));
                let fty = func.ty(&body.local_decls, tcx);
                if let ty::FnDef(d, substs) = fty.kind() {
                    t.push(("decl", J::s(dpath(tcx, *d))));
                    t.push(("substs", J::Arr(substs.iter().map(|a| J::s(format!("{}", a))).collect())));
                    match Instance::try_resolve(tcx, self.env, *d, substs) {
                        Ok(Some(inst)) => {
                            t.push(("callee", J::s(dpath(tcx, inst.def_id()))));
                            let ik = format!("{:?}", inst.def);
                            let ikn = ik.split('(').next().unwrap_or("").to_string();
                            t.push(("ikind", J::s(ikn)));
                            if inst.def_id() != *d || !matches!(inst.def, ty::InstanceKind::Item(_)) {
                                t.push((
                                    "rsubsts",
                                    J::Arr(inst.args.iter().map(|a| J::s(format!("{}", a))).collect()),
                                ));
                            }
                        }
                        _ => {
                            t.push(("callee", J::Null));
                        }
                    }
                } else {
                    t.push(("decl", J::Null));
                    t.push(("callee", J::Null));
                    t.push(("fty", self.ty(fty)));
                }
                t.push(("args", J::Arr(args.iter().map(|a| self.operand(body, &a.node)).collect())));
                t.push((
                    "argtys",
                    J::Arr(args.iter().map(|a| self.ty(a.node.ty(&body.local_decls, tcx))).collect()),
                ));
                t.push(("dest", self.place(body, destination)));
                t.push(("dty", self.ty(destination.ty(&body.local_decls, tcx).ty)));
                t.push(("target", target.map(|b| J::n(b.as_usize() as i64)).unwrap_or(J::Null)));
                t.push(("unwind", unwind(u)));
                t.push(("fn_span", J::s(span_str(tcx, *fn_span))));
            }
            TerminatorKind::TailCall { func, args, .. } => {
                t.push(("k", J::s("tailcall")));
                t.push(("func", self.operand(body, func)));
                t.push(("args", J::Arr(args.iter().map(|a| self.operand(body, &a.node)).collect())));
            }
            TerminatorKind::Assert { cond, expected, msg, target, unwind: u } => {
                t.push(("k", J::s("assert")));
                t.push(("cond", self.operand(body, cond)));
                t.push(("expected", J::Bool(*expected)));
                let ms = format!("{:?}", msg);
                let kind = ms.split('(').next().unwrap_or("").to_string();
                t.push(("msg", J::s(kind)));
                t.push(("msgfull", J::s(ms)));
                t.push(("target", J::n(target.as_usize() as i64)));
                t.push(("unwind", unwind(u)));
            }
            TerminatorKind::FalseEdge { real_target, .. } => {
                t.push(("k", J::s("goto")));
                t.push(("target", J::n(real_target.as_usize() as i64)));
            }
            TerminatorKind::FalseUnwind { real_target, .. } => {
                t.push(("k", J::s("goto")));
                t.push(("target", J::n(real_target.as_usize() as i64)));
            }
            other => {
                t.push(("k", J::s("other")));
                t.push(("s", J::s(format!("{:?}", other))));
            }
        }
        J::obj(vec![
            ("cleanup", J::Bool(bb.is_cleanup)),
            ("stmts", J::Arr(stmts)),
            ("term", J::obj(t)),
        ])
    }

    fn body(&self, name: String, kind: &str, def: DefId, body: &Body<'tcx>, extra: Vec<(&'static str, J)>) -> J {
        let tcx = self.tcx;
        let mut locals = Vec::new();
        for (_i, d) in body.local_decls.iter_enumerated() {
            locals.push(J::obj(vec![
                ("ty", self.ty(d.ty)),
                ("span", J::s(span_str(tcx, d.source_info.span))),
            ]));
        }
        let mut dbg = Vec::new();
        for v in &body.var_debug_info {
            let val = match &v.value {
                rustc_middle::mir::VarDebugInfoContents::Place(p) => self.place(body, p),
                rustc_middle::mir::VarDebugInfoContents::Const(c) => {
                    J::obj(vec![("const", self.constant(&c.const_))])
                }
            };
            let mut o = vec![("name", J::s(v.name.to_string())), ("val", val)];
            if let Some(a) = v.argument_index {
                o.push(("arg", J::n(a as i64)));
            }
            dbg.push(J::obj(o));
        }
        let blocks: Vec<J> = body.basic_blocks.iter().map(|bb| self.block(body, bb)).collect();
        let mut o = vec![
            ("rec", J::s("body")),
            ("id", J::s(name)),
            ("kind", J::s(kind)),
            ("span", J::s(span_str(tcx, body.span))),
            ("exp", J::Bool(body.span.from_expansion())),
            ("argc", J::n(body.arg_count as i64)),
            ("locals", J::Arr(locals)),
            ("dbg", J::Arr(dbg)),
            ("blocks", J::Arr(blocks)),
        ];
        if let Some(p) = tcx.opt_parent(def) {
            o.push(("parent", J::s(dpath(tcx, p))));
        }
        // enclosing impl, if any
        let mut cur = def;
        while let Some(p) = tcx.opt_parent(cur) {
            if let DefKind::Impl { of_trait } = tcx.def_kind(p) {
                let self_ty = tcx.type_of(p).instantiate_identity().skip_norm_wip();
                o.push(("impl_self", J::s(format!("{}", self_ty))));
                if of_trait {
                    let tr = tcx.impl_trait_ref(p).instantiate_identity().skip_norm_wip();
                    o.push(("impl_trait", J::s(dpath(tcx, tr.def_id))));
                    o.push(("impl_trait_full", J::s(format!("{}", tr))));
                }
                break;
            }
            cur = p;
        }
        for e in extra {
            o.push(e);
        }
        J::obj(o)
    }
}

fn dump(tcx: TyCtxt<'_>, dir: &str, krate: &str) {
    let mut out: Vec<u8> = Vec::with_capacity(64 << 20);
    let mut n_bodies = 0usize;
    let mut owners: Vec<LocalDefId> = tcx.hir_body_owners().collect();
    owners.sort_by_key(|d| tcx.def_path_str(d.to_def_id()));
    for ldid in owners {
        let def = ldid.to_def_id();
        let kind = tcx.def_kind(def);
        let cx = Cx { tcx, env: TypingEnv::post_analysis(tcx, def) };
        let name = dpath(tcx, def);
        let (kstr, body): (&str, &Body<'_>) = match kind {
            DefKind::Fn | DefKind::AssocFn => ("fn", tcx.optimized_mir(def)),
            DefKind::Closure => ("closure", tcx.optimized_mir(def)),
            DefKind::Const { .. } | DefKind::AssocConst { .. } | DefKind::Static { .. } | DefKind::AnonConst | DefKind::InlineConst => {
                ("const", tcx.mir_for_ctfe(def))
            }
            _ => continue,
        };
        let mut extra: Vec<(&'static str, J)> = Vec::new();
        if matches!(kind, DefKind::Fn | DefKind::AssocFn) {
            extra.push(("vis", J::s(format!("{:?}", tcx.visibility(def)))));
            let sig = tcx.fn_sig(def).instantiate_identity().skip_norm_wip();
            extra.push(("sig", J::s(format!("{}", sig))));
        }
        let j = cx.body(name.clone(), kstr, def, body, extra);
        j.write(&mut out);
        out.push(b'\n');
        n_bodies += 1;
        if !matches!(kind, DefKind::Const { .. } | DefKind::AssocConst { .. } | DefKind::Static { .. } | DefKind::AnonConst | DefKind::InlineConst) {
            let promoted = tcx.promoted_mir(def);
            for (pi, pb) in promoted.iter_enumerated() {
                let pname = format!("{}::{{promoted#{}}}", name, pi.as_usize());
                let j = cx.body(pname, "promoted", def, pb, vec![]);
                j.write(&mut out);
                out.push(b'\n');
            }
        }
    }
    // ADTs
    let mut n_adts = 0usize;
    for id in tcx.hir_free_items() {
        let def = id.owner_id.to_def_id();
        match tcx.def_kind(def) {
            DefKind::Struct | DefKind::Enum | DefKind::Union => {
                let adt = tcx.adt_def(def);
                let mut variants = Vec::new();
                for v in adt.variants() {
                    let mut fields = Vec::new();
                    for f in &v.fields {
                        let fty = tcx.type_of(f.did).instantiate_identity().skip_norm_wip();
                        fields.push(J::obj(vec![
                            ("name", J::s(f.name.to_string())),
                            ("ty", J::s(format!("{}", fty))),
                            ("vis", J::s(format!("{:?}", f.vis))),
                        ]));
                    }
                    variants.push(J::obj(vec![("name", J::s(v.name.to_string())), ("fields", J::Arr(fields))]));
                }
                let j = J::obj(vec![
                    ("rec", J::s("adt")),
                    ("id", J::s(dpath(tcx, def))),
                    ("kind", J::s(format!("{:?}", tcx.def_kind(def)))),
                    ("span", J::s(span_str(tcx, tcx.def_span(def)))),
                    ("variants", J::Arr(variants)),
                ]);
                j.write(&mut out);
                out.push(b'\n');
                n_adts += 1;
            }
            DefKind::Impl { of_trait } => {
                let self_ty = tcx.type_of(def).instantiate_identity().skip_norm_wip();
                let mut o = vec![
                    ("rec", J::s("impl")),
                    ("self", J::s(format!("{}", self_ty))),
                    ("span", J::s(span_str(tcx, tcx.def_span(def)))),
                ];
                if of_trait {
                    let tr = tcx.impl_trait_ref(def).instantiate_identity().skip_norm_wip();
                    o.push(("trait", J::s(dpath(tcx, tr.def_id))));
                    o.push(("trait_full", J::s(format!("{}", tr))));
                }
                let items: Vec<J> = tcx
                    .associated_item_def_ids(def)
                    .iter()
                    .map(|d| J::s(dpath(tcx, *d)))
                    .collect();
                o.push(("items", J::Arr(items)));
                J::obj(o).write(&mut out);
                out.push(b'\n');
            }
            DefKind::Static { .. } | DefKind::Const { .. } => {
                let t = tcx.type_of(def).instantiate_identity().skip_norm_wip();
                let mutbl = match tcx.def_kind(def) {
                    DefKind::Static { mutability, .. } => format!("{:?}", mutability),
                    _ => "const".into(),
                };
                J::obj(vec![
                    ("rec", J::s("static")),
                    ("id", J::s(dpath(tcx, def))),
                    ("ty", J::s(format!("{}", t))),
                    ("mut", J::s(mutbl)),
                    ("span", J::s(span_str(tcx, tcx.def_span(def)))),
                ])
                .write(&mut out);
                out.push(b'\n');
            }
            _ => {}
        }
    }
    let meta = J::obj(vec![
        ("rec", J::s("meta")),
        ("crate", J::s(krate)),
        ("bodies", J::n(n_bodies as i64)),
        ("adts", J::n(n_adts as i64)),
        ("rustc", J::s(option_env!("CFG_VERSION").unwrap_or("nightly"))),
    ]);
    meta.write(&mut out);
    out.push(b'\n');
    let path = format!("{}/{}.mir.jsonl", dir, krate);
    let tmp = format!("{}.tmp{}", path, std::process::id());
    let mut f = std::fs::File::create(&tmp).expect("create facts");
    f.write_all(&out).expect("write facts");
    drop(f);
    std::fs::rename(&tmp, &path).expect("rename facts");
}
