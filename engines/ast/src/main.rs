//! xv-ast: parses the raw sources of a crate with syn and a pest grammar with
//! pest_meta and writes generic JSON trees.
//!   xv-ast <repo-root> <out-dir>
//! Writes <out-dir>/ast.json  ({"files": {relpath: [items...]}}) and
//!        <out-dir>/grammar.json ({"rules": [...]})
use proc_macro2::{Span, TokenStream};
use quote::ToTokens;
use std::fmt::Write as _;
use syn::parse::{Parse, ParseStream, Parser};
use syn::punctuated::Punctuated;
use syn::spanned::Spanned;
use syn::*;

// ---------- tiny JSON ----------
enum J {
    Null,
    Bool(bool),
    Num(i64),
    Str(String),
    Arr(Vec<J>),
    Obj(Vec<(String, J)>),
}
fn s<S: Into<String>>(x: S) -> J {
    J::Str(x.into())
}
fn obj(v: Vec<(&str, J)>) -> J {
    J::Obj(v.into_iter().map(|(k, v)| (k.to_string(), v)).collect())
}
fn arr<I: IntoIterator<Item = J>>(i: I) -> J {
    J::Arr(i.into_iter().collect())
}
impl J {
    fn write(&self, out: &mut String) {
        match self {
            J::Null => out.push_str("null"),
            J::Bool(b) => out.push_str(if *b { "true" } else { "false" }),
            J::Num(n) => {
                let _ = write!(out, "{}", n);
            }
            J::Str(x) => wstr(x, out),
            J::Arr(a) => {
                out.push('[');
                for (i, x) in a.iter().enumerate() {
                    if i > 0 {
                        out.push(',');
                    }
                    x.write(out);
                }
                out.push(']');
            }
            J::Obj(o) => {
                out.push('{');
                for (i, (k, v)) in o.iter().enumerate() {
                    if i > 0 {
                        out.push(',');
                    }
                    wstr(k, out);
                    out.push(':');
                    v.write(out);
                }
                out.push('}');
            }
        }
    }
}
fn wstr(x: &str, out: &mut String) {
    out.push('"');
    for c in x.chars() {
        match c {
            '"' => out.push_str("\\\""),
            '\\' => out.push_str("\\\\"),
            '\n' => out.push_str("\\n"),
            '\r' => out.push_str("\\r"),
            '\t' => out.push_str("\\t"),
            c if (c as u32) < 0x20 => {
                let _ = write!(out, "\\u{:04x}", c as u32);
            }
            c => out.push(c),
        }
    }
    out.push('"');
}

// ---------- helpers ----------
fn line(sp: Span) -> J {
    J::Num(sp.start().line as i64)
}
fn endline(sp: Span) -> J {
    J::Num(sp.end().line as i64)
}
fn toks<T: ToTokens>(t: &T) -> String {
    let x = t.to_token_stream().to_string();
    x
}
fn node<T: Spanned + ToTokens>(k: &str, t: &T, mut extra: Vec<(&str, J)>) -> J {
    let mut v = vec![("k", s(k)), ("line", line(t.span())), ("end", endline(t.span()))];
    let ts = toks(t);
    if ts.len() <= 160 {
        v.push(("s", s(ts)));
    }
    v.append(&mut extra);
    obj(v)
}

fn ty(t: &Type) -> J {
    s(toks(t))
}

fn pat(p: &Pat) -> J {
    match p {
        Pat::Ident(i) => node(
            "pident",
            p,
            vec![
                ("name", s(i.ident.to_string())),
                ("by_ref", J::Bool(i.by_ref.is_some())),
                ("mut", J::Bool(i.mutability.is_some())),
                ("sub", i.subpat.as_ref().map(|(_, x)| pat(x)).unwrap_or(J::Null)),
            ],
        ),
        Pat::Wild(_) => node("pwild", p, vec![]),
        Pat::Tuple(t) => node("ptuple", p, vec![("elems", arr(t.elems.iter().map(pat)))]),
        Pat::TupleStruct(t) => node(
            "ptuplestruct",
            p,
            vec![("path", s(toks(&t.path))), ("elems", arr(t.elems.iter().map(pat)))],
        ),
        Pat::Struct(t) => node(
            "pstruct",
            p,
            vec![
                ("path", s(toks(&t.path))),
                (
                    "fields",
                    arr(t.fields.iter().map(|f| obj(vec![("member", s(toks(&f.member))), ("pat", pat(&f.pat))]))),
                ),
                ("rest", J::Bool(t.rest.is_some())),
            ],
        ),
        Pat::Path(t) => node("ppath", p, vec![("path", s(toks(&t.path)))]),
        Pat::Or(t) => node("por", p, vec![("cases", arr(t.cases.iter().map(pat)))]),
        Pat::Reference(t) => node("pref", p, vec![("pat", pat(&t.pat))]),
        Pat::Lit(l) => node("plit", p, vec![("lit", s(toks(&l.lit)))]),
        Pat::Range(_) => node("prange", p, vec![]),
        Pat::Slice(t) => node("pslice", p, vec![("elems", arr(t.elems.iter().map(pat)))]),
        Pat::Type(t) => node("ptype", p, vec![("pat", pat(&t.pat)), ("ty", ty(&t.ty))]),
        Pat::Paren(t) => pat(&t.pat),
        Pat::Rest(_) => node("prest", p, vec![]),
        Pat::Macro(m) => mac(&m.mac),
        _ => node("pother", p, vec![]),
    }
}

fn block(b: &Block) -> J {
    arr(b.stmts.iter().map(stmt))
}

fn stmt(st: &Stmt) -> J {
    match st {
        Stmt::Local(l) => {
            let mut v = vec![("pat", pat(&l.pat))];
            if let Some(init) = &l.init {
                v.push(("init", expr(&init.expr)));
                if let Some((_, d)) = &init.diverge {
                    v.push(("else", expr(d)));
                }
            }
            node("let", st, v)
        }
        Stmt::Item(i) => item(i),
        Stmt::Expr(e, semi) => {
            let mut j = expr(e);
            if let J::Obj(o) = &mut j {
                o.push(("semi".to_string(), J::Bool(semi.is_some())));
            }
            j
        }
        Stmt::Macro(m) => {
            let mut j = mac(&m.mac);
            if let J::Obj(o) = &mut j {
                o.push(("semi".to_string(), J::Bool(m.semi_token.is_some())));
            }
            j
        }
    }
}

struct ExprOrType(J);
impl Parse for ExprOrType {
    fn parse(input: ParseStream) -> Result<Self> {
        // Type first (so that `Foo<A, B>` is not read as a comparison), but only
        // when it is followed by `,` or the end of input.
        let f = input.fork();
        if let Ok(t) = f.parse::<Type>() {
            if f.is_empty() || f.peek(Token![,]) {
                // plain paths / literals are better represented as expressions
                let f2 = input.fork();
                if let Ok(e) = f2.parse::<Expr>() {
                    if f2.is_empty() || f2.peek(Token![,]) {
                        if toks(&e) == toks(&t) {
                            let e: Expr = input.parse()?;
                            return Ok(ExprOrType(expr(&e)));
                        }
                    }
                }
                let t: Type = input.parse()?;
                return Ok(ExprOrType(node("type", &t, vec![])));
            }
        }
        let f3 = input.fork();
        if f3.parse::<Expr>().is_err() {
            // a bare keyword used as a name (e.g. `mod`)
            use syn::ext::IdentExt;
            let id = input.call(Ident::parse_any)?;
            let name = id.to_string();
            return Ok(ExprOrType(obj(vec![
                ("k", s("path")),
                ("line", line(id.span())),
                ("end", endline(id.span())),
                ("s", s(name.clone())),
                ("path", s(name.clone())),
                ("last", s(name)),
            ])));
        }
        let e: Expr = input.parse()?;
        Ok(ExprOrType(expr(&e)))
    }
}

struct LazyStatics(Vec<J>);
impl Parse for LazyStatics {
    fn parse(input: ParseStream) -> Result<Self> {
        let mut v = Vec::new();
        while !input.is_empty() {
            let _attrs = input.call(Attribute::parse_outer)?;
            let _vis: Visibility = input.parse()?;
            input.parse::<Token![static]>()?;
            input.parse::<Token![ref]>()?;
            let name: Ident = input.parse()?;
            input.parse::<Token![:]>()?;
            let t: Type = input.parse()?;
            input.parse::<Token![=]>()?;
            let e: Expr = input.parse()?;
            input.parse::<Token![;]>()?;
            v.push(obj(vec![
                ("k", s("lazy_static")),
                ("line", line(name.span())),
                ("name", s(name.to_string())),
                ("ty", ty(&t)),
                ("init", expr(&e)),
            ]));
        }
        Ok(LazyStatics(v))
    }
}

fn mac(m: &Macro) -> J {
    let name = toks(&m.path).replace(' ', "");
    let ts: TokenStream = m.tokens.clone();
    let mut v: Vec<(&str, J)> = vec![("name", s(name.clone()))];
    let short = name.rsplit("::").next().unwrap_or("").to_string();
    let mut parsed = false;
    if short == "lazy_static" {
        if let Ok(ls) = syn::parse2::<LazyStatics>(ts.clone()) {
            v.push(("form", s("lazy_static")));
            v.push(("args", J::Arr(ls.0)));
            parsed = true;
        }
    }
    if !parsed && short == "matches" {
        let p = |input: ParseStream| -> Result<(Expr, Pat, Option<Expr>)> {
            let e: Expr = input.parse()?;
            input.parse::<Token![,]>()?;
            let p = Pat::parse_multi_with_leading_vert(input)?;
            let g = if input.peek(Token![if]) {
                input.parse::<Token![if]>()?;
                Some(input.parse::<Expr>()?)
            } else {
                None
            };
            let _ = input.parse::<Option<Token![,]>>()?;
            Ok((e, p, g))
        };
        if let Ok((e, p, g)) = p.parse2(ts.clone()) {
            v.push(("form", s("matches")));
            v.push(("args", arr(vec![expr(&e), pat(&p), g.map(|g| expr(&g)).unwrap_or(J::Null)])));
            parsed = true;
        }
    }
    if !parsed {
        if let Ok(p) = Punctuated::<Expr, Token![,]>::parse_terminated.parse2(ts.clone()) {
            v.push(("form", s("exprs")));
            v.push(("args", arr(p.iter().map(expr))));
            parsed = true;
        }
    }
    if !parsed {
        // vec![x; n]
        let p = |input: ParseStream| -> Result<(Expr, Expr)> {
            let a: Expr = input.parse()?;
            input.parse::<Token![;]>()?;
            let b: Expr = input.parse()?;
            Ok((a, b))
        };
        if let Ok((a, b)) = p.parse2(ts.clone()) {
            v.push(("form", s("repeat")));
            v.push(("args", arr(vec![expr(&a), expr(&b)])));
            parsed = true;
        }
    }
    if !parsed {
        if let Ok(p) = Punctuated::<ExprOrType, Token![,]>::parse_terminated.parse2(ts.clone()) {
            v.push(("form", s("mixed")));
            v.push(("args", J::Arr(p.into_iter().map(|x| x.0).collect())));
            parsed = true;
        }
    }
    if !parsed {
        if let Ok(stmts) = Block::parse_within.parse2(ts.clone()) {
            v.push(("form", s("stmts")));
            v.push(("args", arr(stmts.iter().map(stmt))));
            parsed = true;
        }
    }
    if !parsed {
        v.push(("form", s("tokens")));
    }
    v.push(("tokens", s(ts.to_string())));
    node("macro", m, v)
}

fn expr(e: &Expr) -> J {
    match e {
        Expr::Array(a) => node("array", e, vec![("elems", arr(a.elems.iter().map(expr)))]),
        Expr::Assign(a) => node("assign", e, vec![("left", expr(&a.left)), ("right", expr(&a.right))]),
        Expr::Binary(b) => node(
            "binary",
            e,
            vec![("op", s(toks(&b.op))), ("left", expr(&b.left)), ("right", expr(&b.right))],
        ),
        Expr::Block(b) => node("block", e, vec![("stmts", block(&b.block))]),
        Expr::Unsafe(b) => node("unsafe", e, vec![("stmts", block(&b.block))]),
        Expr::Break(b) => node("break", e, vec![("expr", b.expr.as_ref().map(|x| expr(x)).unwrap_or(J::Null))]),
        Expr::Call(c) => node("call", e, vec![("func", expr(&c.func)), ("args", arr(c.args.iter().map(expr)))]),
        Expr::Cast(c) => node("cast", e, vec![("expr", expr(&c.expr)), ("ty", ty(&c.ty))]),
        Expr::Closure(c) => node(
            "closure",
            e,
            vec![
                ("move", J::Bool(c.capture.is_some())),
                ("inputs", arr(c.inputs.iter().map(pat))),
                ("body", expr(&c.body)),
            ],
        ),
        Expr::Continue(_) => node("continue", e, vec![]),
        Expr::Field(f) => node("field", e, vec![("base", expr(&f.base)), ("member", s(toks(&f.member)))]),
        Expr::ForLoop(f) => node(
            "for",
            e,
            vec![("pat", pat(&f.pat)), ("iter", expr(&f.expr)), ("body", block(&f.body))],
        ),
        Expr::Group(g) => expr(&g.expr),
        Expr::If(i) => node(
            "if",
            e,
            vec![
                ("cond", expr(&i.cond)),
                ("then", block(&i.then_branch)),
                ("else", i.else_branch.as_ref().map(|(_, x)| expr(x)).unwrap_or(J::Null)),
            ],
        ),
        Expr::Index(i) => node("index", e, vec![("base", expr(&i.expr)), ("index", expr(&i.index))]),
        Expr::Let(l) => node("letexpr", e, vec![("pat", pat(&l.pat)), ("expr", expr(&l.expr))]),
        Expr::Lit(l) => {
            let mut v = vec![];
            match &l.lit {
                Lit::Str(x) => {
                    v.push(("lit", s("str")));
                    v.push(("value", s(x.value())));
                }
                Lit::Int(x) => {
                    v.push(("lit", s("int")));
                    v.push(("value", s(x.base10_digits())));
                    v.push(("suffix", s(x.suffix())));
                }
                Lit::Float(x) => {
                    v.push(("lit", s("float")));
                    v.push(("value", s(x.base10_digits())));
                }
                Lit::Bool(x) => {
                    v.push(("lit", s("bool")));
                    v.push(("value", J::Bool(x.value)));
                }
                Lit::Char(x) => {
                    v.push(("lit", s("char")));
                    v.push(("value", s(x.value().to_string())));
                }
                Lit::ByteStr(_) => v.push(("lit", s("bytestr"))),
                Lit::Byte(x) => {
                    v.push(("lit", s("byte")));
                    v.push(("value", J::Num(x.value() as i64)));
                }
                _ => v.push(("lit", s("other"))),
            }
            node("lit", e, v)
        }
        Expr::Loop(l) => node("loop", e, vec![("body", block(&l.body))]),
        Expr::Macro(m) => mac(&m.mac),
        Expr::Match(m) => node(
            "match",
            e,
            vec![
                ("expr", expr(&m.expr)),
                (
                    "arms",
                    arr(m.arms.iter().map(|a| {
                        obj(vec![
                            ("line", line(a.span())),
                            ("end", endline(a.span())),
                            ("pat", pat(&a.pat)),
                            ("guard", a.guard.as_ref().map(|(_, g)| expr(g)).unwrap_or(J::Null)),
                            ("body", expr(&a.body)),
                        ])
                    })),
                ),
            ],
        ),
        Expr::MethodCall(m) => node(
            "mcall",
            e,
            vec![
                ("recv", expr(&m.receiver)),
                ("method", s(m.method.to_string())),
                ("turbofish", m.turbofish.as_ref().map(|t| s(toks(t))).unwrap_or(J::Null)),
                ("args", arr(m.args.iter().map(expr))),
                ("mline", line(m.method.span())),
            ],
        ),
        Expr::Paren(p) => node("paren", e, vec![("expr", expr(&p.expr))]),
        Expr::Path(p) => {
            let path = toks(&p.path).replace(' ', "");
            let last = p.path.segments.last().map(|x| x.ident.to_string()).unwrap_or_default();
            node("path", e, vec![("path", s(path)), ("last", s(last))])
        }
        Expr::Range(r) => node(
            "range",
            e,
            vec![
                ("start", r.start.as_ref().map(|x| expr(x)).unwrap_or(J::Null)),
                ("end_", r.end.as_ref().map(|x| expr(x)).unwrap_or(J::Null)),
                ("limits", s(toks(&r.limits))),
            ],
        ),
        Expr::Reference(r) => node(
            "ref",
            e,
            vec![("mut", J::Bool(r.mutability.is_some())), ("expr", expr(&r.expr))],
        ),
        Expr::Repeat(r) => node("repeat", e, vec![("expr", expr(&r.expr)), ("len", expr(&r.len))]),
        Expr::Return(r) => node("return", e, vec![("expr", r.expr.as_ref().map(|x| expr(x)).unwrap_or(J::Null))]),
        Expr::Struct(st) => node(
            "struct",
            e,
            vec![
                ("path", s(toks(&st.path).replace(' ', ""))),
                (
                    "fields",
                    arr(st.fields.iter().map(|f| {
                        obj(vec![("member", s(toks(&f.member))), ("line", line(f.span())), ("expr", expr(&f.expr))])
                    })),
                ),
                ("rest", st.rest.as_ref().map(|x| expr(x)).unwrap_or(J::Null)),
            ],
        ),
        Expr::Try(t) => node("try", e, vec![("expr", expr(&t.expr))]),
        Expr::Tuple(t) => node("tuple", e, vec![("elems", arr(t.elems.iter().map(expr)))]),
        Expr::Unary(u) => node("unary", e, vec![("op", s(toks(&u.op))), ("expr", expr(&u.expr))]),
        Expr::While(w) => node("while", e, vec![("cond", expr(&w.cond)), ("body", block(&w.body))]),
        _ => node("other", e, vec![("tokens", s(toks(e)))]),
    }
}

fn attrs(a: &[Attribute]) -> J {
    arr(a.iter().map(|x| s(toks(&x.meta))))
}

fn sig(sg: &Signature) -> Vec<(&'static str, J)> {
    vec![
        ("name", s(sg.ident.to_string())),
        ("generics", s(toks(&sg.generics))),
        (
            "inputs",
            arr(sg.inputs.iter().map(|a| match a {
                FnArg::Receiver(r) => obj(vec![("self", J::Bool(true)), ("s", s(toks(r)))]),
                FnArg::Typed(t) => obj(vec![("pat", pat(&t.pat)), ("ty", ty(&t.ty))]),
            })),
        ),
        (
            "output",
            match &sg.output {
                ReturnType::Default => J::Null,
                ReturnType::Type(_, t) => ty(t),
            },
        ),
    ]
}

fn fields(f: &Fields) -> J {
    arr(f.iter().enumerate().map(|(i, f)| {
        obj(vec![
            ("name", f.ident.as_ref().map(|x| s(x.to_string())).unwrap_or(s(i.to_string()))),
            ("ty", ty(&f.ty)),
            ("vis", s(toks(&f.vis))),
            ("line", line(f.span())),
        ])
    }))
}

fn item(i: &Item) -> J {
    match i {
        Item::Fn(f) => {
            let mut v = sig(&f.sig);
            v.push(("vis", s(toks(&f.vis))));
            v.push(("attrs", attrs(&f.attrs)));
            v.push(("body", block(&f.block)));
            inode("fn", f, v)
        }
        Item::Impl(im) => {
            let mut v = vec![
                ("self_ty", ty(&im.self_ty)),
                ("trait", im.trait_.as_ref().map(|(_, p, _)| s(toks(p))).unwrap_or(J::Null)),
                ("generics", s(toks(&im.generics))),
                ("unsafe", J::Bool(im.unsafety.is_some())),
            ];
            let mut items = vec![];
            for it in &im.items {
                match it {
                    ImplItem::Fn(f) => {
                        let mut w = sig(&f.sig);
                        w.push(("vis", s(toks(&f.vis))));
                        w.push(("attrs", attrs(&f.attrs)));
                        w.push(("body", block(&f.block)));
                        items.push(inode("fn", f, w));
                    }
                    ImplItem::Const(c) => items.push(inode(
                        "const",
                        c,
                        vec![("name", s(c.ident.to_string())), ("ty", ty(&c.ty)), ("init", expr(&c.expr))],
                    )),
                    ImplItem::Type(t) => {
                        items.push(inode("type", t, vec![("name", s(t.ident.to_string())), ("ty", ty(&t.ty))]))
                    }
                    ImplItem::Macro(m) => items.push(mac(&m.mac)),
                    _ => {}
                }
            }
            v.push(("items", J::Arr(items)));
            inode("impl", im, v)
        }
        Item::Mod(m) => {
            let mut v = vec![("name", s(m.ident.to_string())), ("attrs", attrs(&m.attrs))];
            if let Some((_, items)) = &m.content {
                v.push(("items", arr(items.iter().map(item))));
            } else {
                v.push(("items", J::Null));
            }
            inode("mod", m, v)
        }
        Item::Struct(st) => inode(
            "structdef",
            st,
            vec![
                ("name", s(st.ident.to_string())),
                ("attrs", attrs(&st.attrs)),
                ("fields", fields(&st.fields)),
                ("vis", s(toks(&st.vis))),
            ],
        ),
        Item::Enum(en) => inode(
            "enumdef",
            en,
            vec![
                ("name", s(en.ident.to_string())),
                ("attrs", attrs(&en.attrs)),
                (
                    "variants",
                    arr(en.variants.iter().map(|v| {
                        obj(vec![
                            ("name", s(v.ident.to_string())),
                            ("fields", fields(&v.fields)),
                            ("line", line(v.span())),
                            ("attrs", attrs(&v.attrs)),
                        ])
                    })),
                ),
            ],
        ),
        Item::Const(c) => inode(
            "const",
            c,
            vec![("name", s(c.ident.to_string())), ("ty", ty(&c.ty)), ("init", expr(&c.expr)), ("vis", s(toks(&c.vis)))],
        ),
        Item::Static(c) => inode(
            "static",
            c,
            vec![
                ("name", s(c.ident.to_string())),
                ("ty", ty(&c.ty)),
                ("init", expr(&c.expr)),
                ("mut", J::Bool(matches!(c.mutability, StaticMutability::Mut(_)))),
            ],
        ),
        Item::Macro(m) => {
            let mut j = mac(&m.mac);
            if let J::Obj(o) = &mut j {
                o.push(("item".to_string(), J::Bool(true)));
                if let Some(id) = &m.ident {
                    o.push(("defines".to_string(), s(id.to_string())));
                }
            }
            j
        }
        Item::Trait(t) => {
            let mut items = vec![];
            for it in &t.items {
                if let TraitItem::Fn(f) = it {
                    let mut w = sig(&f.sig);
                    w.push(("body", f.default.as_ref().map(block).unwrap_or(J::Null)));
                    items.push(inode("fn", f, w));
                }
            }
            inode("trait", t, vec![("name", s(t.ident.to_string())), ("items", J::Arr(items))])
        }
        Item::Type(t) => inode("typealias", t, vec![("name", s(t.ident.to_string())), ("ty", ty(&t.ty))]),
        Item::Use(u) => inode("use", u, vec![("tree", s(toks(&u.tree)))]),
        _ => inode("otheritem", i, vec![]),
    }
}

fn inode<T: Spanned>(k: &str, t: &T, mut extra: Vec<(&str, J)>) -> J {
    let mut v = vec![("k", s(k)), ("line", line(t.span())), ("end", endline(t.span()))];
    v.append(&mut extra);
    obj(v)
}

// ---------- grammar ----------
fn gexpr(e: &pest_meta::ast::Expr) -> J {
    use pest_meta::ast::Expr as E;
    match e {
        E::Str(x) => obj(vec![("k", s("str")), ("v", s(x.clone()))]),
        E::Insens(x) => obj(vec![("k", s("insens")), ("v", s(x.clone()))]),
        E::Range(a, b) => obj(vec![("k", s("range")), ("a", s(a.clone())), ("b", s(b.clone()))]),
        E::Ident(x) => obj(vec![("k", s("ident")), ("v", s(x.clone()))]),
        E::PeekSlice(a, b) => obj(vec![
            ("k", s("peekslice")),
            ("a", J::Num(*a as i64)),
            ("b", b.map(|x| J::Num(x as i64)).unwrap_or(J::Null)),
        ]),
        E::PosPred(x) => obj(vec![("k", s("pospred")), ("e", gexpr(x))]),
        E::NegPred(x) => obj(vec![("k", s("negpred")), ("e", gexpr(x))]),
        E::Seq(a, b) => obj(vec![("k", s("seq")), ("a", gexpr(a)), ("b", gexpr(b))]),
        E::Choice(a, b) => obj(vec![("k", s("choice")), ("a", gexpr(a)), ("b", gexpr(b))]),
        E::Opt(x) => obj(vec![("k", s("opt")), ("e", gexpr(x))]),
        E::Rep(x) => obj(vec![("k", s("rep")), ("e", gexpr(x))]),
        E::RepOnce(x) => obj(vec![("k", s("reponce")), ("e", gexpr(x))]),
        E::RepExact(x, n) => obj(vec![("k", s("repexact")), ("e", gexpr(x)), ("n", J::Num(*n as i64))]),
        E::RepMin(x, n) => obj(vec![("k", s("repmin")), ("e", gexpr(x)), ("n", J::Num(*n as i64))]),
        E::RepMax(x, n) => obj(vec![("k", s("repmax")), ("e", gexpr(x)), ("n", J::Num(*n as i64))]),
        E::RepMinMax(x, a, b) => obj(vec![
            ("k", s("repminmax")),
            ("e", gexpr(x)),
            ("min", J::Num(*a as i64)),
            ("max", J::Num(*b as i64)),
        ]),
        E::Skip(v) => obj(vec![("k", s("skip")), ("v", arr(v.iter().map(|x| s(x.clone()))))]),
        E::Push(x) => obj(vec![("k", s("push")), ("e", gexpr(x))]),
    }
}

fn walk(dir: &std::path::Path, out: &mut Vec<std::path::PathBuf>) {
    let mut ents: Vec<_> = std::fs::read_dir(dir).unwrap().map(|e| e.unwrap().path()).collect();
    ents.sort();
    for p in ents {
        if p.is_dir() {
            walk(&p, out);
        } else if p.extension().map(|x| x == "rs").unwrap_or(false) {
            out.push(p);
        }
    }
}

fn main() {
    let args: Vec<String> = std::env::args().collect();
    if args.len() < 3 {
        eprintln!("usage: xv-ast <repo-root> <out-dir>");
        std::process::exit(2);
    }
    let root = std::path::Path::new(&args[1]);
    let outd = std::path::Path::new(&args[2]);
    let mut files = Vec::new();
    walk(&root.join("src"), &mut files);
    let mut fobj = Vec::new();
    let mut failed = Vec::new();
    for f in &files {
        let rel = f.strip_prefix(root).unwrap().display().to_string();
        let text = std::fs::read_to_string(f).unwrap();
        match syn::parse_file(&text) {
            Ok(ast) => {
                let items = arr(ast.items.iter().map(item));
                fobj.push((rel, items));
            }
            Err(e) => failed.push(s(format!("{}: {}", rel, e))),
        }
    }
    let top = J::Obj(vec![
        ("files".to_string(), J::Obj(fobj)),
        ("failed".to_string(), J::Arr(failed)),
    ]);
    let mut out = String::new();
    top.write(&mut out);
    std::fs::write(outd.join("ast.json"), out).unwrap();

    // grammar
    let gpath = root.join("src/xray.pest");
    let gtext = std::fs::read_to_string(&gpath).unwrap();
    let mut rules = Vec::new();
    let mut gerr = J::Null;
    match pest_meta::parser::parse(pest_meta::parser::Rule::grammar_rules, &gtext) {
        Ok(pairs) => match pest_meta::parser::consume_rules(pairs) {
            Ok(rs) => {
                for r in rs {
                    rules.push(obj(vec![
                        ("name", s(r.name.clone())),
                        ("ty", s(format!("{:?}", r.ty))),
                        ("expr", gexpr(&r.expr)),
                    ]));
                }
            }
            Err(e) => gerr = s(format!("{:?}", e)),
        },
        Err(e) => gerr = s(format!("{}", e)),
    }
    let g = obj(vec![("rules", J::Arr(rules)), ("error", gerr)]);
    let mut out = String::new();
    g.write(&mut out);
    std::fs::write(outd.join("grammar.json"), out).unwrap();
}
