"""C12 — compilation is total, effect-free and deterministic.
  R12.1  capability argument: nothing reachable from feed_file (including the compile-time callbacks of dynamic functions)
         can evaluate user code, call a native, or even name the runtime (the only road to the injected writer/clock/rng)
  R12.2  grammar <-> handler: every alternative of a grammar choice that a rule-dispatching match mentions is covered;
         chains of `.next().unwrap()` on a rule's children do not exceed the children the grammar guarantees
  R12.3  explicit panics of the compile phase are inventoried: each is the default arm of a covered dispatch or listed with a reason
  R12.5  iteration over randomised-hash collections in the compile phase feeds only order-insensitive sinks
  R12.6  the only process-global mutable state is the scope-id counter, used for equality only
"""
import re
from .lib import mirq, astq
from .lib.grammar import Grammar
from .lib.facts import strip_generics, walk, find_nodes, op_local, op_place

ENTRY = 'root_compilation_scope::RootCompilationScope::feed_file'
FORBIDDEN_CALLS = {
    'runtime_scope::RuntimeScope::eval', 'runtime_scope::RuntimeScope::eval_func_with_expressions',
    'runtime_scope::RuntimeScope::eval_func_with_values', 'runtime_scope::RuntimeScope::from_template',
    'runtime_scope::RuntimeScopeTemplate::from_specs', 'xexpr::XStaticFunction::to_function', 'builtin::core::eval',
    'runtime::RuntimeLimits::to_runtime', 'root_runtime_scope::RootEvaluationScope::from_compilation_scope',
}
RUNTIME_TY = re.compile(r'runtime::Runtime<|runtime::RuntimeStats<|runtime_scope::RuntimeScope<')
COMPILE_FILES = ('src/parser.rs', 'src/compilation_scope.rs', 'src/xtype.rs', 'src/root_compilation_scope.rs', 'src/compile_err.rs',
                 'src/util/str_escapes.rs', 'src/util/special_prefix_interner.rs', 'src/util/ipush.rs')

# explicit panic sites of the compile phase that are not dispatch defaults: (file, fn, macro/ordinal) -> reason
PANIC_OK = {
    ('src/compilation_scope.rs', 'from_overload', 'panic'): 'the cell of a static overload is a Variable (add_static_func / add_forward_func) or the Recourse cell (from_parent): the only writers of `functions`',
    ('src/parser.rs', 'get_complete_type', 'unreachable'): 'only called on pairs the grammar types as complete_type (children of explicit_type, parameter, signature, generic_arguments, turbofish/dyn-bind names, return types)',
    ('src/xtype.rs', 'spec', 'unreachable'): 'CallbackType is built only by get_func_with_type from a type it has just matched as XFunc',
    ('src/util/special_prefix_interner.rs', 'try_from_usize', 'unimplemented'): 'string_interner calls Symbol conversions only from its own backends; this backend never converts its symbols',
    ('src/util/special_prefix_interner.rs', 'to_usize', 'unimplemented'): 'string_interner calls Symbol conversions only from its own backends; this backend never converts its symbols',
    ('src/compilation_scope.rs', 'from_parent', 'panic'): 'recursion cell of a function scope is created by from_parent itself two lines above (cell kind is Recourse by construction)',
    ('src/compilation_scope.rs', 'add_static_func', 'unreachable'): 'ForwardRef.cell_idx is the index returned by cells.ipush(Cell::Variable{..}) in add_forward_func of the same scope (its only writer)',
    ('src/compilation_scope.rs', 'require_forwards', 'unreachable'): 'ForwardRef.cell_idx is the index returned by cells.ipush(Cell::Variable{..}) in add_forward_func of the scope that owns the forward reference',
    ('src/compilation_scope.rs', 'get_item', 'unreachable'): 'variables map only ever stores indices of Cell::Variable (add_variable / add_parameter are the only writers)',
    ('src/compilation_scope.rs', 'type_of', 'unreachable'): 'XExpr::Dummy is only created at run time by eval_func_with_values; compile never produces it',
    ('src/xtype.rs', 'resolve_bind', 'unreachable'): 'XTail occurs only inside the field types of a compound; every resolve_bind on field types passes the compound as tail, and (after the fix) nested tails inherit it',
    ('src/xtype.rs', 'to_string_with_interner', 'unreachable'): 'Auto types are replaced during overload resolution and never stored in a scope',
    ('src/xtype.rs', 'new', 'unreachable'): 'CallbackType::new is called only by get_func_with_type with the XFunc type of a resolved overload',
    ('src/util/special_prefix_interner.rs', 'resolve', 'unreachable'): 'symbols are only produced by this interner',
}


# position-indexed accesses of the compile phase accepted without a dominating length test: (fn, element kind) -> reason
INDEX_OK = {
    ('compile', 'OverloadWithForwardReq'): 'get_item returns Overload(v) only for a non-empty v (it is built by pushing at least one overload of the name) and more than one was rejected just above',
    ('compile', 'XCompoundFieldSpec'): 'the index comes from spec.indices of the same spec (name -> position table built together with fields)',
    ('forward_ref', 'ForwardRef'): 'ref_idx was produced as forwards.len() when the forward reference was pushed in the scope at that height',
    ('require_forwards', 'ForwardRef'): 'ref_idx was produced as forwards.len() when the forward reference was pushed in the scope at that height (same argument as forward_ref)',
    ('require_forwards', 'Cell'): 'ForwardRef.cell_idx was returned by cells.ipush of the scope that owns the forward reference',
    ('get_item', 'Cell'): 'the variables map stores only indices returned by cells.ipush of the same scope',
    ('type_of', 'XType'): 'Member(idx) on a tuple is built only by compile after idx < types.len() (TupleIndexOutOfBounds otherwise)',
    ('type_of', 'XCompoundFieldSpec'): 'Member / MemberValue / MemberOptValue indices are produced by spec.find on the same compound spec in compile',
    ('type_of', 'Cell'): 'XExpr::Value(cell_idx) is only built from indices returned by cells.ipush / get_item of the scope chain being walked',
    ('from_overload', 'Cell'): 'Overload::Static.cell_idx is the index returned by cells.ipush when the overload was added to this scope',
    ('index', 'T'): 'IPush::index forwards to Vec::index: judged at the callers above',
    ('apply_escapes', 'Captures'): 'groups 0 and 1 exist in every match of the literal pattern \\\\(u\\{.+?\\}|.) (group 1 is not optional)',
    ('item_index', 'Captures'): 'group 1 exists in every match of the literal pattern ^item(0|[1-9][0-9]*)$',
}


def index_inventory(ctx, r7, R):
    mir = ctx.mir
    from .lib import guards
    sites = []
    for bid in sorted(R):
        b = mir.by_id[bid]
        if not b.file.startswith('src/') or b.file.startswith('src/builtin/') and 'include' not in b.file and not b.nid.startswith('builtin::'):
            pass
        if b.file not in COMPILE_FILES:
            continue
        for bb, tm in b.calls():
            nm = strip_generics(tm.get('decl') or tm.get('callee') or '')
            if nm in ('std::ops::Index::index', 'std::ops::IndexMut::index_mut'):
                tys = tm.get('argtys') or ['', '']
                ity = tys[1] if len(tys) > 1 else ''
                if ity not in ('usize', 'I') and not ity.startswith('&'):
                    continue   # ranges: v[..] / v[a..b] are judged by the slice rules of their element accesses
                if ity.startswith('&'):
                    continue   # map[&key]
                sites.append((b, bb, 'call', tys[0]))
        for i, bl in enumerate(b.blocks):
            tm = bl['term']
            if tm['k'] == 'assert' and not bl.get('cleanup') and 'BoundsCheck' in str(tm.get('msg')):
                # the indexed place's type: the collection operand of the Len / PtrMetadata feeding the assert
                sites.append((b, i, 'assert', ''))
    for b, bb, kind, cty in sites:
        fn = b.nid.split('::{closure')[0].split('::')[-1]
        m = re.findall(r'([A-Za-z_][A-Za-z_0-9]*)(?:<[^<>]*>)?>*\s*$', re.sub(r"^&(mut )?('\w+ )?", '', cty).rstrip('>'))
        inner = re.sub(r'^.*?(?:Vec|IPush)<', '', cty)
        elem = re.split(r'[<,>]', inner)[0].split('::')[-1].strip('() ') if cty else 'slice'
        if 'regex::Captures' in cty:
            elem = 'Captures'
        if elem.startswith('('):
            elem = elem.strip('(')
        if 'OverloadWithForwardReq' in cty:
            elem = 'OverloadWithForwardReq'
        if elem == 'Arc' or 'std::sync::Arc<xtype::XType>' in cty:
            elem = 'XType'
        guarded = False
        if kind == 'assert':
            guarded = guards.index_guarded(b, bb) if hasattr(guards, 'index_guarded') else False
        reason = INDEX_OK.get((fn, elem))
        ok = guarded or reason is not None
        r7.inst({'body': b.nid, 'site': mirq.site(b, bb), 'collection': cty[:70] or 'slice (BoundsCheck)', 'guarded': guarded, 'listed': reason is not None}, ok=ok, kind=(b.nid, bb))
        if reason is not None and not guarded:
            r7.exempted('%s / %s' % (fn, elem), reason)
        if not ok:
            r7.fail('%s/index/%s' % (b.nid, elem), mirq.site(b, bb),
                    'a position-indexed access in compile-phase code is neither dominated by a comparison of the index with the length of the same collection nor listed with the invariant that bounds it: source text can make the compiler panic (index out of bounds)')
    # (b) byte slicing of source text: a bound that is a numeric constant (other than 0) or constant arithmetic is not a
    #     char boundary in general -- `&text[..120]` panics when a multi-byte character straddles byte 120
    from .lib import units
    n_sl = 0
    for bid in sorted(R):
        b = mir.by_id[bid]
        if b.file not in COMPILE_FILES + ('src/compile_err.rs',):
            continue
        for bb, tm in b.calls():
            names = [strip_generics(x) for x in (tm.get('callee'), tm.get('decl')) if x]
            if not (any(units.STR_INDEX.match(n) for n in names) and len(tm['args']) == 2 and (tm.get('argtys') or [''])[0].lstrip('&').strip() == 'str'):
                continue
            n_sl += 1
            k, v = mirq.chase_op(b, tm['args'][1])
            bounds = v[2]['rv']['ops'] if k == 'rv' and v[2]['rv']['k'] == 'agg' else []
            bad = []
            for o in bounds:
                if 'const' in o:
                    if o['const'].get('int') != '0':
                        bad.append('the constant %s' % (o['const'].get('int') or o['const'].get('uneval') or o['const'].get('s')))
                    continue
                pl = op_place(o)
                if pl is None:
                    continue
                # constant arithmetic on the way to the bound, or a named constant
                sl = mirq.backslice(b, [pl['l']])
                for i2, j2, s2 in b.stmts():
                    if s2['k'] == 'assign' and not s2['place']['p'] and s2['place']['l'] in sl:
                        rv2 = s2['rv']
                        if rv2['k'] == 'bin' and rv2['op'] in ('Add', 'Sub', 'AddWithOverflow', 'SubWithOverflow', 'Mul', 'Div') and any('const' in rv2[x] for x in ('a', 'b')):
                            bad.append('arithmetic with a constant (%s)' % rv2['op'])
                        if rv2['k'] == 'use' and 'const' in rv2['op'] and rv2['op']['const'].get('int') != '0' and s2['place']['l'] == pl['l']:
                            bad.append('the constant %s' % (rv2['op']['const'].get('int') or rv2['op']['const'].get('uneval') or rv2['op']['const'].get('s')))
                if not sl - {pl['l']} and not b.defs().get(pl['l']) and not (1 <= pl['l'] <= b.d['argc']):
                    pass
            fnn = b.nid.split('::{closure')[0].split('::')[-1]
            r7.inst({'body': b.nid, 'site': mirq.site(b, bb), 'slice_of_source_text': True, 'constant_bounds': bad}, ok=not bad, kind=(b.nid, bb, 'slice'))
            if bad:
                r7.fail('%s/str-slice/constant-bound' % b.nid, mirq.site(b, bb), 'source text is sliced at %s: not a character boundary in general, so text with a multi-byte character there makes the compiler panic' % ', '.join(sorted(set(bad))))
    if n_sl < 2:
        r7.fail('anchor/str-slices', 'src', 'fewer source-text slices found in the compile phase than confirmed by hand (%d)' % n_sl)
    r7.need(14)


def debug_hash_order(ctx, r8, R):
    """`{:?}` of a value is part of an error message when it happens in compile-phase code.  For every type handed to
    fmt::Argument::new_debug in a body reachable from feed_file (incl. the dyn-bind callbacks), the closure of crate types it
    contains is computed from the ADT table, and the Debug::fmt body of each of them (derived or manual) must not hand a
    std HashMap / HashSet to the formatter (an unsizing cast of a reference to one to `dyn Debug`, or a direct call of its
    Debug::fmt, or DebugMap/DebugSet::entries over its iterator): such output differs between repetitions."""
    mir = ctx.mir
    ident = re.compile(r'[A-Za-z_][A-Za-z_0-9]*(?:::[A-Za-z_][A-Za-z_0-9]*)+')
    dbg_impl = {}
    for im in mir.impls:
        if im.get('trait') == 'std::fmt::Debug':
            dbg_impl[strip_generics(im['self'])] = im['items']
    roots = {}
    for bid in sorted(R):
        b = mir.by_id[bid]
        for bb, tm in b.calls():
            nm = strip_generics(tm.get('callee') or tm.get('decl') or '')
            if nm.endswith('Argument::new_debug'):
                ty = (tm.get('argtys') or [''])[0]
                for m in ident.findall(ty):
                    if m in mir.adts:
                        roots.setdefault(m, mirq.site(b, bb))
    seen = {}
    todo = list(roots.items())
    while todo:
        a, via = todo.pop()
        if a in seen:
            continue
        seen[a] = via
        for v in mir.adts[a]['variants']:
            for f in v['fields']:
                for m in ident.findall(f['ty']):
                    if m in mir.adts and m not in seen:
                        todo.append((m, via))
    HASHY = re.compile(r'std::collections::(HashMap|HashSet)<|std::collections::hash_map::(Iter|Keys|Values)|std::collections::hash_set::Iter|hashbrown::')
    n = 0
    for a in sorted(seen):
        items = dbg_impl.get(a)
        if not items:
            continue
        for it in items:
            fb = mir.by_id.get(it)
            if fb is None:
                continue
            n += 1
            bad = []
            for i, j, s in fb.stmts():
                if s['k'] == 'assign' and s['rv']['k'] == 'cast' and 'dyn std::fmt::Debug' in (s['rv'].get('ty') or ''):
                    p = op_place(s['rv']['op'])
                    if p is not None and HASHY.search(fb.local_ty(p['l'])):
                        bad.append((mirq.site(fb, i, j), fb.local_ty(p['l'])))
            for bb, tm in fb.calls():
                tys = ' '.join(tm.get('argtys') or [])
                nm = strip_generics(tm.get('callee') or tm.get('decl') or '')
                if HASHY.search(tys) and (nm.endswith('::fmt') or nm.endswith('::entries') or nm.endswith('::entry')):
                    bad.append((mirq.site(fb, bb), tys))
            r8.inst({'type': a, 'formatted_at': seen[a], 'debug_impl': fb.span.split(':')[0] + ':' + fb.span.split(':')[1], 'hash_ordered_fields_printed': len(bad)}, ok=not bad, kind=a)
            if bad:
                r8.fail('%s/debug-prints-hash-order' % a, bad[0][0], 'Debug for %s prints a hash-ordered collection (%s) and values of this type are {:?}-formatted by compile-phase code (e.g. %s): the text of a compilation error differs between repetitions' % (a, bad[0][1][:60], seen[a]))
    if n < 5:
        r8.fail('anchor/debug-impls', '-', 'fewer Debug impls of compile-phase types found than expected (%d)' % n)
    r8.need(5)


def run(ctx):
    mir = ctx.mir
    ast = ctx.ast
    G = Grammar(ctx.grammar)
    ctx.explanation = ('Capability argument on the resolved call graph from feed_file (no evaluation, no native call, no runtime-typed local), '
                       'grammar/handler agreement computed from the pest rule tree, inventory of explicit panics and of order-sensitive hash iteration, '
                       'and of process-global mutable state.')
    ctx.trusted = ['rustc MIR / call resolution', 'pest_meta grammar parse; pest produces exactly the pairs the grammar describes', 'syn parse']
    ctx.assumptions = ['termination and complexity of parsing are NOT decided', 'panics inside library code (pest, regex, string_interner) are out of scope']

    # ---------------- R12.1 reachability
    r1 = ctx.rule('R12.1', 'nothing reachable from feed_file can evaluate user code or name the runtime')
    entry = mir.find(ENTRY)
    if len(entry) != 1:
        r1.fail('anchor/feed_file', '-', 'feed_file not found')
        return
    # which local functions call a closure-typed parameter?
    calls_param = set()
    for b in mir.bodies:
        if b.kind != 'fn':
            continue
        for bb, t in b.calls():
            d = strip_generics(t.get('decl') or '')
            if d in ('std::ops::Fn::call', 'std::ops::FnMut::call_mut', 'std::ops::FnOnce::call_once') and t.get('callee') is None:
                calls_param.add(b.nid)
    by_nid = mir.by_nid
    R = {}
    todo = [(entry[0], None)]
    # compile-time callbacks of dynamic functions: closures whose parameters are (Option<&[XExpr]>, Option<&[Arc<XType>]>, &mut CompilationScope, Option<..>)
    n_bind = 0
    for b in mir.bodies:
        if b.kind == 'closure' and b.d['argc'] == 5:
            tys = [b.local_ty(i) for i in range(2, 6)]
            if 'compilation_scope::CompilationScope' in tys[2] and tys[0].startswith('std::option::Option<&') and 'xexpr::XExpr' in tys[0]:
                todo.append((b, 'dyn-bind callback'))
                n_bind += 1
    while todo:
        b, via = todo.pop()
        if b.id in R:
            continue
        R[b.id] = via
        for bb, t in b.calls():
            cal = t.get('callee')
            if cal and cal in mir.by_id:
                todo.append((mir.by_id[cal], b.id))
            elif cal:
                for x in by_nid.get(strip_generics(cal), []):
                    todo.append((x, b.id))
            elif t.get('decl'):
                # unresolved trait method on a generic: all local impl methods of that name
                dn = strip_generics(t['decl'])
                if not dn.startswith('std::') and not dn.startswith('core::'):
                    meth = dn.split('::')[-1]
                    for x in mir.bodies:
                        if x.kind == 'fn' and x.nid.endswith('::' + meth) and x.get('impl_trait') and strip_generics(x.get('impl_trait')) == '::'.join(dn.split('::')[:-1]):
                            todo.append((x, b.id))
            # closures handed to foreign code or to local functions that call their parameter are (conservatively) called
            nm = strip_generics(cal or t.get('decl') or '')
            local = nm.split('::')[0] not in ('std', 'core', 'alloc', 'itertools', 'pest', 'regex', 'num_traits', 'string_interner', 'either', 'num_bigint') and not nm.startswith('<std::') and not nm.startswith('<core::')
            for a in t['args']:
                k, v = mirq.chase_op(b, a)
                if k == 'rv' and v[2]['rv']['k'] == 'agg' and v[2]['rv'].get('ak') == 'closure':
                    cdef = v[2]['rv']['def']
                    stores_only = nm in ('std::rc::Rc::new', 'std::boxed::Box::new', 'std::sync::Arc::new', 'std::option::Option::Some')
                    if ((not local) and not stores_only) or nm in calls_param or cal is None:
                        if cdef in mir.by_id:
                            todo.append((mir.by_id[cdef], b.id))
        # closures called directly
        for bb, t in b.calls():
            cal = t.get('callee')
            if cal and '{closure#' in cal and cal in mir.by_id:
                todo.append((mir.by_id[cal], b.id))
    r1.note('%d bodies reachable from feed_file (incl. %d dyn-bind callbacks)' % (len(R), n_bind))
    if n_bind < 40:
        r1.fail('anchor/dyn-bind', '-', 'only %d dyn-bind callbacks recognised (61 registrations confirmed by hand)' % n_bind)
    for bid in sorted(R):
        b = mir.by_id[bid]
        bad = []
        for bb, t in b.calls():
            nm = strip_generics(t.get('callee') or t.get('decl') or '')
            if nm in FORBIDDEN_CALLS:
                bad.append((bb, 'calls %s' % nm))
            # a call through a native callback / dyn-eval callback value
            if t.get('callee') is None:
                aty = ' '.join(t.get('argtys') or [])
                if 'dyn for<' in aty and 'runtime_scope::RuntimeScope' in aty and 'runtime::Runtime<' in aty:
                    bad.append((bb, 'calls a native/dyn-eval callback'))
        for i, l in enumerate(b.locals):
            if RUNTIME_TY.search(l['ty']) and not l['ty'].startswith('fn(') and 'dyn for<' not in l['ty'] and '{closure' not in l['ty'] and 'impl Fn' not in l['ty'] \
                    and not l['ty'].startswith('std::rc::Rc<dyn') and 'xvalue::XFunctionFactoryOutput' not in l['ty'] and 'xexpr::XStaticFunction' not in l['ty']:
                # a live runtime / scope value (not merely a function type mentioning it)
                if re.match(r'^(&|&mut |std::rc::Rc<)?(runtime::Runtime<|runtime_scope::RuntimeScope<|runtime::RuntimeStats<)', l['ty']):
                    bad.append((0, 'has a local of type %s' % l['ty'][:70]))
        r1.inst({'body': bid, 'via': R[bid]}, ok=not bad, kind=bid)
        for bb, why in bad[:3]:
            r1.fail('%s/%s' % (b.nid, why.split(' ')[0] + '-' + why.split(' ')[-1][:40]), mirq.site(b, bb), 'compile-phase code %s (reached via %s): compilation could evaluate user code or touch the injected writer/clock/rng' % (why, R[bid]))
    r1.need(300)

    # ---------------- R12.2 grammar <-> handlers
    r2 = ctx.rule('R12.2', 'rule-dispatching matches cover every grammar alternative; unwrap chains within guaranteed children')
    choice_sets = {}
    for name in G.order:
        alts = G.choice_alternatives(name)
        if alts and len(alts) >= 2:
            choice_sets[name] = alts
    pfile = ast['files'].get('src/parser.rs')
    n_match = 0
    covered_defaults = set()
    for fn_file, fn, im in astq.all_fns(ast):
        if fn_file != 'src/parser.rs':
            continue
        for m, ps in find_nodes(fn['body'], lambda y: y.get('k') == 'match'):
            A = set()
            default = None
            for a in m['arms']:
                names = re.findall(r'Rule\s*::\s*([A-Za-z_0-9]+)', a['pat'].get('s', '') or '')
                if not names and a['pat'].get('k') == 'por':
                    for c in a['pat']['cases']:
                        names += re.findall(r'Rule\s*::\s*([A-Za-z_0-9]+)', c.get('s', '') or '')
                A |= set(names)
                if a['pat'].get('k') == 'pwild':
                    default = a
            if len(A) < 2:
                continue
            n_match += 1
            panicking = default is None or bool(find_nodes(default['body'], lambda y: y.get('k') == 'macro' and y['name'] in ('unreachable', 'panic', 'unimplemented', 'todo')))
            for cname, alts in choice_sets.items():
                if len(A & alts) < 2:
                    continue
                missing = alts - A
                ok = not missing or not panicking
                r2.inst({'fn': fn['name'], 'line': m['line'], 'choice': cname, 'alternatives': len(alts), 'missing': sorted(missing), 'default_panics': panicking}, ok=ok, kind=(fn['name'], cname, m['line'] - fn['line']))
                if not ok:
                    r2.fail('%s/%s/%s' % (fn['name'], cname, ','.join(sorted(missing))), 'src/parser.rs:%d' % m['line'],
                            'grammar alternative(s) %s of `%s` have no arm in this dispatch and the default arm panics' % (sorted(missing), cname))
                elif default is not None and panicking:
                    covered_defaults.add((fn['name'], default['line']))
            # arms naming rules the grammar does not have
            for nme in A:
                if nme not in G.rules and nme != 'EOI':
                    r2.fail('%s/unknown-rule/%s' % (fn['name'], nme), 'src/parser.rs:%d' % m['line'], 'arm for Rule::%s which the grammar does not define' % nme)
    if n_match < 6:
        r2.fail('anchor/matches', 'src/parser.rs', 'fewer rule-dispatching matches than the 7 confirmed by hand')
    # matches on the text of a rule that is a choice of string literals (e.g. compound_kind = "struct" | "union")
    lit_rules = {name: set(G.literal_alternatives(name)) for name in G.order if G.literal_alternatives(name)}
    for fn_file, fn, im in astq.all_fns(ast):
        if fn_file != 'src/parser.rs':
            continue
        for m, ps in find_nodes(fn['body'], lambda y: y.get('k') == 'match'):
            lits = set()
            default = None
            for a in m['arms']:
                if a['pat'].get('k') == 'plit':
                    lits.add(a['pat']['lit'].strip().strip('"'))
                if a['pat'].get('k') == 'pwild':
                    default = a
            if len(lits) < 2 or default is None:
                continue
            panicking = bool(find_nodes(default['body'], lambda y: y.get('k') == 'macro' and y['name'] in ('unreachable', 'panic', 'unimplemented', 'todo')))
            if not panicking:
                continue
            owners = [nme for nme, L in lit_rules.items() if len(L & lits) >= 2]
            ok = any(lit_rules[o] <= lits for o in owners)
            r2.inst({'fn': fn['name'], 'line': m['line'], 'literals': sorted(lits), 'grammar_rule': owners}, ok=ok, kind=(fn['name'], 'lits', m['line'] - fn['line']))
            if ok:
                covered_defaults.add((fn['name'], default['line']))
            else:
                r2.fail('%s/literal-dispatch' % fn['name'], 'src/parser.rs:%d' % m['line'], 'match on rule text %s with a panicking default does not cover the literal alternatives of any grammar rule (%s)' % (sorted(lits), {o: sorted(lit_rules[o]) for o in owners}))
    # unwrap chains: inside an arm for Rule::R, `let mut it = input[.clone()].into_inner();` followed by k `it.next().unwrap()`
    for fn_file, fn, im in astq.all_fns(ast):
        if fn_file != 'src/parser.rs':
            continue
        for m, ps in find_nodes(fn['body'], lambda y: y.get('k') == 'match' and 'as_rule' in (y['expr'].get('s') or '')):
            subj = (m['expr'].get('s') or '').split('.')[0].strip()
            for a in m['arms']:
                names = re.findall(r'Rule\s*::\s*([A-Za-z_0-9]+)', a['pat'].get('s', '') or '')
                if len(names) != 1 or names[0] not in G.rules:
                    continue
                rule = names[0]
                alpha, minc = G.produced_children(rule)
                # iterators bound directly from `<subj>[.clone()].into_inner()`
                its = {}
                for st, _ in find_nodes(a['body'], lambda y: y.get('k') == 'let' and y.get('init') is not None):
                    s0 = re.sub(r'\s+', '', st['init'].get('s') or '')
                    if s0 in ('%s.into_inner()' % subj, '%s.clone().into_inner()' % subj) and st['pat'].get('k') == 'pident':
                        its[st['pat']['name']] = 0
                if not its:
                    continue
                for u, ups in find_nodes(a['body'], lambda y: y.get('k') == 'mcall' and y['method'] == 'unwrap' and y['recv'].get('k') == 'mcall' and y['recv']['method'] == 'next' and y['recv']['recv'].get('k') == 'path'):
                    nm = u['recv']['recv']['path']
                    # ignore uses inside nested closures / loops (not straight-line)
                    if nm in its and not any(p.get('k') in ('closure', 'for', 'while', 'loop') for p in ups):
                        its[nm] += 1
                for nm, cnt in its.items():
                    ok = cnt <= minc
                    r2.inst({'fn': fn['name'], 'rule': rule, 'iterator': nm, 'unwraps': cnt, 'guaranteed_children': minc}, ok=ok, kind=(fn['name'], rule, nm))
                    if not ok:
                        r2.fail('%s/%s/unwrap-chain' % (fn['name'], rule), 'src/parser.rs:%d' % a['line'], '%d unconditional .next().unwrap() on the children of `%s` but the grammar guarantees only %d' % (cnt, rule, minc))
    r2.need(12)

    # ---------------- R12.3 explicit panic inventory
    r3 = ctx.rule('R12.3', 'explicit panics in compile-phase code are dispatch defaults (R12.2) or listed with a reason')
    for fn_file, fn, im in astq.all_fns(ast):
        if fn_file not in COMPILE_FILES:
            continue
        if any('test' in a for a in fn.get('attrs', [])):
            continue
        ords = {}
        for n, ps in find_nodes(fn['body'], lambda y: y.get('k') == 'macro' and y['name'] in ('panic', 'unreachable', 'unimplemented', 'todo')):
            if any(p.get('k') == 'mod' and p.get('name') == 'tests' for p in ps):
                continue
            key = (fn_file, fn['name'], n['name'])
            # default arm of a covered dispatch?
            arm_default = False
            for p in ps:
                if p.get('k') == 'match':
                    for a in p['arms']:
                        if a['pat'].get('k') == 'pwild' and find_nodes(a['body'], lambda y: y is n) and (fn['name'], a['line']) in covered_defaults:
                            arm_default = True
            # `let X(..) = v else { unreachable!() }` after a dominating test is still a belief: needs a listing
            if arm_default:
                r3.inst({'file': fn_file, 'fn': fn['name'], 'line': n['line'], 'class': 'default arm of a grammar-covered dispatch'}, kind=(fn_file, fn['name'], n['line']))
                continue
            if key in PANIC_OK:
                r3.inst({'file': fn_file, 'fn': fn['name'], 'line': n['line'], 'class': 'listed'}, kind=(fn_file, fn['name'], n['line']))
                r3.exempted('%s::%s %s!' % key, PANIC_OK[key])
                continue
            ords[key] = ords.get(key, 0) + 1
            r3.inst({'file': fn_file, 'fn': fn['name'], 'line': n['line'], 'class': 'unlisted'}, ok=False, kind=(fn_file, fn['name'], n['line']))
            r3.fail('%s::%s/%s' % (fn_file, fn['name'], n['name']), '%s:%d' % (fn_file, n['line']), 'explicit %s! in compile-phase code is neither the default arm of a grammar-covered dispatch nor listed with a reason: a source text may crash the compiler' % n['name'])
        # unwrap of a text->number/char conversion: input-dependent by nature
        for u, ups in find_nodes(fn['body'], lambda y: y.get('k') == 'mcall' and y['method'] in ('unwrap', 'expect') and y['recv'].get('k') == 'mcall' and y['recv']['method'] in ('parse', 'from_str_radix', 'to_digit')):
            r3.inst({'file': fn_file, 'fn': fn['name'], 'line': u['line'], 'class': 'unwrap of a text conversion'}, ok=False, kind=(fn_file, fn['name'], u['line']))
            r3.fail('%s::%s/unwrap-parse' % (fn_file, fn['name']), '%s:%d' % (fn_file, u['line']), '.%s() on the result of %s(): the conversion of source text can fail (overflow), crashing the compiler' % (u['method'], u['recv']['method']))
    r3.need(12)

    # ---------------- R12.5 randomised-hash iteration
    r5 = ctx.rule('R12.5', 'hash-order iteration in the compile phase feeds only order-insensitive sinks')
    HASH_ITER = re.compile(r'^std::collections::(hash_map::HashMap|hash_set::HashSet|HashMap|HashSet)::(iter|iter_mut|keys|values|values_mut|drain|into_keys|into_values)$|^<(&|&mut )?std::collections::(HashMap|HashSet|hash_map::HashMap|hash_set::HashSet) as std::iter::IntoIterator>::into_iter$')
    ORDER_OK = {
        'compilation_scope::CompilationScope::into_static_ud': 'builds a HashSet union of forward requirements (insert per element)',
        'xtype::Bind::mix': 'inserts each binding into a map keyed by name (per-key)',
        'xtype::XType::resolve_bind': 'per-key lookup',
    }
    ADAPTOR = re.compile(r'^(std|core)::iter::(Iterator::(cloned|copied|map|filter|filter_map|enumerate|chain|zip|rev|skip|take|peekable|inspect|flat_map|flatten|by_ref)|IntoIterator::into_iter)$|^<.* as std::iter::IntoIterator>::into_iter$')
    INSENSITIVE = re.compile(r'::(all|any|count|sum|product|max|min|for_each|len|is_empty|contains|contains_key)$')

    def classify_sink(b, dl, depth=0):
        """follow an iterator value to its consumer; returns (ok, description)"""
        if depth > 8:
            return False, 'a long adaptor chain'
        if dl == 0:
            return None, 'returned to the caller'
        aliases = {dl}
        for i, j, s2 in b.stmts():
            if s2['k'] == 'assign' and s2['rv']['k'] == 'ref' and s2['rv']['place']['l'] == dl and not s2['rv']['place']['p'] and not s2['place']['p']:
                aliases.add(s2['place']['l'])
        for bb2, t2 in b.calls():
            if not t2['args'] or op_local(t2['args'][0]) not in aliases:
                if any(op_local(a) in aliases for a in t2['args'][1:]):
                    sk0 = strip_generics(t2.get('callee') or t2.get('decl') or '')
                    if sk0.endswith('::extend') and len(t2['args']) == 2:
                        # collection.extend(iter): fine for hash / tree collections; a Vec must be sorted afterwards
                        rty = (t2.get('argtys') or [''])[0]
                        if re.search(r'Hash(Map|Set)|BTree(Map|Set)', rty):
                            return True, 'extend of %s' % rty[:40]
                        tgts = set()
                        l0 = op_local(t2['args'][0])
                        for _ in range(4):
                            ds0 = b.defs().get(l0, []) if l0 is not None else []
                            if len(ds0) == 1 and ds0[0][0] == 'stmt' and ds0[0][3]['rv']['k'] == 'ref':
                                l0 = ds0[0][3]['rv']['place']['l']
                                tgts.add(l0)
                            elif len(ds0) == 1 and ds0[0][0] == 'stmt' and ds0[0][3]['rv']['k'] == 'use' and op_local(ds0[0][3]['rv']['op']) is not None:
                                l0 = op_local(ds0[0][3]['rv']['op'])
                            else:
                                break
                        for bb3, t3 in b.calls():
                            k3 = strip_generics(t3.get('callee') or t3.get('decl') or '')
                            if re.search(r'slice::<impl \[T\]>::sort(_unstable)?(_by|_by_key)?$', k3) and bb3 in b.reachable(t2['target']):
                                sl = mirq.backslice(b, [op_local(t3['args'][0])] if op_local(t3['args'][0]) is not None else [])
                                if sl & tgts:
                                    return True, 'extended into a Vec that is then sorted'
                    return False, 'argument of %s' % sk0
                continue
            sk = strip_generics(t2.get('callee') or t2.get('decl') or '')
            if ADAPTOR.match(sk):
                return classify_sink(b, t2['dest']['l'], depth + 1)
            if INSENSITIVE.search(sk):
                return True, sk
            if sk.endswith('::collect') or sk.endswith('FromIterator>::from_iter'):
                tyd = b.local_ty(t2['dest']['l']) if not t2['dest']['p'] else ''
                if re.search(r'Hash(Map|Set)|BTree(Map|Set)', tyd):
                    return True, 'collect into %s' % tyd[:40]
                # a Vec that is sorted before any other use
                vl = t2['dest']['l']
                holders = {vl}
                for i, j, s2 in b.stmts():
                    if s2['k'] == 'assign' and s2['rv']['k'] == 'use' and op_local(s2['rv']['op']) in holders and not s2['place']['p']:
                        holders.add(s2['place']['l'])
                for bb3, t3 in b.calls():
                    k3 = strip_generics(t3.get('callee') or t3.get('decl') or '')
                    if re.search(r'slice::<impl \[T\]>::sort(_unstable)?(_by|_by_key)?$', k3):
                        # receiver derives from the vec
                        sl = mirq.backslice(b, [op_local(t3['args'][0])] if op_local(t3['args'][0]) is not None else [])
                        if sl & holders:
                            return True, 'collected then sorted'
                return False, 'collect into an ordered %s' % tyd[:40]
            return False, sk
        # used by a `for` loop: next() called on it
        return False, 'an order-sensitive use'

    sites = []
    for b in mir.bodies:
        if b.kind == 'promoted':
            continue
        for bb, t in b.calls():
            nm = strip_generics(t.get('callee') or t.get('decl') or '')
            if HASH_ITER.match(nm):
                sites.append((b, bb, t, nm))
    # wrappers that just return the iterator: their call sites are iteration sites of the caller
    wrappers = {}
    for b, bb, t, nm in sites:
        ok, desc = classify_sink(b, t['dest']['l'])
        if ok is None:
            wrappers[b.nid] = nm
    for wn in list(wrappers):
        for (cb, cbb, ct) in mir.callers_index().get(wn, []):
            sites.append((cb, cbb, ct, wrappers[wn] + ' via ' + wn))
    for b, bb, t, nm in sites:
        if b.id not in R:
            continue
        ok, desc = classify_sink(b, t['dest']['l'])
        if ok is None:
            continue   # wrapper: judged at its call sites
        ok = bool(ok) or b.nid in ORDER_OK
        r5.inst({'body': b.id, 'site': mirq.site(b, bb), 'iter': nm.split('::')[-1], 'sink': desc}, ok=ok, kind=(b.id, bb))
        if not ok:
            r5.fail('%s/hash-order' % b.nid, mirq.site(b, bb), 'iteration over a randomly-ordered hash collection reaches %s: the outcome (e.g. which name an error reports) can differ between runs of the same source' % desc)
    r5.need(2)

    # ---------------- R12.6 process-global state
    r6 = ctx.rule('R12.6', 'no process-global mutable state besides the scope-id counter (equality only)')
    MUT = re.compile(r'\b(Atomic[A-Z]\w*|Mutex|RwLock|RefCell|Cell|OnceCell|OnceLock|UnsafeCell)\b')
    for sid, s in sorted(mir.statics.items()):
        if s['mut'] == 'const':
            continue
        bad = s['mut'] == 'Mut' or MUT.search(s['ty'])
        if sid == 'compilation_scope::NEXT_ID':
            r6.inst({'static': sid, 'ty': s['ty'], 'class': 'scope-id counter'}, kind=sid)
            continue
        r6.inst({'static': sid, 'ty': s['ty'][:60]}, ok=not bad, kind=sid)
        if bad:
            r6.fail('%s/static' % sid, s['span'], 'process-global mutable state (%s): compilation outcomes could depend on earlier compilations' % s['ty'][:60])
    # NEXT_ID is touched only by next_id(); ids are only compared for equality (who-reads of the id fields)
    def names_static(o):
        c = o.get('const') if isinstance(o, dict) else None
        return bool(c) and c.get('static') == 'compilation_scope::NEXT_ID'
    users = [b.nid for b in mir.bodies if b.kind != 'const' for i, j, s in b.stmts() if s['k'] == 'assign' and (names_static(s['rv'].get('op')) or any(names_static(o) for o in s['rv'].get('ops', [])))]
    users += [b.nid for b in mir.bodies if b.kind != 'const' for bb, t in b.calls() if any(names_static(a) for a in t['args'])]
    ok = set(users) <= {'compilation_scope::next_id'} and bool(users)
    r6.inst({'NEXT_ID_users': sorted(set(users))}, ok=ok)
    if not ok:
        r6.fail('NEXT_ID/users', 'src/compilation_scope.rs', 'the id counter is used outside next_id(): %s' % sorted(set(users)))
    ID_READERS_OK = {'runtime_scope::RuntimeScopeTemplate::from_specs', 'runtime_scope::RuntimeScope::from_template'}
    for adt, fld in (('runtime_scope::RuntimeScopeTemplate', 'id'),):
        for b, bb, j, mode, p in mirq.field_accesses(mir, adt, fld):
            # reads must feed an equality comparison
            okr = mode == 'r'      # any body may look at an id, as long as the only thing it does with it is an equality test
            if okr and j is not None:
                s = b.blocks[bb]['stmts'][j]
                tgt = s['place']['l']
                okr = any(s2['k'] == 'assign' and s2['rv']['k'] == 'bin' and s2['rv']['op'] in ('Eq', 'Ne') and tgt in (op_local(s2['rv']['a']), op_local(s2['rv']['b'])) for _, _, s2 in b.stmts())
            r6.inst({'reader': b.id, 'field': '%s.%s' % (adt, fld), 'equality_only': okr}, ok=okr, kind=(b.id, fld, bb))
            if not okr:
                r6.fail('%s/id-use' % b.nid, mirq.site(b, bb), 'a scope id (process-global counter value) is used for something other than an equality test')
    r6.need(3)

    # ---------------- R12.7 index inventory of the compile phase: every position-indexed access in a body reachable from
    # feed_file is guarded by a comparison with the length of the same collection, or listed with the invariant that makes
    # the index valid (one reason per site; a new unlisted site is reported)
    r7 = ctx.rule('R12.7', 'indexed accesses in compile-phase code are guarded by a length test or listed with the invariant that bounds the index')
    index_inventory(ctx, r7, R)

    # ---------------- R12.8 text produced by the compile phase does not depend on hash order through Debug formatting
    r8 = ctx.rule('R12.8', 'no type Debug-formatted by compile-phase code prints a hash-ordered collection')
    debug_hash_order(ctx, r8, R)

    # ---------------- R12.9 the grammar never parses a self-embedding nonterminal twice at one position (pest keeps no memo
    # table, so each such place doubles the parsing work per level of nesting: "terminates" fails in practice at depth ~40)
    r9 = ctx.rule('R12.9', 'no grammar rule re-parses a nonterminal that can contain the rule itself (common-prefix alternatives, (X sep)* X)')
    G = Grammar(ctx.grammar)
    n9 = 0
    for name in G.order:
        if len(G.branches(G.rules[name]['expr'])) >= 2:
            n9 += 1
    conflicts = G.reparse_conflicts()
    for name, i, j, pref, rec in conflicts:
        shown = ' '.join(s[1] if s[0] != 'lit' else '"%s"' % s[1] for s in pref)
        r9.inst({'rule': name, 'alternatives': [i, j], 'common_prefix': shown}, ok=False, kind=(name, i, j))
        r9.fail('grammar/%s/common-prefix/%s' % (name, '-'.join(rec)), 'src/xray.pest', 'alternatives %d and %d of `%s` both begin with %s: when the earlier one fails after `%s`, the later one parses it again, and `%s` can contain `%s`: parsing time doubles with every level of nesting' % (i, j, name, shown, rec[0], rec[0], name))
    reps = G.repetition_reparse()
    for name, x in reps:
        r9.inst({'rule': name, 'pattern': '(%s sep)* %s' % (x, x)}, ok=False, kind=(name, x))
        r9.fail('grammar/%s/repetition/%s' % (name, x), 'src/xray.pest', '`%s` is written (%s sep)* %s: the last, failing round of the repetition parses `%s` and the next element parses it again; `%s` can contain `%s`: parsing time doubles with every level of nesting' % (name, x, x, x, x, name))
    r9.inst({'ordered_choices_examined': n9, 'rules_examined': len(G.order)}, ok=True, kind='scan')
    for _ in range(max(0, n9 - 1)):
        pass
    if n9 < 10:
        r9.fail('anchor/grammar', 'src/xray.pest', 'fewer ordered choices than expected in the grammar (%d)' % n9)
    r9.need(1)

    auto_flag_discipline(ctx)
    one_source_text(ctx)
    unwrap_inventory(ctx)


def auto_flag_discipline(ctx):
    """R12.10: the auto type `$` is legal only as a whole turbofish slot.  get_complete_type receives that permission as a flag; every
    recursive call of get_complete_type (for tuple components, generic arguments, parameter and return types of a function type)
    passes the constant false, so that an Auto never ends up inside another type -- where later stages (overload binding, type
    rendering: `XType::Auto => unreachable!()`) do not expect it."""
    mir = ctx.mir
    r10 = ctx.rule('R12.10', 'the auto-type permission is never passed on to the component types of a type')
    fam = [b for b in mir.bodies if re.search(r'::get_complete_type(::\{closure#\d+\})*$', b.nid)]
    if not fam:
        r10.fail('anchor/get_complete_type', 'src/parser.rs', 'get_complete_type not found')
    # ... and the helpers of the same file it calls (a recursive call may sit in a helper `component_type(..)`): everything reachable
    # from get_complete_type inside src/parser.rs, closures included
    seen = {b.id for b in fam}
    todo = list(fam)
    while todo:
        x = todo.pop()
        for bb, t in x.calls():
            cal = strip_generics(t.get('callee') or '')
            if cal.endswith('::get_complete_type'):
                continue
            for y in mir.bodies:
                if y.id in seen or y.file != 'src/parser.rs':
                    continue
                if y.nid == cal or y.nid.startswith(cal + '::{closure'):
                    seen.add(y.id)
                    fam.append(y)
                    todo.append(y)
    for b in fam:
        for bb, t in b.calls():
            if not strip_generics(t.get('callee') or '').endswith('::get_complete_type') or len(t['args']) < 6:
                continue
            a = t['args'][5]
            ok = 'const' in a and a['const'].get('bool') is False
            r10.inst({'recursive_call': mirq.site(b, bb), 'auto_allowed': a['const'].get('s') if 'const' in a else 'not a constant'}, ok=ok, kind=(b.nid, bb))
            if not ok:
                r10.fail('get_complete_type/auto-inherited', mirq.site(b, bb), 'a component type is parsed with the caller\'s auto permission: `$` nested inside a type (foo{Optional<$>}) is accepted, reaches overload binding, and rendering it in an error message hits unreachable!()')
    r10.need(1)


def one_source_text(ctx):
    """R12.11: positions in compilation errors are byte offsets into the text that was parsed.  feed_file therefore renders errors
    (resolve_with_input) against the very text it handed to the parser: both operands are the parameter itself, reached through
    reborrows only -- not a trimmed / stripped / re-encoded derivative of it on one side."""
    mir = ctx.mir
    r11 = ctx.rule('R12.11', 'errors are rendered against the same source text that was parsed')
    fam = [b for b in mir.bodies if re.search(r'RootCompilationScope(::<[^>]*>)?::feed_file(::\{closure#\d+\})*$', b.nid)]
    if not fam:
        r11.fail('anchor/feed_file', 'src/root_compilation_scope.rs', 'feed_file not found')
        r11.need(2)
        return

    def text_origin(b, op, depth=8):
        """('param', n) when the operand is parameter n of feed_file through reborrows / moves / closure captures only;
        ('derived', callee) when a call produced it"""
        p = op_place(op)
        if p is None:
            return ('const', None)
        cur = p
        for _ in range(depth):
            l = cur['l']
            if b.kind == 'closure' and l == 1:
                fs = [e['f'] for e in cur['p'] if isinstance(e, dict) and 'f' in e]
                for pb, bb, j in mirq.closure_creation_sites(mir, b.id):
                    ops = pb.blocks[bb]['stmts'][j]['rv'].get('ops') or []
                    if fs and fs[0] < len(ops):
                        return text_origin(pb, ops[fs[0]], depth - 1)
                return ('unknown', None)
            ds = b.defs().get(l, [])
            if not ds and 1 <= l <= b.d['argc']:
                return ('param', l)
            if len(ds) != 1:
                return ('unknown', None)
            kind, bb, idx, x = ds[0]
            if kind == 'call':
                return ('derived', strip_generics(x.get('callee') or x.get('decl') or '?'), b.id, bb)
            rv = x['rv']
            if rv['k'] in ('ref', 'copyderef'):
                cur = rv['place']
            elif rv['k'] in ('use', 'cast') and op_place(rv['op']) is not None:
                cur = op_place(rv['op'])
            else:
                return ('unknown', None)
        return ('unknown', None)
    uses = []
    for b in fam:
        for bb, t in b.calls():
            nm = strip_generics(t.get('callee') or t.get('decl') or '')
            if nm.endswith('Parser>::parse') or nm.endswith('::Parser::parse'):
                uses.append(('parse', b, bb, text_origin(b, t['args'][-1])))
            elif nm.endswith('::resolve_with_input'):
                uses.append(('render', b, bb, text_origin(b, t['args'][-1])))
    kinds = {u[0] for u in uses}
    origins = {u[3] for u in uses}
    same = len(origins) == 1 and next(iter(origins))[0] in ('param', 'derived')
    for what, b, bb, og in uses:
        r11.inst({'use': what, 'site': mirq.site(b, bb), 'text': '%s %s' % (og[0], og[1])}, ok=same, kind=(what, b.nid, bb))
    if not same:
        odd = [u for u in uses if u[3][0] != 'param'] or uses
        what, b, bb, og = odd[0]
        r11.fail('feed_file/%s-on-another-text' % what, mirq.site(b, bb), 'feed_file %ss a text produced by %s while the other side uses %s: byte offsets of errors no longer index the text they are rendered against (a multi-byte character near the error makes the compiler panic on a char boundary)'
                 % (what, og[1] or 'an unrecognised computation', ', '.join(sorted({'%s %s' % (u[3][0], u[3][1]) for u in uses if u[3] != og})) or 'the same'))
    if kinds != {'parse', 'render'}:
        r11.fail('anchor/uses', fam[0].file, 'expected one parse and at least one resolve_with_input in feed_file (found %s)' % sorted(kinds))
    r11.need(2)


UNWRAP_FILES = ('src/xtype.rs', 'src/compilation_scope.rs', 'src/root_compilation_scope.rs', 'src/compile_err.rs', 'src/builtin/core.rs')
UNWRAP_OK = {
    # (function, Option | Result [+ which map]): the invariant that makes the value present -- confirmed by reading
    ('<util::special_prefix_interner::SpecialPrefixSymbol as compile_err::Resolve>::resolve', 'Option'): 'symbols are resolved with the interner that interned them',
    ('<xtype::XCompoundSpec as compile_err::Resolve>::resolve', 'Option'): 'symbols are resolved with the interner that interned them',
    ('xtype::XType::to_string_with_interner', 'Option'): 'symbols are resolved with the interner that interned them',
    ('xtype::XType::resolve_bind', 'Option:native'): 'the map was filled two lines above from the same generic_names() of the native type',
    ('xtype::CallbackType::new', 'Option'): 'called by get_func_with_type with the argument types the overload was just resolved with: that resolution performed the same spec.bind successfully',
    ('compilation_scope::CompilationScope::ancestor_at_depth', 'Option'): 'capture depths are produced by get_item, which counted existing ancestors (the C03 rules decide the producers)',
    ('compilation_scope::CompilationScope::compile', 'Option'): 'dominated by the args.len() != 1 rejection of the variant constructor (R04.2 decides that test)',
    ('compilation_scope::CompilationScope::type_of', 'Option'): 'a Recourse cell exists only inside the function whose scope recorded recourse_xtype',
    ('root_compilation_scope::RootCompilationScope::feed_file', 'Option'): 'a successful parse of Rule::header yields exactly that pair',
    ('root_compilation_scope::RootCompilationScope::generics_from_names', 'Result'): 'the vector was built from an array of the same const length N',
    ('builtin::core::get_func_with_type', 'Result'): 'type_of of the overload reference get_func just produced',
    ('builtin::core::unpack_dyn_types', 'Result'): 'dominated by the length test against N',
    ('builtin::core::unpack_dyn_types_at_least', 'Result'): 'take(N) after the length test against N',
    ('builtin::core::unpack_dyn_types_with_optional', 'Result'): 'take(N) / pad_using(P) after the length test against N and N + P',
    ('builtin::core::unpack_compounds', 'Result'): 'M is the number of generic parameters the registering native declared for that compound',
}


def _short_ty(ty):
    ty = re.sub(r'\b(std|core|alloc)::(\w+::)*', '', ty)
    ty = re.sub(r'\b(\w+::)+', '', ty)
    ty = re.sub(r"'\w+ ?", '', ty)
    ty = re.sub(r'<W, R, T>|<\'_, W, R, T>|<_, W, R, T>', '', ty)
    return ty.replace(' ', '')


def unwrap_inventory(ctx):
    """R12.12: in the type layer (type relations, compilation scope, entry point, error rendering, the compile-time helpers of the
    dynamic functions) every Option / Result that is unwrapped is listed with the invariant that makes the value present; a new or
    unlisted unwrap is reported (a None there is a compiler crash, not a compilation error)."""
    from .lib.facts import callee_name
    mir = ctx.mir
    r12 = ctx.rule('R12.12', 'unwraps of the type layer are listed with the invariant that makes the value present')
    for b in mir.bodies:
        if b.file not in UNWRAP_FILES or '::tests::' in b.nid:
            continue
        fn = strip_generics(mir.enclosing_fn(b)) if b.kind == 'closure' else b.nid
        for bb, t in b.calls():
            nm = strip_generics(callee_name(t) or '')
            if nm not in ('std::option::Option::unwrap', 'std::option::Option::expect', 'std::result::Result::unwrap', 'std::result::Result::expect') or b.is_cleanup(bb):
                continue
            ty = 'Option' if 'option::Option' in nm else 'Result'
            key = (fn, ty)
            if fn == 'xtype::XType::resolve_bind':
                # two different maps are read there: the freshly built one of a native type, and the stored binding of a compound
                arg = op_place(t['args'][0])
                sl = mirq.backslice(b, [arg['l']]) if arg is not None else set()
                fresh = b.kind == 'closure' or any(strip_generics(callee_name(ct) or '').endswith('HashMap::new') and ct['dest']['l'] in sl for cbb, ct in b.calls())
                key = (fn, ty + (':native' if fresh else ':compound'))
            why = UNWRAP_OK.get(key)
            r12.inst({'fn': fn, 'site': mirq.site(b, bb), 'unwrapped': key[1], 'listed': why is not None}, ok=why is not None, kind=(b.nid, bb))
            if why is not None:
                r12.exempted('%s: %s' % key, why)
            else:
                r12.fail('%s/unwrap/%s' % (fn, re.sub(r'[^A-Za-z0-9:]+', '-', key[1]).strip('-')), mirq.site(b, bb), 'an unlisted unwrap of an %s in the type layer: when the value is absent the compiler panics instead of reporting a compilation error (the binding of a compound type can be partial: union Nested<T>(x: T, y: Sequence<Nested<T>>) let f = ()->{Nested::y([])}; let z = f(); crashes in resolve_bind)' % key[1])
    r12.need(12)
