"""C04 — static checking accepts exactly the assignable programs.  Structural clauses of the type relations:
  R04.0  call typing (type_of Call) is arity- and argument-checked for every callee kind     [shared with C01 as R01.1]
  R04.1  declared types demand an empty binding: both declared-type checks reject a non-empty bind
  R04.2  no truncating zip in the type relations: every zip of two runtime-length lists is preceded by a length test
         on the same two lists (or listed with a reason); arity checks precede component checks   [R01.2]
  R04.3  hand-written type equality reads every typing-relevant field                             [R01.3]
  R04.4  case coverage of the sibling relations bind_in_assignment / common_type / eq is consistent with the listed table
  R04.8  matching a parameter type that is a generic variable always records a binding (abstract evaluation)
"""
import re
from .lib import astq
from .lib.facts import find_nodes, walk

XT = 'src/xtype.rs'
CSF = 'src/compilation_scope.rs'


def src(n):
    return re.sub(r'\s+', '', n.get('s') or '')


def flat_src(n):
    """reconstruct a compact source string even for nodes too long to carry 's'"""
    if n.get('s'):
        return src(n)
    parts = []

    def vis(x, ps):
        if x.get('s') and not any(p.get('s') for p in ps if p is not n):
            parts.append(src(x))
    walk(n, vis)
    return ''.join(parts)

# zips accepted without a dominating length test, keyed by what the two sides iterate (origins computed on the MIR: the
# function a collection is the result of, or the field path it is read from -- no local names): (function, A, B) -> reason
ZIP_OK = {
    ('common_type', 'call:XCompoundSpec::generics_with_bind', 'call:XCompoundSpec::generics_with_bind'): 'both lists come from generics_with_bind of the same spec (a == b checked just above): one entry per generic name',
    ('bind_in_assignment', 'call:XCompoundSpec::generics_with_bind', 'call:XCompoundSpec::generics_with_bind'): 'both lists come from generics_with_bind of the same spec (a == b checked just above)',
    ('common_type', 'field:Compound.1.generic_names', 'call:Iterator::zip'): 'generic names zipped with the per-name lists built from them (generics_with_bind yields one entry per name)',
    ('common_type', 'field:XNative.1', 'field:XNative.1'): 'XNative generic lists of the same NativeType (a == b checked just above): arity fixed by the type, checked in get_complete_type',
    ('bind_in_assignment', 'field:XNative.1', 'field:XNative.1'): 'XNative generic lists of the same NativeType (a == b checked just above)',
    ('resolve_bind', 'call:NativeType::generic_names', 'field:XNative.1'): 'XNative arity is fixed by the NativeType (checked in get_complete_type)',
    ('resolve_bind', 'field:Some.0.Compound.1.generic_names', 'field:XTail.0'): "XTail arguments are checked against the compound's arity when the recursive reference is resolved by get_complete_type (same GenericParamCountMismatch check)",
    ('from_parent', 'param:2', 'call:Iterator::map'): 'parameter names and the spec are built together from the same parameter list by parse_function_header',
    ('parse_expr', 'call:Itertools::multiunzip', 'call:Iterator::map'): 'lambda parameter names and specs are built together by multiunzip from one parameter list',
}

# which payload structs each arm of the hand-written equality compares; the fields to read are *all* fields of these structs
# (taken from the ADT definitions in the MIR facts) minus the listed non-typing ones
TYPING_STRUCTS = {
    ('XFunc', 'XFunc'): ['xtype::XFuncSpec', 'xtype::XFuncParamSpec'],
    ('XCallable', 'XFunc'): ['xtype::XCallableSpec', 'xtype::XFuncSpec', 'xtype::XFuncParamSpec'],
    ('Compound', 'Compound'): [],
}
NON_TYPING = {
    (('XFunc', 'XFunc'), 'short_circuit_overloads'): 'evaluation-strategy flag of the stub overloads registered for the unknown type; not part of a signature',
    (('XCallable', 'XFunc'), 'short_circuit_overloads'): 'evaluation-strategy flag; not part of a signature',
}
TYPING_FIELDS = {('Compound', 'Compound'): {'name'}}

# pairs (self, other) each relation decides with a non-trivial arm; divergences between siblings need a reason
PAIR_TABLE_REASONS = {
    ('eq', ('XCallable', 'XFunc')): 'a callable type equals a non-generic function type of the same signature',
    ('eq', ('XFunc', 'XCallable')): 'symmetric case, delegates to the one above',
    ('bind_in_assignment', ('XCallable', 'XFunc')): 'a function value is assignable to a callable slot; no common_type counterpart is needed because arrays of mixed callables/functions are rejected',
    ('bind_in_assignment', ('XGeneric', '_')): 'generic parameter binds anything',
    ('bind_in_assignment', ('_', 'XUnknown')): 'bottom type assignable to anything',
    ('bind_in_assignment', ('XUnknown', '_')): 'unknown target accepts anything',
    ('bind_in_assignment', ('XGeneric', 'XGeneric')): 'same generic parameter',
    ('common_type', ('_', 'XUnknown')): 'bottom type',
    ('common_type', ('XUnknown', '_')): 'bottom type',
    ('eq', ('XUnknown', 'XUnknown')): 'reflexive',
    ('eq', ('XGeneric', 'XGeneric')): 'same parameter',
    ('bind_in_assignment', ('XFunc', 'XFunc')): 'function types: contravariant arity window, component-wise',
    ('bind_in_assignment', ('XCallable', 'XCallable')): 'callable types: exact arity, component-wise',
    ('eq', ('XFunc', 'XFunc')): 'function types',
    ('eq', ('XCallable', 'XCallable')): 'callable types',
    ('bind_in_assignment', ('Bool', 'Bool')): 'primitive', ('bind_in_assignment', ('Int', 'Int')): 'primitive',
    ('bind_in_assignment', ('Float', 'Float')): 'primitive', ('bind_in_assignment', ('String', 'String')): 'primitive',
    ('eq', ('Bool', 'Bool')): 'primitive', ('eq', ('Int', 'Int')): 'primitive', ('eq', ('Float', 'Float')): 'primitive', ('eq', ('String', 'String')): 'primitive',
}
STRUCTURAL = [('Compound', 'Compound'), ('Tuple', 'Tuple'), ('XNative', 'XNative')]


def variant_pair(pat):
    """('XFunc','XFunc') from a tuple pattern of two XType variant patterns"""
    if pat.get('k') != 'ptuple' or len(pat['elems']) != 2:
        return None
    out = []
    for e in pat['elems']:
        if e.get('k') == 'pwild':
            out.append('_')
            continue
        m = re.search(r'Self\s*::\s*(\w+)', e.get('s') or e.get('path') or '')
        if not m and e.get('k') in ('ptuplestruct', 'ppath', 'pstruct'):
            m = re.search(r'(\w+)$', (e.get('path') or '').replace(' ', ''))
        if not m:
            return None
        out.append(m.group(1))
    return tuple(out)


def run(ctx):
    ast = ctx.ast
    ctx.explanation = ('Syntax-tree rules over the three hand-written type relations and the call/declaration typing sites: arity and argument '
                       'checks for calls through values, empty-bind requirement for declared types, length tests before every zip of two lists, '
                       'field coverage of the hand-written equality, and sibling agreement of the relations\' case tables.')
    ctx.trusted = ['syn parse', 'the listed reasons for zips without a local length test (rules/c04.py ZIP_OK) were confirmed by reading']
    ctx.assumptions = ['completeness (every assignable program is accepted) and least-common-type optimality are NOT decided']
    fns = {(f, fn['name']): fn for f, fn, im in astq.all_fns(ast) if f in (XT, CSF, 'src/parser.rs')}

    # ---------------- R04.0 call typing
    r0 = ctx.rule('R04.0', 'calls through function-typed values are arity- and argument-checked (type_of Call)')
    # (the clauses are decided on the MIR below, so that an if-let chain, a match or a helper function are all the same)
    # (c) on the MIR: what becomes of each assignability test of an argument.  Its binding must either be accumulated
    #     (Bind::mix: the callee is a function value with generic parameters of its own) or be required empty
    #     (Bind::is_empty: the parameters a callable type mentions are the enclosing function's and are opaque here);
    #     merely testing that it exists lets an argument bind a generic parameter of the enclosing function.
    from .lib import mirq
    from .lib.facts import strip_generics as _sg, callee_name as _cn
    n_arg_tests = 0
    for b in ctx.mir.bodies:
        if b.nid != 'compilation_scope::CompilationScope::type_of' and not b.nid.startswith('compilation_scope::CompilationScope::type_of::{closure'):
            continue
        for bb, tm in b.calls():
            if _sg(_cn(tm) or '') != 'xtype::XType::bind_in_assignment' or tm['dest']['p']:
                continue
            cons = mirq.consumers(ctx.mir, b, tm['dest']['l'])
            ok = 'xtype::Bind::mix' in cons or 'xtype::Bind::is_empty' in cons
            n_arg_tests += 1
            # (d) and the loop that performs it is dominated by a comparison of the number of arguments with the number of
            #     parameters: a branch whose condition is computed from a length of the argument vector (Vec<XExpr>) and from
            #     a length / count over the callee's parameter list
            arity_ok = False
            for d in sorted(b.dominators().get(bb, ())):
                tmd = b.term(d)
                if tmd['k'] != 'switch' or d == bb:
                    continue
                from .lib.facts import op_local as _ol
                dl = _ol(tmd['discr'])
                if dl is None:
                    continue
                sl = mirq.backslice(b, [dl])
                lens_args = lens_params = False
                for cbb, ct in b.calls():
                    if ct['dest']['p'] or ct['dest']['l'] not in sl:
                        continue
                    cn = _sg(_cn(ct) or '')
                    aty = (ct.get('argtys') or [''])[0]
                    if cn.endswith('Vec::len') or cn.endswith('<impl [T]>::len'):
                        if 'xexpr::XExpr' in aty:
                            lens_args = True
                        elif 'xtype::XType' in aty or 'xtype::XFuncParamSpec' in aty:
                            lens_params = True
                    elif cn.endswith('Iterator::count') and 'XFuncParamSpec' in aty:
                        lens_params = True
                if lens_args and lens_params:
                    arity_ok = True
            r0.inst({'argument_test': mirq.site(b, bb), 'dominated_by_arity_comparison': arity_ok}, ok=arity_ok, kind=('arity', n_arg_tests))
            if not arity_ok:
                r0.fail('type_of/arity-not-compared', mirq.site(b, bb), 'the arguments of a call through a function value are checked against the parameter types without a dominating comparison of the number of arguments with the number of parameters (the evaluator indexes parameters by position unchecked)')
            r0.inst({'argument_test': mirq.site(b, bb), 'binding_goes_to': sorted(c.split('::')[-1] for c in cons)}, ok=ok, kind=('argtest', n_arg_tests))
            if not ok:
                r0.fail('type_of/argument-binding-dropped', mirq.site(b, bb), 'the binding produced by checking an argument against a parameter type is neither accumulated (Bind::mix) nor required to be empty (Bind::is_empty): an argument can bind a generic parameter of the enclosing function (f(1) accepted for f: (T)->(T))')
    if n_arg_tests < 2:
        r0.fail('anchor/argument-tests', CSF, 'fewer than the 2 argument assignability tests of type_of(Call) found in the MIR (%d)' % n_arg_tests)
    r0.need(4)

    # ---------------- R04.1 declared types demand an empty binding
    r1 = ctx.rule('R04.1', 'declared-type checks reject a non-empty binding')
    declared_type_table(ctx, r1)

    # ---------------- R04.8 a match of a generic variable is always recorded
    r8 = ctx.rule('R04.8', 'matching a generic parameter type always records a binding for it (also against a generic of the same name)')
    generic_match_recorded(ctx, r8)
    compiled_expressions_typed(ctx)
    optional_range_consulted(ctx)
    match_unresolved_parameter(ctx)

    # ---------------- R04.2 zips
    r2 = ctx.rule('R04.2', 'every zip of two runtime-length lists is preceded by a length test on the same lists')
    r5 = ctx.rule('R04.5', 'the two sides of a zip in the type relations iterate in the same direction')
    zip_guards(ctx, r2, r5)
    # variant constructor: exactly one argument before taking it
    comp = fns.get((CSF, 'compile'))
    if comp:
        nx = find_nodes(comp['body'], lambda y: y.get('k') == 'mcall' and y['method'] == 'unwrap' and 'args.into_iter().next()' in flat_src(y['recv']))
        for u, ups in nx:
            tests = [flat_src(c['cond']) for p in ups if p.get('k') in ('if', 'block', 'match', 'return') for c, _ in find_nodes(p, lambda y: y.get('k') == 'if') if c['line'] <= u['line']]
            ok = any('args.len()!=1' in t for t in tests)
            r2.inst({'variant_constructor': 'args.len() != 1 before taking the payload', 'ok': ok}, ok=ok)
            if not ok:
                r2.fail('compile/variant-arity', '%s:%d' % (CSF, u['line']), 'variant constructor takes its first argument without requiring exactly one')
        if not nx:
            r2.fail('anchor/variant-ctor', CSF, 'variant constructor site not found')

    # ---------------- R04.5 zip partners iterate in the same direction

    # ---------------- R04.3 equality field coverage
    r3 = ctx.rule('R04.3', 'hand-written XType equality reads every typing-relevant field')
    eqs = [fn for f, fn, im in astq.all_fns(ast) if f == XT and fn['name'] == 'eq' and im is not None and 'XType' in im.get('self_ty', '')]
    if len(eqs) != 1:
        r3.fail('anchor/eq', XT, 'PartialEq::eq for XType not found')
    else:
        for m, ps in find_nodes(eqs[0]['body'], lambda y: y.get('k') == 'match'):
            for a in m['arms']:
                vp = variant_pair(a['pat'])
                if vp in TYPING_STRUCTS:
                    fields = {x['member'] for x, _ in find_nodes(a['body'], lambda y: y.get('k') == 'field')}
                    want = set(TYPING_FIELDS.get(vp, set()))
                    for sid in TYPING_STRUCTS[vp]:
                        adt = ctx.mir.adts.get(sid)
                        if adt is None:
                            r3.fail('anchor/%s' % sid, XT, 'payload struct %s not found in the MIR facts' % sid)
                            continue
                        for v in adt['variants']:
                            for f in v['fields']:
                                if (vp, f['name']) in NON_TYPING:
                                    r3.exempted('%s/%s.%s' % ('-'.join(vp), sid.split('::')[-1], f['name']), NON_TYPING[(vp, f['name'])])
                                else:
                                    want.add(f['name'])
                    missing = want - fields
                    if vp == ('Compound', 'Compound'):
                        # kind, spec identity and binding
                        # on the MIR of the equality: which payloads are compared, by the type of the compared operands.  The
                        # declaration itself (the spec) must be compared, as bind_in_assignment does: two declarations of the same
                        # name -- a local struct shadowing an outer one -- are different types
                        missing = set()
                        eqb = [x for x in ctx.mir.bodies if x.nid == '<xtype::XType as std::cmp::PartialEq>::eq']
                        compared = set()
                        for x in eqb:
                            for cbb, ct in x.calls():
                                cn = ct.get('callee') or ct.get('decl') or ''
                                if 'PartialEq' in cn and cn.endswith(('::eq', '::ne')):
                                    for ty in ct.get('argtys') or []:
                                        base = ty.replace('&', '').strip()
                                        compared.add(base)
                        if not any(c.startswith('xtype::CompoundKind') for c in compared):
                            missing.add('kind')
                        if not any(c.startswith('std::sync::Arc<xtype::XCompoundSpec>') or c.startswith('xtype::XCompoundSpec') for c in compared):
                            missing.add('declaration')
                        if not any(c.startswith('xtype::Bind') for c in compared):
                            missing.add('bind')
                    r3.inst({'arm': vp, 'fields_read': sorted(fields)[:8], 'missing': sorted(missing)}, ok=not missing, kind=vp)
                    if missing:
                        r3.fail('eq/%s-%s/%s' % (vp[0], vp[1], ','.join(sorted(missing))), '%s:%d' % (XT, a['line']), 'type equality for %s/%s ignores %s: unequal types compare equal (heterogeneous values accepted as one type)' % (vp[0], vp[1], sorted(missing)))
    r3.need(3)

    # ---------------- R04.4 sibling case coverage
    r4 = ctx.rule('R04.4', 'case tables of bind_in_assignment / common_type / eq agree (divergences listed)')
    tables = {}
    for rel, owner in (('bind_in_assignment', 'XType'), ('common_type', 'XType'), ('eq', 'XType')):
        cands = [fn for f, fn, im in astq.all_fns(ast) if f == XT and fn['name'] == rel and im is not None and 'XType' in im.get('self_ty', '')]
        if not cands:
            r4.fail('anchor/%s' % rel, XT, 'relation %s not found' % rel)
            continue
        pairs = set()
        for m, ps in find_nodes(cands[0]['body'], lambda y: y.get('k') == 'match'):
            for a in m['arms']:
                vp = variant_pair(a['pat'])
                if vp and vp != ('_', '_'):
                    bs = flat_src(a['body'])
                    if bs in ('None', 'false'):
                        continue
                    pairs.add(vp)
        tables[rel] = pairs
    if len(tables) == 3:
        for vp in STRUCTURAL:
            for rel in tables:
                ok = vp in tables[rel]
                r4.inst({'relation': rel, 'structural_pair': vp}, ok=ok, kind=(rel, vp))
                if not ok:
                    r4.fail('%s/%s-%s/missing' % (rel, vp[0], vp[1]), XT, 'relation %s has no case for %s/%s although its siblings do' % (rel, vp[0], vp[1]))
        allp = set().union(*tables.values())
        for vp in sorted(allp - set(STRUCTURAL)):
            for rel in sorted(tables):
                if vp in tables[rel]:
                    ok = (rel, vp) in PAIR_TABLE_REASONS
                    r4.inst({'relation': rel, 'pair': vp, 'listed': ok}, ok=ok, kind=(rel, vp))
                    if not ok:
                        r4.fail('%s/%s-%s/unlisted' % (rel, vp[0], vp[1]), XT, 'relation %s decides the pair %s/%s which is not in the confirmed case table' % (rel, vp[0], vp[1]))
        # a pair accepted by bind_in_assignment for function-like types must exist in eq as well (and vice versa)
        for vp in (('XFunc', 'XFunc'), ('XCallable', 'XCallable'), ('XCallable', 'XFunc')):
            ok = (vp in tables['bind_in_assignment']) == (vp in tables['eq'])
            r4.inst({'function_pair_in_both_bind_and_eq': vp}, ok=ok)
            if not ok:
                r4.fail('siblings/%s-%s' % vp, XT, 'pair %s/%s is decided by one of bind_in_assignment/eq only' % vp)
    r4.need(20)

    # ---------------- R04.6 consistent binding of generic parameters: re-binding goes through common_type
    bind_merge(ctx, ctx.rule('R04.6', 'a generic parameter that is already bound is re-bound only to common_type(existing, new)'))

    # ---------------- R04.7 traversals of a type reach every type-bearing variant
    type_traversals(ctx, ctx.rule('R04.7', 'type traversals (resolve_bind, is_unknown) handle every XType variant that contains types'))


# XType variants that contain types but need no arm in a traversal: (function, variant) -> reason
TRAVERSAL_OK = {
    ('resolve_bind', 'XFunc'): 'the type of a function value is closed: its generic parameters are its own (generic_params) and a lambda that mentions outer parameters only leaves its function through a declared XCallable type, which is resolved',
    ('is_unknown', 'XGeneric'): 'a generic parameter is not the unknown type',
}


def zip_guards(ctx, r2, r5):
    """R04.2 / R04.5 on the MIR (rules/lib/zips.py): for every Iterator::zip in the type relations, call typing and the type
    parser, what the two sides iterate is identified (result of which function / which field path), a dominating branch
    computed from a length of *both* collections is looked for (Vec::len, count, arg_len_range of the spec owning the
    parameter list), and the two sides must run in the same direction."""
    from .lib import zips, mirq
    mir = ctx.mir
    n = 0
    for b in mir.bodies:
        if b.file not in (XT, CSF) and not (b.file == 'src/parser.rs' and ('get_complete_type' in b.nid or 'parse_expr' in b.nid)):
            continue
        fn = b.nid.split('::{closure')[0].split('::')[-1]
        for bb, tm, A, B in zips.zips_of(b):
            if 'range' in (A[0], B[0]):
                continue   # a counting range never truncates its partner
            n += 1
            guarded = zips.length_tested(b, bb, A[2], B[2])
            key = (fn, A[0], B[0])
            listed = key in ZIP_OK or (fn, B[0], A[0]) in ZIP_OK
            ok = guarded or listed
            r2.inst({'fn': fn, 'site': mirq.site(b, bb), 'left': A[0], 'right': B[0], 'length_test': guarded, 'listed': listed}, ok=ok, kind=(b.nid, bb))
            if listed and not guarded:
                r2.exempted('%s: zip(%s, %s)' % key, ZIP_OK.get(key) or ZIP_OK.get((fn, B[0], A[0])))
            if not ok:
                r2.fail('%s/zip/%s~%s' % (fn, A[0], B[0]), mirq.site(b, bb), 'zip of `%s` and `%s` without a dominating length test on both: a shorter list silently truncates the comparison (mismatched arities are accepted)' % (A[0], B[0]))
            same_dir = A[1] == B[1]
            r5.inst({'fn': fn, 'site': mirq.site(b, bb), 'left_reversed': A[1], 'right_reversed': B[1]}, ok=same_dir, kind=(b.nid, bb))
            if not same_dir:
                r5.fail('%s/zip-direction' % fn, mirq.site(b, bb), 'one side of this zip is reversed and the other is not: components are paired with the wrong partners (e.g. generic arguments swapped)')
    r2.need(15)
    r5.need(10)


def type_traversals(ctx, r7):
    """resolve_bind and is_unknown recurse over the structure of a type: every variant of XType whose payload mentions a
    type (Arc<XType>, Vec<Arc<XType>>, Bind, a spec struct holding types) must have an explicit arm, or be listed."""
    mir = ctx.mir
    adt = mir.adts.get('xtype::XType')
    if adt is None:
        r7.fail('anchor/XType', XT, 'enum XType not found in the MIR facts')
        return
    bearing = []
    for v in adt['variants']:
        tys = ' '.join(f['ty'] for f in v['fields'])
        if re.search(r'xtype::XType|xtype::Bind|xtype::XFuncSpec|xtype::XCallableSpec|Identifier|string_interner', tys) and v['name'] not in ('XUnknown',):
            if re.search(r'xtype::XType|xtype::Bind|xtype::XFuncSpec|xtype::XCallableSpec', tys) or v['name'] == 'XGeneric':
                bearing.append(v['name'])
    fns = {fn['name']: fn for f, fn, im in astq.all_fns(ctx.ast) if f == XT and im is not None and 'XType' in im.get('self_ty', '')}
    for fname in ('resolve_bind', 'is_unknown'):
        fn = fns.get(fname)
        if fn is None:
            r7.fail('anchor/%s' % fname, XT, '%s not found' % fname)
            continue
        handled = set()
        for m, ps in find_nodes(fn['body'], lambda y: y.get('k') == 'match'):
            for a in m['arms']:
                for name in re.findall(r'(?:Self|XType)\s*::\s*(\w+)', a['pat'].get('s') or ''):
                    handled.add(name)
        for v in bearing:
            listed = TRAVERSAL_OK.get((fname, v))
            ok = v in handled or listed is not None
            r7.inst({'traversal': fname, 'variant': v, 'has_arm': v in handled, 'listed': listed is not None}, ok=ok, kind=(fname, v))
            if listed is not None and v not in handled:
                r7.exempted('%s / %s' % (fname, v), listed)
            if not ok:
                r7.fail('%s/%s/no-arm' % (fname, v), '%s:%d' % (XT, fn['line']), '%s has no arm for XType::%s, whose payload contains types: they fall through the default arm unchanged (unresolved generic parameters / unnoticed unknowns in inferred types)' % (fname, v))
    r7.need(10)


def bind_merge(ctx, r6):
    """Every HashMap::insert into a `bound_generics` map that happens on the *found* side of a lookup of the same map must
    insert a value whose every origin is the success payload of XType::common_type.  (A value taken from anywhere else --
    the new binding itself, the old one, a clone -- replaces a binding without unifying it: `generic parameters bound
    consistently over all arguments` fails for the calls that reach that path.)"""
    from .lib import mirq
    from .lib.facts import strip_generics, callee_name, op_place, op_local
    mir = ctx.mir

    def map_base(b, op):
        """the place `X.bound_generics` a map reference operand points to, as a hashable key"""
        l = op_local(op)
        if l is None:
            return None
        k, v = mirq.chase(b, l)
        if k == 'rv' and v[2]['rv']['k'] == 'ref':
            pl = v[2]['rv']['place']
            names = [e.get('n') for e in pl['p'] if isinstance(e, dict)]
            if 'bound_generics' in names:
                return (pl['l'], tuple(e if e == '*' else (e.get('n') or e.get('f')) for e in pl['p']))
        return None

    n_sites = 0
    for b in mir.bodies:
        inserts = [(bb, t) for bb, t in b.calls() if strip_generics(callee_name(t) or '').endswith('HashMap::insert') and t['args'] and map_base(b, t['args'][0])]
        if not inserts:
            continue
        lookups = []   # (switch block, found-target, base)
        for bb, t in b.calls():
            nm = strip_generics(callee_name(t) or '')
            if nm.endswith(('HashMap::get', 'HashMap::get_mut', 'HashMap::contains_key', 'HashMap::remove', 'HashMap::get_key_value')) and t['args']:
                base = map_base(b, t['args'][0])
                if base is None or t.get('target') is None:
                    continue
                dest = t['dest']['l']
                # the switch on the lookup result
                for sb in range(len(b.blocks)):
                    tm = b.term(sb)
                    if tm['k'] != 'switch':
                        continue
                    dl = op_local(tm['discr'])
                    if dl is None:
                        continue
                    found = None
                    for kind, dbb, idx, x in b.defs().get(dl, []):
                        if kind == 'stmt' and x['rv']['k'] == 'discr' and x['rv']['place']['l'] == dest:
                            # Option: 1 = Some ; bool (contains_key) handled below
                            tg = dict((int(v), x2) for v, x2 in tm['targets'])
                            found = tg.get(1, tm['otherwise'] if 0 in tg else None)
                    if dl == dest and b.local_ty(dest) == 'bool':
                        tg = dict((int(v), x2) for v, x2 in tm['targets'])
                        found = tm['otherwise'] if 0 in tg else tg.get(1)
                    if found is not None:
                        lookups.append((sb, found, base))
        for bb, t in inserts:
            base = map_base(b, t['args'][0])
            same = [(sb, found) for sb, found, bs in lookups if bs[1] == base[1] and mirq.dominates(b, sb, bb)]
            if not same:
                r6.inst({'body': b.nid, 'site': mirq.site(b, bb), 'after_lookup': False}, ok=True, kind=(b.nid, 'fresh'))
                continue
            val = op_local(t['args'][2]) if len(t['args']) > 2 else None
            aliases, origins = mirq.move_origins(b, val) if val is not None else (set(), [])
            # the insert itself on the found side: every origin counts; otherwise only the origins computed on the found side
            insert_on_found = any(mirq.dominates(b, found, bb) and found != sb for sb, found in same)
            bad = []
            n_found_origins = 0
            for obb, idx, kind, payload in origins:
                on_found = insert_on_found or any(mirq.dominates(b, found, obb) and found != sb for sb, found in same)
                if not on_found:
                    continue
                n_found_origins += 1
                ok = False
                if kind == 'proj':
                    # (x as Continue).0 / (x as Some).0 where x = Try::branch(common_type(..)) or common_type(..)
                    k2, v2 = mirq.chase(b, payload['l'])
                    if k2 == 'call':
                        nm = strip_generics(callee_name(v2[1]) or '')
                        if nm.endswith('Try>::branch') or nm.endswith('::branch'):
                            inner = op_local(v2[1]['args'][0])
                            k3, v3 = mirq.chase(b, inner) if inner is not None else (None, None)
                            ok = k3 == 'call' and strip_generics(callee_name(v3[1]) or '') == 'xtype::XType::common_type'
                        elif nm == 'xtype::XType::common_type':
                            ok = True
                if not ok:
                    bad.append((obb, idx, kind))
            if n_found_origins == 0 and not insert_on_found:
                # a lookup precedes the insert but no value is computed on its found side: the found case must then not reach
                # the insert at all (e.g. it returns); if it does, the old binding is overwritten blindly
                reaches = any(bb in b.reachable(found, avoid={sb}) for sb, found in same)   # within the same lookup (not around a loop)
                if reaches:
                    bad.append((bb, None, 'value computed before the lookup'))
                else:
                    r6.inst({'body': b.nid, 'site': mirq.site(b, bb), 'after_lookup': True, 'found_side_reaches_insert': False}, ok=True, kind=(b.nid, 'notfound-only'))
                    continue
            n_sites += 1
            r6.inst({'body': b.nid, 'site': mirq.site(b, bb), 'after_lookup': True, 'origins_on_found_side': n_found_origins, 'all_from_common_type': not bad}, ok=not bad, kind=(b.nid, 'rebind'))
            if bad:
                obb, idx, kind = bad[0]
                r6.fail('%s/rebind-without-common_type' % b.nid, mirq.site(b, obb, idx) if idx is not None else mirq.site(b, obb),
                        'an already-bound generic parameter is overwritten with a value that does not come from common_type(existing, new) (%s origin): the two bindings are not unified, so incompatible arguments can bind one parameter' % kind)
    if n_sites < 1:
        r6.fail('anchor/rebind-site', 'src/xtype.rs', 'no re-binding site (insert after a successful lookup of bound_generics) found: Bind::mix not recognised')
    r6.need(3)



def declared_type_table(ctx, r1):
    """R04.1 as a decision table (abstract evaluation on the MIR): wherever the parser checks a value against a declared type
    with bind_in_assignment and can answer with a *TypeMismatch error, the continuation is evaluated for the three possible
    results -- no binding, a binding that is empty, a binding that still binds a generic -- and must reject, accept, reject."""
    from .lib import absint, mirq
    from .lib.facts import strip_generics, callee_name
    mir = ctx.mir
    n = 0
    for b in mir.bodies:
        if b.file != 'src/parser.rs':
            continue
        errs = {i for i, j, s in b.stmts() if s['k'] == 'assign' and s['rv']['k'] == 'agg' and (s['rv'].get('adt') or '').endswith('CompilationError')
                and s['rv'].get('v') in ('VariableTypeMismatch', 'FunctionOutputTypeMismatch')}
        if not errs:
            continue
        for bb, tm in b.calls():
            if not strip_generics(callee_name(tm) or '').endswith('XType::bind_in_assignment') or tm.get('target') is None:
                continue
            # only sites whose continuation can construct one of the mismatch errors
            if not (b.reachable(tm['target']) & errs):
                continue
            n += 1
            outcomes = {}
            for scen, val, empty in (('no binding', 'none', None), ('empty binding', ('some', ('adt', 'Bind', 'B')), True), ('binding of a generic', ('some', ('adt', 'Bind', 'B')), False)):
                def oracle(t2, vals, env, empty=empty):
                    nm = strip_generics(callee_name(t2) or '')
                    if nm.endswith('Bind::is_empty'):
                        return empty if empty is not None else absint.UNKNOWN
                    return absint.UNKNOWN

                def event(kind, ebb, idx, node, env, R):
                    if kind == 'stmt' and ebb in errs and node['k'] == 'assign' and node['rv']['k'] == 'agg' and node['rv'].get('v') in ('VariableTypeMismatch', 'FunctionOutputTypeMismatch'):
                        return 'reject'
                    if kind == 'term' and node['k'] == 'call':
                        nm = strip_generics(callee_name(node) or '')
                        if re.search(r'CompilationScope::(into_static_ud|add_variable|add_static_func|add_func)$', nm):
                            return 'accept'
                    # a helper that answers for the declaration: handing the compiled expression back (Ok) accepts it
                    if kind == 'term' and node['k'] == 'return':
                        v = R.get(env, {'l': 0, 'p': []})
                        if isinstance(v, tuple) and v and v[0] == 'ok':
                            return 'accept'
                    return None
                rs = _returns_events(absint, mir, b, tm, val, oracle, event)
                outcomes[scen] = rs
            want = {'no binding': {'reject'}, 'empty binding': {'accept'}, 'binding of a generic': {'reject'}}
            ok = all(outcomes[k] == want[k] for k in want)
            r1.inst({'site': mirq.site(b, bb), 'outcomes': {k: sorted(v) for k, v in outcomes.items()}}, ok=ok, kind=(b.nid, n))
            if not ok:
                bad = [k for k in want if outcomes[k] != want[k]]
                r1.fail('feed/declared-type-%d' % n, mirq.site(b, bb), 'a value checked against a declared type: with %s the declaration is %s (expected %s): a generic left to be bound by the value is not rejected, or a fitting value is'
                        % (bad[0], '/'.join(sorted(outcomes[bad[0]])) or 'neither accepted nor rejected', '/'.join(want[bad[0]])))
    if n < 2:
        r1.fail('anchor/declared-sites', 'src/parser.rs', 'expected the declared-type checks (let, function output, parameter default)')
    r1.need(2)


def _returns_events(absint, mir, b, call_term, result_value, call_oracle, event_of):
    """run the continuation of one call with a chosen abstract result; closures handed to Option adaptors and small local helpers
    are evaluated by absint's own oracle (borrowed from absint.returns through a one-off Region)"""
    events = set()

    def ev(kind, bb, idx, node, env, R):
        e = event_of(kind, bb, idx, node, env, R)
        if e is not None:
            events.add(e)
        return e
    R = absint.region_with_std_oracle(mir, b, call_oracle, ev)
    absint.CURRENT.append(R)
    try:
        env = R.assign({}, call_term['dest'], result_value)
        R.run(call_term['target'], env)
    finally:
        absint.CURRENT.pop()
    return events


def generic_match_recorded(ctx, r8):
    """R04.8 (abstract evaluation of XType::bind_in_assignment on a parameter type that is a generic variable): whatever the
    argument type is -- another type, another generic, or a generic *of the same name* (the caller's own type parameter) -- the
    result records the match (a binding for that variable), so that a second, different match of the same variable conflicts."""
    from .lib import absint, mirq
    from .lib.facts import strip_generics, callee_name
    mir = ctx.mir
    bs = mir.find('xtype::XType::bind_in_assignment')
    adt = mir.adts.get('xtype::XType')
    if len(bs) != 1 or not adt:
        r8.fail('anchor/bind_in_assignment', 'src/xtype.rs', 'XType::bind_in_assignment not found')
        r8.need(3)
        return
    b = bs[0]
    vidx = {v['name']: i for i, v in enumerate(adt['variants'])}
    other_kind = next(v['name'] for v in adt['variants'] if v['name'] not in ('XGeneric', 'XUnknown') and not v['fields'])
    scenarios = [('a generic of the same name', ('enum', vidx['XGeneric'], 'XGeneric', ('N',))),
                 ('a generic of another name', ('enum', vidx['XGeneric'], 'XGeneric', ('M',))),
                 ('a concrete type', ('enum', vidx[other_kind], other_kind, ()))]
    for label, other in scenarios:
        def oracle(tm, vals, env):
            nm = strip_generics(callee_name(tm) or '')
            if nm.endswith('AsRef>::as_ref') or nm.endswith('::as_ref') or nm.endswith('Deref>::deref'):
                v0 = absint.deref(None, env, vals[0]) if vals else absint.UNKNOWN
                if isinstance(v0, tuple) and v0 and v0[0] == 'arc':
                    return ('ref', v0[1])
                return absint.UNKNOWN
            if 'PartialEq' in nm and nm.endswith(('::eq', '::ne')):
                ds = [absint.deref(None, env, absint.deref(None, env, absint.deref(None, env, v))) for v in vals]
                if len(ds) == 2 and all(d in ('N', 'M') for d in ds):
                    return (ds[0] == ds[1]) == nm.endswith('eq')
                # equality of the two abstract types themselves (an `identical types` fast path): decided on the abstract values
                if len(ds) == 2 and all(isinstance(d, tuple) and d and d[0] == 'enum' for d in ds):
                    return (ds[0][2] == ds[1][2] and ds[0][3] == ds[1][3]) == nm.endswith('eq')
                return absint.UNKNOWN
            if nm == 'xtype::Bind::new':
                return ('adt', 'Bind', 'empty')
            if nm == 'xtype::Bind::from' or nm.endswith('Bind::from'):
                return ('adt', 'Bind', 'recorded')
            return absint.UNKNOWN
        env0 = {'_1': ('ref', '#self'), '#self': ('enum', vidx['XGeneric'], 'XGeneric', ('N',)),
                '_2': ('ref', '#otherarc'), '#otherarc': ('arc', '#other'), '#other': other}
        rs = absint.returns(mir, b, env0, oracle)
        kinds = set()
        for r in rs:
            if isinstance(r, tuple) and r and r[0] == 'some' and isinstance(r[1], tuple) and len(r[1]) > 2 and r[1][1] == 'Bind':
                kinds.add(r[1][2])
            elif r == 'none':
                kinds.add('no match')
            else:
                kinds.add('unrecognised')
        ok = kinds == {'recorded'}
        r8.inst({'parameter_type': 'a generic variable', 'argument_type': label, 'result': sorted(kinds)}, ok=ok, kind=label)
        if not ok:
            key = {'a generic of the same name': 'same-name-generic-unrecorded'}.get(label, label.replace(' ', '-'))
            r8.fail('bind_in_assignment/%s' % key, mirq.site(b, 0), 'a parameter type that is a generic variable, matched against %s, gives %s instead of a recorded binding: a second, conflicting match of the same variable (f<T>(a: Sequence<T>, b: T) called as f(x: Sequence<T>, 3) inside g<T>) is then accepted' % (label, sorted(kinds)))
    r8.need(3)


def compiled_expressions_typed(ctx):
    """R04.9: every expression the parser compiles on behalf of a declaration (the value of a let, the body of a function or lambda,
    the default of a parameter) has its type taken in the body that compiled it -- `type_of` receives the compiled expression.  A
    compiled expression that leaves its body without a type_of can never have been compared with a declared type."""
    from .lib import mirq
    from .lib.facts import strip_generics, callee_name, op_place
    mir = ctx.mir
    r9 = ctx.rule('R04.9', 'every expression compiled by the parser has its type taken where it is compiled')
    for b in mir.bodies:
        if b.file != 'src/parser.rs':
            continue
        for bb, t in b.calls():
            if not strip_generics(callee_name(t) or '').endswith('CompilationScope::compile') or t['dest']['p']:
                continue
            cons = mirq.consumers(mir, b, t['dest']['l'])
            # through `.map_err(..)?` as well
            seen, todo = set(), [t['dest']['l']]
            names = set(cons)
            while todo:
                l = todo.pop()
                if l in seen:
                    continue
                seen.add(l)
                for cbb, ct in b.calls():
                    if any(op_place(a) is not None and op_place(a)['l'] == l for a in ct['args']):
                        nm = strip_generics(callee_name(ct) or '')
                        names.add(nm)
                        if nm.endswith(('::map_err', '::branch', '::from_residual', '::unwrap', '::expect')) and not ct['dest']['p']:
                            todo.append(ct['dest']['l'])
                            names |= mirq.consumers(mir, b, ct['dest']['l'])
                for i, j, s in b.stmts():
                    if s['k'] == 'assign' and not s['place']['p']:
                        rv = s['rv']
                        srcs = [op_place(rv[k]) for k in ('op', 'a', 'b') if isinstance(rv.get(k), dict)] + ([rv['place']] if 'place' in rv else [])
                        if any(p is not None and p['l'] == l for p in srcs):
                            todo.append(s['place']['l'])
            typed = any(n.endswith('::type_of') for n in names)
            fn = strip_generics(mir.enclosing_fn(b)) if b.kind == 'closure' else b.nid
            fn = fn.split('::')[-1]
            r9.inst({'fn': fn, 'compile_at': mirq.site(b, bb), 'type_taken_in_the_same_body': typed}, ok=typed, kind=(b.nid, bb))
            if not typed:
                r9.fail('%s/compiled-expression-untyped' % fn, mirq.site(b, bb), 'the compiled expression leaves this body without type_of: it is never compared with a declared type (a parameter default of another type than its parameter is accepted: fn f(x: int ?= "a") -> int { x + 1 } compiles and f() crashes the interpreter)')
    r9.need(3)


def optional_range_consulted(ctx):
    """R04.10: a function type's parameter list carries optional parameters; how many arguments it accepts is the *range*
    arg_len_range() gives (required .. all), not the length of the list.  Wherever a relation pairs the parameters of a function
    type with another list (zip), a dominating branch is computed from arg_len_range of that function type -- for both sides when
    both are function types.  Comparing only `params.len()` forgets which parameters are optional."""
    from .lib import zips, mirq
    from .lib.facts import strip_generics, callee_name, op_place
    mir = ctx.mir
    r10 = ctx.rule('R04.10', 'the arity test in front of a zip over a function type\'s parameters consults its optional-parameter range')
    for b in mir.bodies:
        if b.file != XT:
            continue
        fn = b.nid.split('::{closure')[0].split('::')[-1]
        if fn == 'eq':
            continue      # equality pairs the `required` flags pointwise inside the zip (R04.3 decides that it reads them)
        for bb, tm, A, B in zips.zips_of(b):
            for side in (A, B):
                ident = side[2]
                if ident[0] != 'field' or not ident[1].endswith('XFunc.0.params'):
                    continue
                spec = ident[1][:-len('.params')]
                seen = False
                for d in sorted(b.dominators().get(bb, ())):
                    t2 = b.term(d)
                    if t2['k'] != 'switch' or d == bb:
                        continue
                    p = op_place(t2['discr'])
                    if p is None:
                        continue
                    sl = mirq.backslice(b, [p['l']])
                    for cbb, ct in b.calls():
                        if ct['dest']['p'] or ct['dest']['l'] not in sl:
                            continue
                        if strip_generics(callee_name(ct) or '') != 'xtype::XFuncSpec::arg_len_range' or not ct['args']:
                            continue
                        q = op_place(ct['args'][0])
                        if q is None:
                            continue
                        k2, d2, r2_, root2 = zips.origin(b, q['l'])
                        pth = zips.place_path(b, q)
                        base = d2 if k2 == 'field' else ('arg%s' % d2 if k2 == 'param' else None)
                        if base is None:
                            continue
                        full = base + ('.' + '.'.join(pth) if pth else '')
                        if full == spec:
                            seen = True
                r10.inst({'fn': fn, 'zip': mirq.site(b, bb), 'function_type': spec, 'range_consulted': seen}, ok=seen, kind=(b.nid, bb, spec))
                if not seen:
                    r10.fail('%s/zip/%s/optional-range-ignored' % (fn, spec), mirq.site(b, bb), 'the parameters of the function type `%s` are paired after an arity test that does not consult its arg_len_range(): optional parameters count as required (or the reverse), e.g. a field of type (int, int?)->int accepts (int, int)->int, which is then called with one argument' % spec)
    r10.need(2)


def match_unresolved_parameter(ctx):
    """R04.11: a spec's bind matches the arguments one by one and combines what they say about a generic parameter with Bind::mix
    (which takes the common type: an empty container next to a full one gives the full one's type).  That only works if each
    parameter type is matched *as declared*: resolving it first with the binding accumulated so far turns `T` into what the earlier
    arguments said (`Sequence<?>` for `[]`), and the later argument is then merely checked against that -- anything fits an unknown.
    In every `*Spec::bind`, the receiver of bind_in_assignment does not come from a resolve_bind fed with the accumulator of mix."""
    from .lib import mirq, guards
    from .lib.facts import strip_generics, callee_name, op_place
    mir = ctx.mir
    r11 = ctx.rule('R04.11', 'spec binding matches parameter types as declared, not resolved with the accumulating binding')
    for b in mir.bodies:
        if b.file != XT or not re.search(r'xtype::X\w+Spec::bind$', b.nid):
            continue
        # the accumulator: the local(s) that receive the result of mix (through `?`) and are handed to the next mix
        acc = set()
        for bb, t in b.calls():
            if strip_generics(callee_name(t) or '').endswith('Bind::mix') and t['args']:
                p = op_place(t['args'][0])
                if p is not None:
                    acc.add(guards.root_local(b, p['l']))

        def roots(l):
            out, seen, todo = set(), set(), [l]
            while todo:
                x = todo.pop()
                if x in seen:
                    continue
                seen.add(x)
                r = guards.root_local(b, x)
                out.add(r)
                for kind, dbb, idx, d in b.defs().get(r, []):
                    if kind == 'stmt' and d['rv']['k'] == 'ref':
                        todo.append(d['rv']['place']['l'])
            return out
        for bb, t in b.calls():
            if not strip_generics(callee_name(t) or '').endswith('XType::bind_in_assignment') or not t['args']:
                continue
            p = op_place(t['args'][0])
            sl = mirq.backslice(b, [p['l']]) if p is not None else set()
            bad = None
            for cbb, ct in b.calls():
                if strip_generics(callee_name(ct) or '').endswith('XType::resolve_bind') and not ct['dest']['p'] and ct['dest']['l'] in sl and len(ct['args']) > 1:
                    q = op_place(ct['args'][1])
                    if q is not None and roots(q['l']) & acc:
                        bad = cbb
            fn = b.nid.split('::')[-2] + '::bind'
            r11.inst({'fn': fn, 'match_at': mirq.site(b, bb), 'parameter_type_resolved_with_the_accumulator': bad is not None}, ok=bad is None, kind=(b.nid, bb))
            if bad is not None:
                r11.fail('%s/parameter-resolved-with-accumulator' % fn, mirq.site(b, bad), 'the parameter type is resolved with the binding accumulated from the earlier arguments before it is matched: a generic already bound to the type of an empty container accepts any later argument (struct P<T>(a: T, b: T) let p = P([], [1]); let x: Sequence<str> = p::b; is accepted and x[0] + "a" crashes the interpreter)')
    r11.need(2)
