"""C14 — integers are exact at every magnitude.  Representation invariant and operator discipline of LazyBigint
(src/util/lazy_bigint.rs), decided on the syntax tree for every constructor site / arm / operator:
  R14.1  canonical form: Long(e) is built only where e provably does not fit the small form
  R14.2  no raw overflow-capable machine arithmetic on the small form (/, div_floor, div_ceil, unary -, abs, %) unless
         earlier arms exclude the overflowing operands
  R14.3  operator-trait agreement: an impl of Op / OpAssign applies only Op to its operands
  R14.4  documented rounding: `mod` is floored (book), so Rem may not be the bare truncating %
  R14.6  name <-> operator tables of the int builtins (lt/gt/le/ge/eq/ne, bit_*, add/sub/mul)
  R14.7  swapped or-patterns only in commutative operators
  R14.8  no saturating float -> integer `as` cast yields a program integer (only allocation estimates)
  R14.9  integer functions of the stdlib written in the language do not round a float quotient
  R14.10 abs of the machine word only where i64::MIN is excluded
"""
import os
import re
from .lib import astq, mirq
from .lib.facts import walk, find_nodes, strip_generics, op_local, op_place

FILE = 'src/util/lazy_bigint.rs'
CHECKED = {'checked_add': '+', 'checked_sub': '-', 'checked_mul': '*', 'checked_pow': 'pow'}
TRAIT_OP = {'Add': '+', 'Sub': '-', 'Mul': '*', 'Div': '/', 'Rem': '%', 'BitAnd': '&', 'BitOr': '|', 'BitXor': '^',
            'AddAssign': '+', 'MulAssign': '*', 'SubAssign': '-', 'Pow': 'pow', 'Neg': 'neg'}
COMMUTATIVE = {'Add', 'Mul', 'BitAnd', 'BitOr', 'BitXor'}
ARITH_OPS = {'+', '-', '*', '/', '%', '&', '|', '^', '+=', '-=', '*=', '/=', '%=', '&=', '|=', '^=', '<<', '>>'}
# Long(assert_is_long(e)) sites accepted with their reason
ASSERT_OK = {
    ('Mul', '(LazyBigint::Long(b0), LazyBigint::Long(b1))'): 'product of two values of magnitude >= 2^63 has magnitude >= 2^126',
    ('Signed', 'Self::Long(a)'): '|x| of a value outside the small range is outside it, except -2^63 whose Long form is never canonical (R14.1 induction)',
    ('Neg', 'Self::Short(SmallInt::MIN)'): '-(-2^63) = 2^63 does not fit',
    ('FromPrimitive', 'None'): 'SmallInt::from_f64 returned None: the integral float is outside the small range',
}


def trait_name(im):
    t = im.get('trait') or ''
    return re.sub(r'<.*', '', t).strip().split('::')[-1].strip()


def is_long_ctor(n):
    return n.get('k') == 'call' and n['func'].get('k') == 'path' and re.search(r'(^|::)(Self|LazyBigint)::Long$', n['func']['path'])


def is_short_ctor(n):
    return n.get('k') == 'call' and n['func'].get('k') == 'path' and re.search(r'(^|::)(Self|LazyBigint)::Short$', n['func']['path'])


def pat_str(p):
    t = re.sub(r'\s+', '', p.get('s', ''))
    return t.replace(',', ', ').replace('|', ' | ')


# integer-valued library functions (written in the language) that round a float quotient, accepted with a reason
FLOAT_ROUND_TRIP_OK = {
    'helper': 'bisect: the quotient is len/2 of a sequence length (a usize that fits memory), far below 2^53',
    'julian_day': 'calendar arithmetic on month / day fields and a year offset: exact for |year| < 2^51; dates are outside the integer clauses of the property',
}


def small_form_arith(ctx, r2, need=4):
    """R14.2 (also reported as R01.8: an overflow here is a panic of an accepted program): raw machine arithmetic that can
    overflow on the small form must be excluded by an earlier arm of the same match"""
    items = ctx.ast['files'].get(FILE)
    if not items:
        r2.fail('anchor/file', FILE, 'lazy_bigint.rs not parsed')
        return
    impls = [it for it in items if it.get('k') == 'impl']

    def fns_of(im):
        return [f for f in im['items'] if f.get('k') == 'fn']
    RISKY_BIN = {'/': ('-1',), '%': ('-1',)}
    for im in impls:
        tn = trait_name(im) or 'inherent'
        for fn in fns_of(im):
            for m, ps in find_nodes(fn['body'], lambda y: y.get('k') == 'match'):
                earlier = []
                for a in m['arms']:
                    ap = pat_str(a['pat'])
                    for n, ps2 in find_nodes(a['body'], is_short_ctor):
                        arg = n['args'][0]
                        risk = None
                        if arg.get('k') == 'binary' and arg['op'] in RISKY_BIN:
                            risk = arg['op']
                        elif arg.get('k') == 'call' and arg['func'].get('k') == 'path' and arg['func']['path'] in ('div_floor', 'div_ceil'):
                            risk = arg['func']['path']
                        elif arg.get('k') == 'unary' and arg['op'] == '-':
                            risk = 'neg'
                        elif arg.get('k') == 'mcall' and arg['method'] == 'abs':
                            risk = 'abs'
                        elif arg.get('k') == 'mcall' and arg['method'] in ('mod_floor', 'div_floor', 'div_ceil', 'rem_euclid', 'div_euclid', 'div_rem', 'div_mod_floor'):
                            # num_integer / core division-family methods on i64 compute `self % other` or `self / other` inside:
                            # (i64::MIN, -1) overflows there exactly as with the bare operator
                            risk = arg['method']
                        if risk is None:
                            continue
                        if risk in ('neg', 'abs'):
                            guarded = any('SmallInt::MIN' in e or 'i64::MIN' in e for e in earlier)
                        else:
                            # (MIN, -1) must be excluded: an earlier arm matching a right operand of -1, or the MIN left operand
                            guarded = any(re.search(r'Short\(-1( \| 1)?\)|Short\(1 \| -1\)|SmallInt::MIN|i64::MIN', e) for e in earlier)
                        r2.inst({'impl': tn, 'fn': fn['name'], 'arm': ap, 'op': risk, 'guarded_by_earlier_arm': guarded}, ok=guarded, kind=(tn, fn['name'], ap, risk))
                        if not guarded:
                            r2.fail('%s::%s/%s' % (tn, fn['name'], risk), '%s:%d' % (FILE, n['line']), 'Short(%s ..) on raw i64 operands: (i64::MIN, -1) / i64::MIN overflows (panic in debug, wrong value in release)' % risk)
                    earlier.append(ap)
    r2.need(need)



def run(ctx):
    ast = ctx.ast
    ctx.explanation = ('Syntax-tree rules over every constructor site, match arm and operator application of LazyBigint and over the int builtin '
                       'registrations: canonical-form discipline, guarded machine arithmetic, operator-trait agreement, documented rounding, table agreement.')
    ctx.trusted = ['syn parse of the raw sources', 'num-bigint / i64 checked_* semantics', 'the book (book/src/std/int.md) for the rounding mode of mod']
    ctx.assumptions = ['exactness of gcd/lcm/factorial/roots (xray stdlib text) and of binom/multinom loop arithmetic is NOT decided']
    items = ast['files'].get(FILE)
    r1 = ctx.rule('R14.1', 'Long(e) constructed only where e cannot fit the small form')
    if not items:
        r1.fail('anchor/file', FILE, 'lazy_bigint.rs not parsed')
        return
    impls = [it for it in items if it.get('k') == 'impl']

    # ---------- helper: every expression node with its ancestors, per impl fn
    def fns_of(im):
        return [f for f in im['items'] if f.get('k') == 'fn']

    # ---------------- R14.1
    n_long = 0
    for im in impls:
        tn = trait_name(im)
        for fn in fns_of(im):
            for n, ps in find_nodes(fn['body'], is_long_ctor):
                n_long += 1
                arg = n['args'][0]
                cls = None
                why = ''
                # (a) failure closure of checked_* .map_or_else(|| Long(..), Short)
                clos = [p for p in ps if p.get('k') == 'closure']
                moe = [p for p in ps if p.get('k') == 'mcall' and p['method'] == 'map_or_else']
                if clos and moe:
                    m = moe[-1]
                    recv = m['recv']
                    # receiver chain contains checked_X(..) or try_into()
                    chk = [x for x, _ in find_nodes(recv, lambda y: y.get('k') == 'mcall' and y['method'] in CHECKED)]
                    tri = [x for x, _ in find_nodes(recv, lambda y: y.get('k') == 'mcall' and y['method'] == 'try_into')]
                    in_first = bool(find_nodes(m['args'][0], lambda y: y is n))
                    if chk and in_first:
                        want = CHECKED[chk[0]['method']]
                        ops = [x['op'] for x, _ in find_nodes(arg, lambda y: y.get('k') == 'binary')] + [x['method'] for x, _ in find_nodes(arg, lambda y: y.get('k') == 'mcall' and y['method'] == 'pow')]
                        if want in ops and all(o == want for o in ops if o in ARITH_OPS or o == 'pow'):
                            cls = 'overflow branch of %s, recomputed with %s' % (chk[0]['method'], want)
                        else:
                            why = 'the big-integer recomputation in the overflow branch of %s uses %s' % (chk[0]['method'], ops)
                    elif tri and in_first:
                        cls = 'failure branch of try_into::<SmallInt>'
                # (a') the same written as a match / if-let / let-else: the constructor sits in the None / Err(..) arm (or the else
                #      branch) of a test whose scrutinee is checked_X(..) / try_into()
                if cls is None and not why:
                    for p_ in ps:
                        scrut = fail_side = None
                        if p_.get('k') == 'match':
                            for a_ in p_['arms']:
                                if find_nodes(a_['body'], lambda y: y is n):
                                    ap_ = pat_str(a_['pat'])
                                    if re.match(r'^(None|Err\(.*\))$', ap_):
                                        scrut, fail_side = p_['expr'], True
                        elif p_.get('k') == 'if' and p_['cond'].get('k') == 'letexpr' and p_.get('else') is not None and find_nodes(p_['else'], lambda y: y is n):
                            if re.match(r'^(Some|Ok)\(', pat_str(p_['cond']['pat'])):
                                scrut, fail_side = p_['cond']['expr'], True
                        if not fail_side or scrut is None:
                            continue
                        chk = [x for x, _ in find_nodes(scrut, lambda y: y.get('k') == 'mcall' and y['method'] in CHECKED)]
                        tri = [x for x, _ in find_nodes(scrut, lambda y: y.get('k') == 'mcall' and y['method'] == 'try_into')]
                        neg = [x for x, _ in find_nodes(scrut, lambda y: y.get('k') == 'mcall' and y['method'] in ('checked_neg', 'checked_abs'))]
                        if neg and not chk:
                            # -x / |x| of the one value whose negation does not fit: recomputed on the big form
                            if find_nodes(arg, lambda y: (y.get('k') == 'unary' and y['op'] == '-') or (y.get('k') == 'mcall' and y['method'] in ('neg', 'abs'))):
                                cls = 'overflow arm of %s, recomputed on the big form' % neg[0]['method']
                            continue
                        if chk:
                            want = CHECKED[chk[0]['method']]
                            ops = [x['op'] for x, _ in find_nodes(arg, lambda y: y.get('k') == 'binary')] + [x['method'] for x, _ in find_nodes(arg, lambda y: y.get('k') == 'mcall' and y['method'] == 'pow')]
                            if want in ops and all(o == want for o in ops if o in ARITH_OPS or o == 'pow'):
                                cls = 'overflow arm of %s, recomputed with %s' % (chk[0]['method'], want)
                            else:
                                why = 'the big-integer recomputation in the overflow arm of %s uses %s' % (chk[0]['method'], ops)
                        elif tri:
                            cls = 'failure arm of try_into::<SmallInt>'
                # (b) arm guarded by the SmallInt::MIN pattern
                if cls is None and not why:
                    arm = None
                    for p in reversed(ps):
                        pass
                    # find enclosing match arm: the arm whose body contains n
                    for p in ps:
                        if p.get('k') == 'match':
                            for a in p['arms']:
                                if find_nodes(a['body'], lambda y: y is n):
                                    arm = a
                    ap = pat_str(arm['pat']) if arm else ''
                    has_assert = arg.get('k') == 'call' and arg['func'].get('path', '').endswith('assert_is_long')
                    if arm and 'SmallInt::MIN' in ap and not has_assert:
                        cls = 'arm for SmallInt::MIN'
                    elif has_assert:
                        key = (tn, ap)
                        if key in ASSERT_OK:
                            cls = 'assert_is_long: ' + ASSERT_OK[key]
                        else:
                            why = 'assert_is_long(..) at an unlisted site (%s arm %s): the belief that the value is always long is not established' % (tn, ap)
                    else:
                        why = 'Long(..) built directly in %s arm %s: the result may fit the small form (non-canonical: equal integers would compare unequal)' % (tn, ap or fn['name'])
                ok = cls is not None
                r1.inst({'impl': tn, 'fn': fn['name'], 'line': n['line'], 'class': cls or 'unclassified'}, ok=ok, kind=(tn, fn['name'], n.get('s', '')[:60]))
                if not ok:
                    arm_key = re.sub(r'[^A-Za-z0-9(),:_ ]', '', (pat_str(arm['pat']) if 'arm' in dir() and arm else ''))[:60]
                    r1.fail('%s::%s/%s' % (tn, fn['name'], arm_key or 'body'), '%s:%d' % (FILE, n['line']), why)
    r1.need(6)
    # Long constructed anywhere else in the crate?
    for f, its in ast['files'].items():
        if f == FILE:
            continue
        for n, ps in find_nodes(its, lambda y: y.get('k') == 'call' and y['func'].get('k') == 'path' and y['func']['path'].endswith('LazyBigint::Long')):
            r1.fail('%s/Long' % f, '%s:%d' % (f, n['line']), 'LazyBigint::Long constructed outside lazy_bigint.rs (bypasses canonicalisation)')

    # ---------------- R14.2
    r2 = ctx.rule('R14.2', 'small-form machine arithmetic that can overflow is guarded by earlier arms')
    small_form_arith(ctx, r2)

    # ---------------- R14.3 operator-trait agreement  /  R14.7 swapped or-patterns
    r3 = ctx.rule('R14.3', 'an impl of Op/OpAssign applies only Op to its operands')
    r7 = ctx.rule('R14.7', 'swapped or-patterns only in commutative operators')
    for im in impls:
        tn = trait_name(im)
        if tn not in TRAIT_OP or 'LazyBigint' not in im['self_ty']:
            continue
        want = TRAIT_OP[tn]
        for fn in fns_of(im):
            used = []
            for n, ps in find_nodes(fn['body'], lambda y: y.get('k') == 'binary' and y['op'] in ARITH_OPS):
                used.append((n['op'].rstrip('='), n['line']))
            for n, ps in find_nodes(fn['body'], lambda y: y.get('k') == 'mcall' and (y['method'] in CHECKED or y['method'] in ('pow', 'neg', 'abs', 'div_floor', 'div_ceil'))):
                used.append((CHECKED.get(n['method'], n['method']), n['line']))
            for n, ps in find_nodes(fn['body'], lambda y: y.get('k') == 'unary' and y['op'] == '-' and y['expr'].get('k') in ('path', 'field', 'paren', 'unary')):
                used.append(('neg', n['line']))   # negation of an operand (negating a literal / a constant constructor is not an operation on the operands)
            bad = [(o, l) for o, l in used if o != want and not (want == 'neg' and o == '-')]
            # a literal sign (`-1` in a pattern or `Short(-1)`) is not an operation
            bad = [(o, l) for o, l in bad if not (o == 'neg' and want != 'neg' and False)]
            r3.inst({'impl': '%s for %s' % (tn, im['self_ty']), 'fn': fn['name'], 'operators': sorted({o for o, _ in used})}, ok=not bad, kind=(tn, im['self_ty'], fn['name']))
            for o, l in bad:
                r3.fail('%s for %s::%s/%s' % (tn, im['self_ty'].replace(' ', ''), fn['name'], o), '%s:%d' % (FILE, l), 'impl of %s applies `%s` to its operands' % (tn, o))
            # swapped or-patterns
            for m, ps in find_nodes(fn['body'], lambda y: y.get('k') == 'match'):
                for a in m['arms']:
                    if a['pat'].get('k') != 'por':
                        continue
                    shapes = []
                    for c in a['pat']['cases']:
                        if c.get('k') == 'ptuple' and len(c['elems']) == 2:
                            names = []
                            for e in c['elems']:
                                nm = [x['name'] for x, _ in find_nodes(e, lambda y: y.get('k') == 'pident')]
                                names.append(tuple(nm))
                            shapes.append(tuple(names))
                    swapped = any(s1[0] and s1[1] and s1 == (s2[1], s2[0]) and s1 != s2 for i, s1 in enumerate(shapes) for s2 in shapes[i + 1:])
                    if not swapped:
                        continue
                    ok = tn in COMMUTATIVE
                    r7.inst({'impl': '%s for %s' % (tn, im['self_ty']), 'arm': pat_str(a['pat'])[:80]}, ok=ok, kind=(tn, im['self_ty'], a['line'] - m['line']))
                    if not ok:
                        r7.fail('%s for %s/swapped-arm' % (tn, im['self_ty'].replace(' ', '')), '%s:%d' % (FILE, a['line']), 'operands bound in swapped positions inside a non-commutative operator: `a %s b` is computed as `b %s a`' % (want, want))
    r3.need(12)
    r7.need(4)

    # ---------------- R14.4 documented rounding of mod
    r4 = ctx.rule('R14.4', 'Rem is floored as documented (result has the sign of the divisor)')
    doc = ctx.book('std/int.md')
    floored = bool(re.search(r'fn `mod\(.*?floored division', doc, re.S))
    if floored:
        for im in impls:
            if trait_name(im) != 'Rem':
                continue
            for fn in fns_of(im):
                arms = [a for m, _ in find_nodes(fn['body'], lambda y: y.get('k') == 'match') for a in m['arms']]
                units = [(pat_str(a['pat']), a['body'], a['line']) for a in arms] or [('body', fn['body'], fn['line'])]
                for ap, body, ln in units:
                    bare = find_nodes(body, lambda y: y.get('k') == 'binary' and y['op'] in ('%', '%='))
                    corrected = find_nodes(body, lambda y: (y.get('k') == 'path' and y['path'].split('::')[-1] in ('mod_floor', 'rem_euclid')) or (y.get('k') == 'mcall' and y['method'] in ('mod_floor', 'rem_euclid', 'is_negative', 'signum', 'is_positive')))
                    computes = bool(bare) or bool(corrected)
                    if not computes:
                        continue
                    ok = not bare or bool(corrected)
                    r4.inst({'impl': 'Rem for %s' % im['self_ty'], 'arm': ap, 'bare_%': len(bare), 'floored': bool(corrected)}, ok=ok, kind=(im['self_ty'], ap))
                    if not ok:
                        r4.fail('Rem for %s/%s/truncated' % (im['self_ty'].replace(' ', ''), ap), '%s:%d' % (FILE, ln), 'Rem uses the truncating `%` without sign correction; the book documents floored modulo (-7 % 2 must be 1)')
    else:
        r4.fail('book/mod', 'book/src/std/int.md', 'could not find the documented rounding mode of mod')
    r4.need(6)

    # ---------------- R14.6 name <-> operator tables in builtin/int.rs
    r6 = ctx.rule('R14.6', 'int builtins register the operator of the same meaning')
    WANT = {'add': '+', 'sub': '-', 'mul': '*', 'mod': '%', 'bit_or': '|', 'bit_and': '&', 'bit_xor': '^',
            'lt': '<', 'gt': '>', 'le': '<=', 'ge': '>=', 'eq': '==', 'ne': '!='}
    for g in astq.registrations(ast):
        if g['file'] != 'src/builtin/int.rs' or not g['method'].startswith('macro:'):
            continue
        name = g['name']
        if name not in WANT:
            continue
        clos = [a for a in g['args'] if a.get('k') == 'closure']
        if not clos:
            continue
        results = [x for x, _ in find_nodes(clos[-1]['body'], lambda y: y.get('k') == 'call' and y['func'].get('k') == 'path' and y['func']['path'] in ('XValue::Int', 'XValue::Bool'))]
        ops = [x['op'] for res in results for x, _ in find_nodes(res['args'], lambda y: y.get('k') == 'binary' and y['op'] in (set(WANT.values())))]
        ok = ops.count(WANT[name]) >= 1 and all(o == WANT[name] for o in ops)
        r6.inst({'name': name, 'operators': ops}, ok=ok, kind=name)
        if not ok:
            r6.fail('int/%s' % name, '%s:%d' % (g['file'], g['line']), 'builtin `%s` on int applies %s instead of `%s`' % (name, ops, WANT[name]))
    r6.need(10)

    # ---------------- R14.5 comparison of mixed representations, decided by abstract evaluation of Ord::cmp on the MIR:
    # a small value against a big positive one is Less, against a big negative one Greater, and mirrored
    r5 = ctx.rule('R14.5', 'Ord::cmp mixed arms: small vs big decided by the sign of the big operand, mirrored')
    from .lib import absint
    from .lib.facts import strip_generics, callee_name
    cb = ctx.mir.find('<util::lazy_bigint::LazyBigint as std::cmp::Ord>::cmp')
    adt = ctx.mir.adts.get('util::lazy_bigint::LazyBigint')
    if len(cb) != 1 or adt is None:
        r5.fail('anchor/cmp', FILE, 'Ord::cmp for LazyBigint / the LazyBigint enum not found in the MIR')
    else:
        vi = {v['name']: i for i, v in enumerate(adt['variants'])}

        def val(kind):
            return ('enum', vi['Short'], 'Short', ('S',)) if kind == 'S' else ('enum', vi['Long'], 'Long', (kind,))

        def oracle(tm, vals, env):
            nm = strip_generics(callee_name(tm) or '')
            a = absint.deref(None, env, vals[0]) if vals else absint.UNKNOWN
            if a in ('B+', 'B-'):
                if nm.endswith('Signed>::is_positive') or nm.endswith('::is_positive'):
                    return a == 'B+'
                if nm.endswith('Signed>::is_negative') or nm.endswith('::is_negative'):
                    return a == 'B-'
            return absint.UNKNOWN
        want = {('S', 'B+'): 'Less', ('S', 'B-'): 'Greater', ('B+', 'S'): 'Greater', ('B-', 'S'): 'Less'}
        for (x, y), w in sorted(want.items()):
            env0 = {'#self': val(x), '#other': val(y), '_1': ('ref', '#self'), '_2': ('ref', '#other')}
            rs = absint.returns(ctx.mir, cb[0], env0, oracle)
            got = sorted(r[2] if isinstance(r, tuple) and len(r) >= 3 and r[0] == 'adt' and r[1] == 'Ordering' else 'unrecognised' for r in rs)
            ok = got == [w]
            names = {'S': 'a small value', 'B+': 'a big positive value', 'B-': 'a big negative value'}
            r5.inst({'self': names[x], 'other': names[y], 'cmp_returns': got, 'expected': w}, ok=ok, kind=(x, y))
            if not ok:
                r5.fail('Ord::cmp/%s-%s' % (('Short', 'Long') if x == 'S' else ('Long', 'Short')), '%s:%d' % (FILE, int(cb[0].span.split(':')[1])),
                        'comparing %s with %s returns %s; expected %s (decided by the sign of the big operand)' % (names[x], names[y], got, w))
    r5.need(4)

    # ---------------- R14.8 no saturating float -> integer cast yields a program integer
    r8 = ctx.rule('R14.8', 'float-to-integer `as` casts (saturating, inexact at the 64-bit edge) feed only allocation estimates')
    n8 = 0
    for b in ctx.mir.bodies:
        if not (b.file.startswith('src/builtin/') or b.file.startswith('src/util/')):
            continue
        for i, j, s in b.stmts():
            if s['k'] != 'assign' or s['rv']['k'] != 'cast' or s['rv'].get('ck') != 'FloatToInt':
                continue
            n8 += 1
            ty = s['rv'].get('ty') or ''
            cons = mirq.consumers(ctx.mir, b, s['place']['l']) if not s['place']['p'] else {'?'}
            to_int = sorted(c for c in cons if re.search(r'(LazyBigint|BigInt|BigUint).*(from|From)|XValue::Int', c))
            # where does the enclosing closure go?  an estimate handed to can_allocate_by is a size, not a value
            estimate = False
            if b.kind == 'closure':
                for pb, ci, cj in mirq.closure_creation_sites(ctx.mir, b.id):
                    cl = pb.blocks[ci]['stmts'][cj]['place']['l']
                    for cbb, ct in pb.calls():
                        if any(op_local(a) == cl for a in ct['args']) and strip_generics(ct.get('callee') or '').endswith('::can_allocate_by'):
                            estimate = True
            ok = (ty == 'usize' and not to_int) and (estimate or not to_int)
            fn = strip_generics(ctx.mir.enclosing_fn(b)) if b.kind == 'closure' else b.nid
            r8.inst({'fn': fn, 'site': mirq.site(b, i, j), 'target': ty, 'flows_to_integer_value': to_int, 'allocation_estimate': estimate}, ok=ok, kind=(b.nid, i, j))
            if not ok:
                r8.fail('%s/float-as-%s' % (fn, ty), mirq.site(b, i, j), 'a float is turned into %s with `as` (saturates, and the usual range guard `<= i64::MAX as f64` is itself rounded up to 2^63): the integer result is wrong at the 64-bit boundary; convert through the big-integer path' % ty)
    r8.need(1)

    # ---------------- R14.10 |i64::MIN| does not fit: abs on the machine word only where MIN is excluded
    r10 = ctx.rule('R14.10', 'abs / negation-like methods on the machine word are applied only where i64::MIN has been excluded')
    MIN_BITS = str(1 << 63)
    for b in ctx.mir.bodies:
        if not (b.file.startswith('src/builtin/') or b.file.startswith('src/util/')):
            continue
        for bb, t in b.calls():
            nm = t.get('callee') or t.get('decl') or ''
            if re.search(r'<impl i64>::(checked_abs|unsigned_abs|wrapping_abs|overflowing_abs|saturating_abs|abs_diff)$', nm):
                # total forms: cannot overflow
                r10.inst({'fn': b.nid, 'site': mirq.site(b, bb), 'form': nm.split('::')[-1] + ' (total)'}, kind=(b.nid, bb))
                continue
            if not re.search(r'(<i64 as num_traits::Signed>::abs|<impl i64>::abs|<i64 as num_traits::Signed>::abs_sub)$', nm):
                continue
            # the operand: a (reference to a) place; MIN excluded = a dominating switch on that place with an explicit MIN target
            ap = op_place(t['args'][0]) if t['args'] else None
            root = None
            cur = ap['l'] if ap is not None else None
            for _ in range(6):
                ds = b.defs().get(cur, []) if cur is not None else []
                if len(ds) == 1 and ds[0][0] == 'stmt' and ds[0][3]['rv']['k'] in ('ref', 'use', 'copyderef'):
                    pl = ds[0][3]['rv'].get('place') or op_place(ds[0][3]['rv']['op'])
                    if pl is None:
                        break
                    if [e for e in pl['p'] if e != '*']:
                        root = pl
                        break
                    cur = pl['l']
                else:
                    break
            guarded = False
            for d in b.dominators().get(bb, ()):
                tm = b.term(d)
                if d == bb or tm['k'] != 'switch':
                    continue
                dp = op_place(tm['discr'])
                if dp is None:
                    continue
                same = (root is not None and mirq._place_key(dp) == mirq._place_key(root)) or (root is None and cur is not None and dp['l'] == cur and not dp['p'])
                if not same:
                    # a copy of the place read into a temporary just before the switch
                    k2, v2 = mirq.chase(b, dp['l']) if not dp['p'] else (None, None)
                    if k2 == 'rv' and root is not None:
                        pl2 = v2[2]['rv'].get('place') or (op_place(v2[2]['rv']['op']) if v2[2]['rv']['k'] == 'use' else None)
                        same = pl2 is not None and mirq._place_key(pl2) == mirq._place_key(root)
                if same:
                    mins = [x for v, x in tm['targets'] if v == MIN_BITS or v == '-' + MIN_BITS]
                    if mins and not mirq.dominates(b, mins[0], bb):
                        guarded = True
            r10.inst({'fn': b.nid, 'site': mirq.site(b, bb), 'min_excluded': guarded}, ok=guarded, kind=(b.nid, bb))
            if not guarded:
                r10.fail('%s/abs-of-word' % b.nid, mirq.site(b, bb), 'abs() of the machine word without excluding i64::MIN: |i64::MIN| does not fit and the call panics (overflow) for -2^63')
    r10.need(1)

    # ---------------- R14.9 integer functions of the stdlib (written in the language) do not go through floats
    r9 = ctx.rule('R14.9', 'stdlib functions from integers to an integer do not round a float quotient (exact only below 2^53)')
    inc = open(os.path.join(ctx.repo, 'src/builtin/include.rs')).read() if os.path.exists(os.path.join(ctx.repo, 'src/builtin/include.rs')) else ''
    n9 = 0
    for m in re.finditer(r'fn\s+(\w+)\s*(<[^>]*>)?\s*\(([^)]*)\)\s*->\s*int\s*\{', inc):
        name, params = m.group(1), m.group(3)
        i, d = m.end(), 1
        while d and i < len(inc):
            d += {'{': 1, '}': -1}.get(inc[i], 0)
            i += 1
        body = inc[m.end():i - 1]
        n9 += 1
        hits = []
        for c in re.finditer(r'\b(trunc|floor|ceil|round)\s*\(', body):
            j, d2 = c.end(), 1
            while d2 and j < len(body):
                d2 += {'(': 1, ')': -1}.get(body[j], 0)
                j += 1
            arg = body[c.end():j - 1]
            if re.search(r'[^/]/[^/]', arg):
                hits.append('%s(%s)' % (c.group(1), ' '.join(arg.split())))
        if not hits:
            r9.inst({'fn': name, 'float_round_trip': False}, kind=(name, m.start()))
            continue
        reason = FLOAT_ROUND_TRIP_OK.get(name)
        line = inc.count('\n', 0, m.start()) + 1
        r9.inst({'fn': name, 'rounded_quotients': hits, 'listed': bool(reason)}, ok=bool(reason), kind=(name, m.start()))
        if reason:
            r9.exempted(name, reason)
        else:
            r9.fail('include/%s/float-quotient' % name, 'src/builtin/include.rs:%d' % line, 'an integer function of the library computes %s: the quotient is a float, exact only below 2^53, so the integer result is wrong for large arguments; use div_floor / div_ceil' % hits[0])
    r9.need(20)

    # ---------------- R14.11 an integer spelling never becomes a float
    r11 = ctx.rule('R14.11', 'a number literal becomes a float literal only after its spelling has been tested for being an integer spelling')
    from .lib import cdeps
    for b in ctx.mir.bodies:
        if b.file != 'src/parser.rs':
            continue
        # where a float literal is produced from the text: the LiteralFloat constructions downstream of a str::parse::<f64>
        parses = [pb for pb, t in b.calls() if strip_generics(t.get('callee') or t.get('decl') or '').endswith('str>::parse') and 'f64' in ' '.join(t.get('substs') or [t.get('callee') or ''])]
        if not parses:
            continue
        for bb, sj, s_ in [(i, j, s) for i, j, s in b.stmts() if s['k'] == 'assign' and s['rv']['k'] == 'agg' and (s['rv'].get('adt') or '').endswith('XStaticExpr') and s['rv'].get('v') == 'LiteralFloat']:
            if not any(bb in b.reachable(pb) for pb in parses):
                continue
            L, S = cdeps.influence(b, blocks=[bb])
            tested = False
            for sw in S:
                dl = op_local(b.term(sw)['discr'])
                if dl is None:
                    continue
                for l in mirq.backslice(b, [dl]):
                    for kind, dbb, idx, x in b.defs().get(l, []):
                        if kind != 'call':
                            continue
                        cn = strip_generics(x.get('decl') or x.get('callee') or '')
                        if re.search(r'(Iterator::all|Iterator::any|str>::contains|str>::find|str>::ends_with|str>::strip_suffix|is_ascii_digit|str>::chars|str>::bytes)$', cn):
                            # the `_` separator test does not tell integers from floats
                            consts = [a['const'].get('s') for a in x['args'] if 'const' in a]
                            if any(c is not None and "'_'" in c for c in consts):
                                continue
                            tested = True
            r11.inst({'fn': b.nid, 'site': mirq.site(b, bb, sj), 'spelling_tested_before_float_literal': tested}, ok=tested, kind=(b.nid, bb))
            if not tested:
                r11.fail('parser/number-literal/integer-falls-to-float', mirq.site(b, bb, sj), 'a number literal that fails the integer parse (too large for the literal representation) is handed to the float parse without asking whether it is spelled as an integer: 170141183460469231731687303715884105728 silently becomes 1.7014118346046923e38')
    r11.need(1)

    # ---------------- R14.12 every integer a binary int native returns is the operator applied to both operands
    r12 = ctx.rule('R14.12', 'every result of a binary int native is computed by the operator of that native from both operands')
    OPS = {'add': 'add', 'sub': 'sub', 'mul': 'mul', 'mod': 'rem', 'bit_and': 'bitand', 'bit_or': 'bitor', 'bit_xor': 'bitxor',
           'div_floor': 'div_floor', 'div_ceil': 'div_ceil', 'pow': 'pow'}
    for b in ctx.mir.bodies:
        m = re.match(r'builtin::int::add_int_(\w+)(::\{closure#0\})+$', b.nid)
        if not m or m.group(1) not in OPS or b.d['argc'] != 4:
            continue
        want = OPS[m.group(1)]
        for i, j, s in b.stmts():
            if not (s['k'] == 'assign' and s['rv']['k'] == 'agg' and (s['rv'].get('adt') or '').endswith('xvalue::XValue') and s['rv'].get('v') == 'Int'):
                continue
            ol = op_local(s['rv']['ops'][0]) if s['rv']['ops'] else None
            sl = mirq.backslice(b, [ol]) if ol is not None else set()
            calls = set()
            for l in sl:
                for kind, dbb, idx, d in b.defs().get(l, []):
                    if kind == 'call':
                        calls.add(strip_generics(d.get('callee') or d.get('decl') or '').split('::')[-1])
            ok = want in calls and {2, 3} <= sl
            r12.inst({'native': m.group(1), 'site': mirq.site(b, i, j), 'computed_by': sorted(calls), 'from_both_operands': {2, 3} <= sl}, ok=ok, kind=(b.nid, i, j))
            if not ok:
                r12.fail('int/%s/result-not-from-operator' % m.group(1), mirq.site(b, i, j), 'the native `%s` returns an integer that is not %s(a, b) (computed by %s, from %s): a shortcut result is right only if it equals the operator\'s result for every pair, including operands of opposite sign and of different widths' % (m.group(1), want, sorted(calls) or 'no call', 'both operands' if {2, 3} <= sl else 'one operand'))
    r12.need(6)

    radix_overflow_fallback(ctx)
    division_step_convention(ctx)


INT_ERROR_KINDS = ['Empty', 'InvalidDigit', 'PosOverflow', 'NegOverflow', 'Zero']     # core::num::IntErrorKind, declaration order


def _const_variant(mir, body, op):
    """the variant a constant enum operand names (directly or through a promoted `&Enum::Variant`)"""
    c = op.get('const')
    if c is None:
        return None
    m = re.search(r'(\w+)\s*$', c.get('s') or '')
    if 'promoted' in c:
        pb = mir.by_id.get('%s::{promoted#%d}' % (c['uneval'], c['promoted']))
        if pb is None:
            return None
        for _, _, s in pb.stmts():
            if s['k'] == 'assign' and s['rv']['k'] == 'agg' and s['rv'].get('ak') == 'adt':
                return s['rv'].get('v')
            if s['k'] == 'assign' and s['rv']['k'] == 'use' and 'const' in s['rv']['op']:
                v = _const_variant(mir, pb, s['rv']['op'])
                if v:
                    return v
        return None
    return m.group(1) if m else None


def radix_overflow_fallback(ctx):
    """R14.13: LazyBigint::from_str_radix tries the machine parser first; the text denotes an integer the machine parser cannot hold
    exactly when that parser reports PosOverflow *or* NegOverflow, and in both cases the arbitrary-size parser must be consulted.
    Decision table over the five IntErrorKind values: for the two overflow kinds every path reaches BigInt::from_str_radix."""
    from .lib import absint
    from .lib.facts import callee_name
    mir = ctx.mir
    r13 = ctx.rule('R14.13', 'the machine-parse shortcut of from_str_radix falls back to the arbitrary-size parser for both overflow kinds')
    bs = [b for b in mir.bodies if b.nid == 'util::lazy_bigint::LazyBigint::from_str_radix']
    if not bs:
        r13.fail('anchor/from_str_radix', 'src/util/lazy_bigint.rs', 'LazyBigint::from_str_radix not found')
        r13.need(2)
        return
    b = bs[0]
    shortcut = [bb for bb, t in b.calls() if re.search(r'<impl i(128|64)>::from_str_radix$', strip_generics(callee_name(t) or ''))]
    big = [bb for bb, t in b.calls() if 'BigInt' in (callee_name(t) or '') and strip_generics(callee_name(t) or '').endswith('::from_str_radix')]
    if not shortcut:
        # no shortcut: everything goes to the arbitrary-size parser
        for k in ('PosOverflow', 'NegOverflow'):
            r13.inst({'kind': k, 'shortcut': False}, ok=bool(big), kind=k)
        r13.need(2)
        return
    for k in INT_ERROR_KINDS:
        kv = ('enum', INT_ERROR_KINDS.index(k), k, ())

        def oracle(t, vals, env):
            nm = strip_generics(callee_name(t) or '')
            if re.search(r'<impl i(128|64)>::from_str_radix$', nm):
                return ('err', ('adt', 'ParseIntError', k))
            if nm == 'std::num::ParseIntError::kind':
                return ('ref', '#kind')
            if 'PartialEq' in nm and nm.endswith(('::eq', '::ne')) and len(vals) == 2:
                names = []
                for v, o in zip(vals, t['args']):
                    d = v
                    for _ in range(3):
                        d = absint.deref(None, env, d)
                    if isinstance(d, tuple) and d and d[0] == 'enum':
                        names.append(d[2])
                    elif isinstance(d, tuple) and d and d[0] == 'adt' and len(d) >= 3:
                        names.append(d[2])
                    else:
                        cur = absint.CURRENT[-1].b if absint.CURRENT else b      # the body being evaluated (a helper `is_overflow(kind)`)
                        cv = _const_variant(mir, cur, o)
                        if cv is None:
                            # a local holding a reference to a promoted constant
                            kk, cc = mirq.chase_op(cur, o)
                            cv = _const_variant(mir, cur, {'const': cc}) if kk == 'const' else None
                        names.append(cv)
                if all(n in INT_ERROR_KINDS for n in names):
                    return (names[0] == names[1]) == nm.endswith('::eq')
            return absint.UNKNOWN

        def event(kind, bb, idx, node, env, R):
            if kind == 'term' and node['k'] == 'call' and bb in big:
                return 'arbitrary-size parser'
            if kind == 'term' and node['k'] == 'return':
                return 'returns without it'
            return None
        R0 = absint.region_with_std_oracle(mir, b, oracle, event)
        absint.CURRENT.append(R0)
        try:
            evs, silent, over = R0.run(0, {'#kind': kv})
        finally:
            absint.CURRENT.pop()
        if k in ('PosOverflow', 'NegOverflow'):
            ok = evs == {'arbitrary-size parser'} and not over
            r13.inst({'machine_parser_reports': k, 'outcomes': sorted(evs)}, ok=ok, kind=k)
            if not ok:
                r13.fail('from_str_radix/%s/no-fallback' % k, mirq.site(b, shortcut[0]), 'when the machine parser reports %s the text is not handed to the arbitrary-size parser on every path (%s): an integer spelled with more digits than the machine word holds (e.g. int("-170141183460469231731687303715884105729")) is rejected although it is a valid integer' % (k, ', '.join(sorted(evs)) or 'no outcome'))
        else:
            r13.inst({'machine_parser_reports': k, 'outcomes': sorted(evs)}, ok=True, kind=k)
    r13.need(5)


def division_step_convention(ctx):
    """R14.14: a positional-digit loop takes n = q*b + r apart step by step.  The remainder operator of the integers is *floored*
    (R14.4) while `/` truncates, so `r = n % b; n = n / b` satisfies n = q*b + r only when the signs agree.  Wherever an int native
    applies Rem and Div to the same dividend, the pair is consistent: the quotient is div_floor (the partner of the floored
    remainder), or the division is exact because its dividend is `n - r` with r the remainder just taken."""
    from .lib.facts import callee_name
    from .lib import guards
    mir = ctx.mir
    r14 = ctx.rule('R14.14', 'the quotient and the remainder of one division step follow the same rounding convention')
    n = 0
    for b in mir.bodies:
        if b.file != 'src/builtin/int.rs':
            continue
        rems = [(bb, t) for bb, t in b.calls() if re.search(r'LazyBigint as std::ops::Rem(<[^>]*>)?>::rem$', callee_name(t) or '')]
        divs = [(bb, t) for bb, t in b.calls() if re.search(r'LazyBigint as std::ops::Div(<[^>]*>)?>::div$', callee_name(t) or '')]
        if not rems or not divs:
            continue

        def root(op):
            p = op_place(op)
            if p is None:
                return None
            cur = p['l']
            for _ in range(8):
                cur = guards.root_local(b, cur)
                ds = b.defs().get(cur, [])
                # through clone() / into_owned() / as_ref() / deref()
                if len(ds) == 1 and ds[0][0] == 'call' and re.search(r'::(clone|into_owned|as_ref|deref|borrow|to_owned)$', strip_generics(callee_name(ds[0][3]) or '')) and ds[0][3]['args']:
                    q = op_place(ds[0][3]['args'][0])
                    if q is None:
                        break
                    cur = q['l']
                    continue
                if len(ds) == 1 and ds[0][0] == 'stmt' and ds[0][3]['rv']['k'] == 'ref':
                    cur = ds[0][3]['rv']['place']['l']
                    continue
                break
            return cur
        for dbb, dt in divs:
            dividend = root(dt['args'][0])
            for rbb, rt_ in rems:
                if root(rt_['args'][0]) != dividend:
                    continue
                n += 1
                fn = strip_generics(mir.enclosing_fn(b)) if b.kind == 'closure' else b.nid
                r14.inst({'fn': fn, 'remainder': mirq.site(b, rbb), 'quotient': mirq.site(b, dbb), 'consistent': False}, ok=False, kind=(b.nid, rbb, dbb))
                r14.fail('%s/floored-remainder-with-truncated-quotient' % fn.split('::')[-1], mirq.site(b, dbb), 'the same number is reduced by `%%` (floored) and `/` (truncating): n = q*b + r fails when n and b have different signs, so the digits do not denote the number (digits(-15) = [5, 9], digits(5, -2) = [-1, 0, -1])')
        # the consistent forms, counted as instances: an exact division of (n - r), or div_floor
        for dbb, dt in divs:
            p = op_place(dt['args'][0])
            ds = b.defs().get(guards.root_local(b, p['l']), []) if p is not None else []
            if len(ds) == 1 and ds[0][0] == 'call' and re.search(r'LazyBigint as std::ops::Sub(<[^>]*>)?>::sub$', callee_name(ds[0][3]) or ''):
                n += 1
                r14.inst({'fn': b.nid, 'quotient': mirq.site(b, dbb), 'form': 'exact division of n - r'}, ok=True, kind=(b.nid, 'exact', dbb))
    r14.need(1)
