"""C03 — lexical scoping, closures, one-time defaults.
  R03.1  identifier classes are injective: the special `item<N>` spelling class is anchored and canonical, parsed fallibly
  R03.2  defaults are compiled once, evaluated once in the defining scope when the closure is created, and only cloned per call
  R03.3  forward gating is a must-pass-through: a cell carrying forward requirements becomes an XExpr::Value only after require_forwards
  R03.4  capture re-threading protocol between into_static_ud and its two call sites
  R03.5  name lookup order: own variables, types, functions before the parent
  R03.6  runtime parent search compares template ids with the compile-time parent id (sibling loops agree)
  R03.7-R03.10  the forward gate is transitive and survives escaping function values (see forward_closure)
"""
import re
from .lib import mirq, astq
from .lib.facts import strip_generics, op_local, op_place, find_nodes, walk

CS = 'compilation_scope::CompilationScope'
REQ = CS + '::require_forwards'
FREQ_TY = 'std::vec::Vec<compilation_scope::ForwardRefRequirement>'


def run(ctx):
    mir = ctx.mir
    ast = ctx.ast
    ctx.explanation = ('Structural clauses of the scoping machinery decided on resolved MIR and the syntax tree: injective identifier classes, '
                       'one-time evaluation of defaults in the defining scope, must-pass-through forward gating, the capture re-threading protocol, '
                       'lookup order and the id-based parent search.')
    ctx.trusted = ['rustc MIR', 'syn parse', 'python re as the reading of the interner\'s regular expression literal']
    ctx.assumptions = ['that the resolved (depth, index) pairs are right for every nesting shape is NOT decided (semantic claim over scope trees)']

    # ---------------- R03.1
    r1 = ctx.rule('R03.1', 'special identifier class item<N> is anchored, canonical and parsed fallibly')
    f = 'src/util/special_prefix_interner.rs'
    items = ast['files'].get(f, [])
    lits = []
    for n, ps in find_nodes(items, lambda y: y.get('k') == 'lazy_static'):
        for c, _ in find_nodes(n['init'], lambda y: y.get('k') == 'call' and y['func'].get('path', '').endswith('Regex::new')):
            v = astq.str_lit(c['args'][0])
            if v is not None:
                lits.append((n['name'], v, n['line']))
    if len(lits) != 1:
        r1.fail('anchor/regex', f, 'expected exactly one regex literal in the interner, found %d' % len(lits))
    else:
        name, pat, line = lits[0]
        rx = re.compile(pat)
        probes = {'item0': True, 'item1': True, 'item10': True, 'item123456': True,
                  'item1x': False, 'item01': False, 'item00': False, 'xitem1': False, 'item': False, 'item1 ': False, 'item-1': False, 'items1': False, 'item1_': False, 'Item1': False}
        bad = [p for p, want in probes.items() if bool(rx.match(p) and rx.match(p).end() == len(p)) != want or (not want and rx.match(p) is not None)]
        anchored = pat.startswith('^') and pat.endswith('$')
        ok = anchored and not bad
        r1.inst({'regex': pat, 'anchored': anchored, 'misclassified_probes': bad}, ok=ok)
        if not ok:
            r1.fail('regex/not-injective', '%s:%d' % (f, line), 'the item<N> identifier class %r is not anchored/canonical: spellings %s are classified wrongly, so distinct identifiers alias one symbol' % (pat, bad or '(unanchored)'))
        # the group must be the whole index: distinct accepted spellings -> distinct indices
        seen = {}
        for i in list(range(0, 30)) + [100, 101, 1000]:
            m = rx.match('item%d' % i)
            if m:
                seen.setdefault(m.group(1), []).append(i)
        inj = all(len(v) == 1 for v in seen.values())
        r1.inst({'distinct_indices_for_distinct_spellings': inj}, ok=inj)
        if not inj:
            r1.fail('regex/group', '%s:%d' % (f, line), 'the capture group does not determine the spelling')
    # fallible parse: no unwrap/expect on parse() in this file
    for fn_file, fn, im in astq.all_fns(ast):
        if fn_file != f:
            continue
        for u, ups in find_nodes(fn['body'], lambda y: y.get('k') == 'mcall' and y['method'] == 'parse'):
            par = ups[-1] if ups else {}
            ok = not (par.get('k') == 'mcall' and par['method'] in ('unwrap', 'expect'))
            r1.inst({'fn': fn['name'], 'parse_handled_fallibly': ok}, ok=ok)
            if not ok:
                r1.fail('%s/parse-unwrap' % fn['name'], '%s:%d' % (f, u['line']), 'index parse is unwrapped: a long digit string crashes the compiler')
    r1.need(3)

    # ---------------- R03.2 defaults
    r2 = ctx.rule('R03.2', 'defaults: compiled once, evaluated once in the defining scope, cloned per call')
    # StaticUserFunction.defaults (expressions) read only by to_function; RuntimeScopeTemplate.defaults (values) read only in from_template
    readers = {}
    for b, bb, j, mode, p in mirq.field_accesses(mir, 'xexpr::StaticUserFunction', 'defaults'):
        if b.get('impl_trait') in ('std::fmt::Debug',):
            continue
        readers.setdefault(b.nid, mode)
        ok = b.nid == 'xexpr::XStaticFunction::to_function' and mode == 'r'
        r2.inst({'field': 'StaticUserFunction.defaults', 'reader': b.id}, ok=ok, kind=('sd', b.id))
        if not ok:
            r2.fail('%s/static-defaults' % b.nid, mirq.site(b, bb), 'default-value expressions are read outside to_function (they could be re-evaluated per call)')
    for b, bb, j, mode, p in mirq.field_accesses(mir, 'runtime_scope::RuntimeScopeTemplate', 'defaults'):
        ok = b.nid.startswith('runtime_scope::RuntimeScope::from_template') and mode == 'r'
        r2.inst({'field': 'RuntimeScopeTemplate.defaults', 'reader': b.id}, ok=ok, kind=('td', b.id))
        if not ok:
            r2.fail('%s/template-defaults' % b.nid, mirq.site(b, bb), 'evaluated default values are accessed outside from_template')
    a = mir.adts.get('runtime_scope::RuntimeScopeTemplate')
    fty = [x['ty'] for v in a['variants'] for x in v['fields'] if x['name'] == 'defaults'] if a else []
    ok = bool(fty) and 'xvalue::ManagedXValue' in fty[0] and 'xexpr::XExpr' not in fty[0]
    r2.inst({'RuntimeScopeTemplate.defaults type': fty[:1]}, ok=ok)
    if not ok:
        r2.fail('template/defaults-type', 'src/runtime_scope.rs', 'the template no longer stores default VALUES (Vec<EvaluatedValue>)')
    # from_specs evaluates each default on the scope parent with the flag false; from_template does not evaluate defaults
    fs = mir.find('runtime_scope::RuntimeScopeTemplate::from_specs')
    if len(fs) != 1:
        r2.fail('anchor/from_specs', '-', 'from_specs not found')
    else:
        evs = []
        for b in [fs[0]] + [x for x in mir.bodies if x.id.startswith(fs[0].id + '::{closure')]:
            for bb, t in b.calls():
                if strip_generics(t.get('callee') or '') == 'runtime_scope::RuntimeScope::eval':
                    k, v = mirq.chase_op(b, t['args'][3])
                    flag_false = k == 'const' and v.get('bool') is False
                    # receiver: unwrap of the captured scope_parent
                    rk, rv = mirq.chase_op(b, t['args'][0])
                    recv_parent = rk == 'call' and strip_generics(rv[1].get('callee') or '').endswith('Option::unwrap')
                    if recv_parent and b.kind == 'closure':
                        # the unwrapped option is the captured result of the ancestor search, not the raw stack parent argument
                        uk, uv = mirq.chase_op(b, rv[1]['args'][0])
                        src = None
                        if uk == 'rv' and uv[2]['rv']['k'] == 'use':
                            src = op_place(uv[2]['rv']['op'])
                        elif uk == 'place':
                            src = uv
                        idx = None
                        for e in (src['p'] if src else []):
                            if isinstance(e, dict) and 'f' in e:
                                idx = e['f']
                                break
                        origin_is_param = None
                        for (pb, i2, j2) in mirq.closure_creation_sites(mir, b.id):
                            ops = pb.blocks[i2]['stmts'][j2]['rv']['ops']
                            if idx is not None and idx < len(ops):
                                ok2, ov = mirq.chase_op(pb, ops[idx])
                                if ok2 == 'arg':
                                    origin_is_param = True
                                elif ok2 in ('multi', 'rv', 'call', 'none'):
                                    origin_is_param = False
                        recv_parent = origin_is_param is False
                    evs.append((b, bb, flag_false and recv_parent))
        ok = len(evs) == 1 and evs[0][2]
        r2.inst({'from_specs evaluates defaults': len(evs), 'on scope_parent with flag false': ok}, ok=ok)
        if not ok:
            r2.fail('from_specs/default-eval', mirq.site(fs[0], 0), 'from_specs must evaluate each default exactly once, on the defining scope, outside tail position')
    ft = mir.find('runtime_scope::RuntimeScope::from_template')
    if len(ft) == 1:
        # the Parameter arm only clones: the closure reading `defaults` contains no eval call
        for b in [x for x in mir.bodies if x.id.startswith(ft[0].id + '::{closure')]:
            reads = any(e.get('n') == 'defaults' for _, _, s in b.stmts() for _, p in mirq.places_in_stmt(s) for e in p['p'] if isinstance(e, dict))
            if reads:
                evals = [1 for bb, t in b.calls() if 'eval' in strip_generics(t.get('callee') or '').split('::')[-1]]
                clones = [1 for bb, t in b.calls() if strip_generics(t.get('callee') or t.get('decl') or '').endswith('Clone>::clone') or strip_generics(t.get('decl') or '') == 'std::clone::Clone::clone']
                ok = not evals and bool(clones)
                r2.inst({'from_template default use': b.id, 'clone_only': ok}, ok=ok)
                if not ok:
                    r2.fail('from_template/default-use', mirq.site(b, 0), 'a default value is not merely cloned when a parameter is missing')
    r2.need(5)

    # ---------------- R03.3 forward gating
    r3 = ctx.rule('R03.3', 'a cell carrying forward requirements becomes an expression only after require_forwards')
    for nid in (CS + '::compile', CS + '::resolve_overload::prepare_return'):
        bs = mir.find(nid)
        if len(bs) != 1:
            r3.fail('anchor/%s' % nid, '-', 'body not found')
            continue
        b = bs[0]
        req_blocks = [bb for bb, t in b.calls() if strip_generics(t.get('callee') or '') == REQ]
        # blocks where a requirement vector comes into hand (a local of that type is assigned from a payload)
        sources = set()
        for i, j, s in b.stmts():
            if s['k'] == 'assign' and not s['place']['p'] and b.local_ty(s['place']['l']) == FREQ_TY and s['rv']['k'] in ('use',):
                src = op_place(s['rv']['op'])
                if src is not None and src['p']:
                    sources.add(i)
        for bb, t in b.calls():
            if not t['dest']['p'] and b.local_ty(t['dest']['l']) == FREQ_TY and strip_generics(t.get('callee') or t.get('decl') or '').endswith('Clone>::clone'):
                sources.add(t['target'] if t['target'] is not None else bb)
        sinks = [(i, j) for i, j, s in b.stmts() if s['k'] == 'assign' and s['rv']['k'] == 'agg' and s['rv'].get('adt') == 'xexpr::XExpr' and s['rv']['v'] == 'Value']
        sinks += [(i, j) for i, j, s in b.stmts() if s['k'] == 'assign' and s['rv']['k'] == 'agg' and s['rv'].get('adt') == 'compilation_scope::Cell' and s['rv']['v'] == 'Capture']
        if not sources or not sinks:
            r3.fail('%s/anchors' % nid, mirq.site(b, 0), 'no requirement source / XExpr::Value sink found in %s' % nid)
            continue
        for src in sorted(sources):
            reach = b.reachable(src, avoid=req_blocks)
            for (i, j) in sinks:
                bad = i in reach
                r3.inst({'body': nid.split('::')[-1], 'requirements_obtained_at': mirq.site(b, src), 'sink': mirq.site(b, i, j), 'bypasses_require_forwards': bad}, ok=not bad, kind=(nid, src, i))
                if bad:
                    r3.fail('%s/bypass' % nid.split('::')[-1], mirq.site(b, i, j), 'a cell whose forward requirements were obtained at %s reaches XExpr::Value / a capture without passing require_forwards: a forward-declared function could be used before it is fulfilled' % mirq.site(b, src))
    # the host entry point filters unfulfilled requirements
    gud = [b for b in mir.bodies if b.nid.startswith('root_runtime_scope::RootEvaluationScope::get_user_defined_function')]
    reads = any(e.get('n') == 'fulfilled' for b in gud for _, _, s in b.stmts() for _, p in mirq.places_in_stmt(s) for e in p['p'] if isinstance(e, dict))
    builds = any(s['k'] == 'assign' and s['rv']['k'] == 'agg' and s['rv'].get('v') == 'ForwardRefFunction' for b in gud for _, _, s in b.stmts())
    r3.inst({'get_user_defined_function checks fulfilment': reads and builds}, ok=reads and builds)
    if not (reads and builds):
        r3.fail('get_user_defined_function/forward', 'src/root_runtime_scope.rs', 'the host entry point no longer refuses functions with unfulfilled forward requirements')
    r3.need(4)

    # ---------------- R03.4 capture re-threading
    r4 = ctx.rule('R03.4', 'capture requests of a closed scope are appended to the parent first, in order')
    ISU = CS + '::into_static_ud'
    IPUSH = 'util::ipush::IPush::ipush'
    # bodies that may (transitively) push a cell
    may_push = set(b.nid for b in mir.bodies if any(strip_generics(t.get('callee') or '') == IPUSH for _, t in b.calls()))
    changed = True
    while changed:
        changed = False
        for b in mir.bodies:
            if b.nid in may_push:
                continue
            for _, t in b.calls():
                c = strip_generics(t.get('callee') or '')
                if c in may_push:
                    may_push.add(b.nid)
                    changed = True
                    break
    sites = list(mir.call_sites(lambda n: n == ISU))
    for b, bb, t in sites:
        # from the call, the first may-push call on every path must be ipush itself (the request loop)
        ok = True
        bad_at = None
        seen = set()
        stack = [t['target']]
        n_push = 0
        while stack:
            x = stack.pop()
            if x in seen or x is None:
                continue
            seen.add(x)
            tt = b.term(x)
            if tt['k'] == 'call':
                c = strip_generics(tt.get('callee') or '')
                if c.endswith('IntoIterator>::into_iter') and 'compilation_scope::Cell' in ' '.join(tt.get('argtys') or []):
                    n_push += 0
                    loop_entry = True
                    # the iteration over the returned requests: everything after it is after the push loop
                    has_push = any(strip_generics(b.term(y).get('callee') or '') == IPUSH for y in b.reachable(tt['target']) if b.term(y)['k'] == 'call')
                    if has_push:
                        n_push += 1
                        continue
                if c == IPUSH:
                    n_push += 1
                    continue   # reached the push loop on this path
                if c in may_push:
                    ok = False
                    bad_at = (x, c)
                    break
                if c.endswith('add_static_func') or 'XStaticExpr' in c:
                    pass
            if tt['k'] == 'return':
                continue
            stack.extend(b.succs()[x])
        # 4th argument is the closing scope's parent's own id (self.id)
        k, v = mirq.chase_op(b, t['args'][4]) if len(t['args']) > 4 else ('none', None)
        id_ok = False
        if k in ('rv', 'place'):
            pl = v if k == 'place' else (op_place(v[2]['rv'].get('op', {})) if v[2]['rv']['k'] == 'use' else None)
            id_ok = bool(pl) and [e.get('n') for e in pl['p'] if isinstance(e, dict) and 'n' in e][-1:] == ['id'] and mirq.chase(b, pl['l'])[0] == 'arg'
        r4.inst({'call_site': b.id, 'site': mirq.site(b, bb), 'requests_pushed_before_any_other_cell': ok and n_push > 0, 'parent_id_is_self_id': id_ok}, ok=ok and n_push > 0 and id_ok)
        if not ok:
            r4.fail('%s/push-order' % b.nid, mirq.site(b, bad_at[0]), '%s can allocate a cell in the parent between into_static_ud and the push of its capture requests: the indices computed for the child would be wrong' % bad_at[1])
        elif n_push == 0:
            r4.fail('%s/no-push' % b.nid, mirq.site(b, bb), 'the capture requests returned by into_static_ud are not pushed to the parent')
        if not id_ok:
            r4.fail('%s/parent-id' % b.nid, mirq.site(b, bb), 'into_static_ud is not given the enclosing scope\'s own id as parent id')
    if len(sites) < 2:
        r4.fail('anchor/into_static_ud-sites', '-', 'expected the two call sites (function, lambda)')
    # shape of into_static_ud (syntax): request depth-1, rewritten capture depth 1 at parent.cells.len()+k
    for fn_file, fn, im in astq.all_fns(ast):
        if fn_file == 'src/compilation_scope.rs' and fn['name'] == 'into_static_ud':
            src = re.sub(r'\s+', '', ' '.join(x.get('s', '') for x, _ in find_nodes(fn['body'], lambda y: y.get('k') in ('let', 'struct', 'binary', 'assign', 'mcall') and 's' in y)))
            checks = {
                'start index = parent.cells.len()': 'parent.cells.len()' in src,
                'request depth = depth - 1': 'ancestor_depth-ScopeDepth(1)' in src,
                'rewritten depth = 1': 'ancestor_depth:ScopeDepth(1)' in src,
                'index = running parent index': 'cell_idx:parent_new_cell_idx-1' in src and 'parent_new_cell_idx+=1' in src,
                'only depth > 1 is re-threaded': 'ancestor_depth.0>1' in src,
            }
            for k2, v2 in checks.items():
                r4.inst({'into_static_ud': k2}, ok=v2, kind=k2)
                if not v2:
                    r4.fail('into_static_ud/%s' % k2.split(' ')[0], 'src/compilation_scope.rs:%d' % fn['line'], 'into_static_ud protocol clause lost: %s' % k2)
    r4.need(6)

    # ---------------- R03.5 lookup order
    r5 = ctx.rule('R03.5', 'get_item consults own variables, types, functions before the parent')
    for fn_file, fn, im in astq.all_fns(ast):
        if fn_file == 'src/compilation_scope.rs' and fn['name'] == 'get_item':
            order = []
            node = None
            for st in fn['body']:
                if st.get('k') == 'if':
                    node = st
            while node is not None and node.get('k') == 'if':
                c = re.sub(r'\s+', '', node['cond'].get('s') or '')
                m = re.search(r'self\.(variables|types|functions|parent)', c)
                order.append(m.group(1) if m else '?')
                node = node.get('else')
            ok = order[:4] == ['variables', 'types', 'functions', 'parent']
            r5.inst({'lookup_order': order}, ok=ok)
            if not ok:
                r5.fail('get_item/order', 'src/compilation_scope.rs:%d' % fn['line'], 'name lookup order is %s, expected own variables, types, functions, then the parent' % order)
    r5.need(1)

    # ---------------- R03.6 parent search by id
    r6 = ctx.rule('R03.6', 'runtime parent search compares template ids with the compile-time parent id in both loops')
    def id_comparisons(b):
        """[(other-side descriptor)] of every Eq between a RuntimeScopeTemplate.id read and something else in body b"""
        out = []
        for i, j, s in b.stmts():
            if s['k'] == 'assign' and s['rv']['k'] == 'bin' and s['rv']['op'] == 'Eq':
                sides = []
                for o in (s['rv']['a'], s['rv']['b']):
                    k, v = mirq.chase_op(b, o)
                    desc = None
                    if k == 'rv' and v[2]['rv']['k'] == 'use':
                        pl = op_place(v[2]['rv']['op'])
                        names = [e.get('n') or e.get('dc') for e in (pl['p'] if pl else []) if isinstance(e, dict) and ('n' in e or 'dc' in e)]
                        if any(isinstance(e, dict) and e.get('n') == 'id' and e.get('adt') == 'runtime_scope::RuntimeScopeTemplate' for e in (pl['p'] if pl else [])):
                            names.append('template')
                        if pl is not None and 1 <= pl['l'] <= b.d['argc']:
                            names.append('arg:%d' % pl['l'])
                        else:
                            # payload of a parameter bound by `let x = param?` / `if let Some(x) = param`
                            k0, v0 = mirq.chase(b, pl['l']) if pl is not None else (None, None)
                            if k0 == 'arg':
                                names.append('arg:%d' % v0)
                            elif k0 == 'call' and strip_generics(v0[1].get('callee') or v0[1].get('decl') or '').endswith('::branch'):
                                k1, v1 = mirq.chase_op(b, v0[1]['args'][0])
                                if k1 == 'arg':
                                    names.append('arg:%d' % v1)
                        desc = names
                    elif k == 'arg':
                        desc = ['arg:%d' % v]
                    sides.append(desc)
                flat = [x for sd in sides if sd for x in sd]
                if 'id' in flat and 'template' in flat:
                    out.append(flat)
        return out
    walkers = {}
    for wb in mir.bodies:
        if wb.file != 'src/runtime_scope.rs':
            continue
        cs = id_comparisons(wb)
        if cs:
            walkers[wb.nid] = cs
    for nid, idsrc in (('runtime_scope::RuntimeScopeTemplate::from_specs', 'arg'), ('runtime_scope::RuntimeScope::from_template', 'scope_parent_id')):
        bs = mir.find(nid)
        ok = False
        if len(bs) == 1:
            b = bs[0]
            for flat in walkers.get(nid, []):
                if idsrc in flat or (idsrc == 'arg' and any(x.startswith('arg:') or x == 'Some' for x in flat)):
                    ok = True
            if not ok:
                # the walk extracted into a helper: a call of a body that compares template.id with one of its parameters,
                # handed the recorded parent id (this function's own parameter / the template's scope_parent_id)
                for bb, tm in b.calls():
                    cn = strip_generics(tm.get('callee') or '')
                    for flat in walkers.get(cn, []):
                        for x in flat:
                            if not x.startswith('arg:'):
                                continue
                            n_arg = int(x.split(':')[1])
                            if n_arg - 1 >= len(tm['args']):
                                continue
                            k, v = mirq.chase_op(b, tm['args'][n_arg - 1])
                            if idsrc == 'arg' and k == 'arg':
                                ok = True
                            if k == 'rv' and v[2]['rv']['k'] == 'use':
                                pl = op_place(v[2]['rv']['op'])
                                if pl is not None and idsrc in [e.get('n') for e in pl['p'] if isinstance(e, dict)]:
                                    ok = True
                                # the payload of this function's own Option parameter: `match parent_id { Some(id) => helper(.., id), .. }`
                                if pl is not None and idsrc == 'arg' and 1 <= pl['l'] <= b.d['argc'] and not b.defs().get(pl['l']):
                                    ok = True
                            if k == 'place' and idsrc in [e.get('n') for e in v['p'] if isinstance(e, dict)]:
                                ok = True
                            pl0 = op_place(tm['args'][n_arg - 1])
                            if pl0 is not None and idsrc in [e.get('n') for e in pl0['p'] if isinstance(e, dict)]:
                                ok = True
            if not ok:
                # ... or the helper is called from a closure handed to Option::and_then / map on the recorded parent id
                for cb in [x for x in mir.bodies if x.id.startswith(b.id + '::{closure')]:
                    for bb, tm in cb.calls():
                        cn = strip_generics(tm.get('callee') or '')
                        for flat in walkers.get(cn, []):
                            for x in flat:
                                if not x.startswith('arg:'):
                                    continue
                                n_arg = int(x.split(':')[1])
                                if n_arg - 1 >= len(tm['args']):
                                    continue
                                k, v = mirq.chase_op(cb, tm['args'][n_arg - 1])
                                if k != 'arg' or v < 2:
                                    continue
                                for pb, pi, pj in mirq.closure_creation_sites(mir, cb.id):
                                    cl_local = pb.blocks[pi]['stmts'][pj]['place']['l']
                                    for pbb, pt in pb.calls():
                                        if not any(op_local(a) == cl_local for a in pt['args']) or not re.search(r'Option::(and_then|map|map_or|map_or_else)$', strip_generics(pt.get('callee') or pt.get('decl') or '')):
                                            continue
                                        k2, v2 = mirq.chase_op(pb, pt['args'][0])
                                        pl2 = op_place(pt['args'][0])
                                        names2 = [e.get('n') for e in (pl2['p'] if pl2 else []) if isinstance(e, dict)]
                                        if k2 == 'rv' and v2[2]['rv']['k'] in ('use', 'copyderef'):
                                            q = v2[2]['rv'].get('place') or op_place(v2[2]['rv']['op'])
                                            names2 += [e.get('n') for e in (q['p'] if q else []) if isinstance(e, dict)]
                                        if (idsrc == 'arg' and k2 == 'arg') or idsrc in names2:
                                            ok = True
        r6.inst({'body': nid, 'compares template.id with': idsrc}, ok=ok, kind=nid)
        if not ok:
            r6.fail('%s/id-compare' % nid, 'src/runtime_scope.rs', 'the ancestor walk does not compare template.id with the recorded parent id')
    tf = mir.find('xexpr::XStaticFunction::to_function')
    ok = False
    if len(tf) == 1:
        for bb, t in tf[0].calls():
            if strip_generics(t.get('callee') or '') == 'runtime_scope::RuntimeScopeTemplate::from_specs':
                k, v = mirq.chase_op(tf[0], t['args'][4])
                if k == 'rv' and v[2]['rv']['k'] == 'agg' and v[2]['rv'].get('v') == 'Some':
                    pk, pv = mirq.chase_op(tf[0], v[2]['rv']['ops'][0])
                    pl = op_place(pv[2]['rv']['op']) if pk == 'rv' and pv[2]['rv']['k'] == 'use' else (pv if pk == 'place' else None)
                    ok = bool(pl) and [e.get('n') for e in pl['p'] if isinstance(e, dict) and 'n' in e][-1:] == ['parent_id']
    r6.inst({'to_function passes Some(uf.parent_id)': ok}, ok=ok)
    if not ok:
        r6.fail('to_function/parent-id', 'src/xexpr.rs', 'to_function does not pass the function\'s compile-time parent id to from_specs')
    r6.need(3)

    forward_closure(ctx)
    function_cells_carry_requirements(ctx)


def _reach_avoiding(b, starts, avoid):
    seen = set()
    todo = [s for s in starts]
    while todo:
        x = todo.pop()
        if x in seen or x in avoid or b.is_cleanup(x):
            continue
        seen.add(x)
        todo.extend(b.succ(x))
    return seen


def _reads_cell_requirements(b, bb):
    """does the block read (or borrow, or extend) the forward_requirements of a Cell::Variable?"""
    bl = b.blocks[bb]
    for s in bl['stmts']:
        for mode, p in mirq.places_in_stmt(s):
            if any(isinstance(e, dict) and e.get('dc') == 'Variable' for e in p['p']) and any(isinstance(e, dict) and e.get('n') == 'forward_requirements' for e in p['p']):
                return True
    return False


def forward_closure(ctx):
    """R03.7-R03.10: the forward gate is transitive and survives escaping function values.
      R03.7  a definition that fulfils a forward declaration hands its own outstanding requirements to the declaration's cell
             (must-pass-through in add_static_func: no path registers the function without storing its requirement set in a cell)
      R03.8  require_forwards looks through a fulfilled declaration at the requirements of its cell (a fulfilled declaration is only
             as ready as its implementation)
      R03.9  a function value created from a scope whose own capture is still pending first follows that capture: it stays pending
             only when the captured cell is still unfilled (from_spec: the PendingCapture arm passes through the chain walk)
      R03.10 resolving a pending capture must not panic when the lexical parent of an escaped function value is gone"""
    mir = ctx.mir
    r7 = ctx.rule('R03.7', 'a fulfilling definition stores its own forward requirements in the cell of the declaration')
    bs = mir.find(CS + '::add_static_func')
    if len(bs) != 1:
        r7.fail('anchor/add_static_func', 'src/compilation_scope.rs', 'add_static_func not found')
    else:
        b = bs[0]
        # the function's own requirement set: locals of the requirement-vector type fed from the function's forward_requirements
        reqs = {l for l in range(len(b.locals)) if strip_generics(b.local_ty(l) or '') == strip_generics(FREQ_TY)}
        # sinks: a Cell::Variable built from it, or a cell's requirement list extended with it
        sinks = set()
        for i, j, s in b.stmts():
            if s['k'] == 'assign' and s['rv']['k'] == 'agg' and s['rv'].get('adt', '').endswith('compilation_scope::Cell') and s['rv'].get('v') == 'Variable':
                if any(op_local(o) in reqs or (op_local(o) is not None and mirq.backslice(b, [op_local(o)]) & reqs) for o in s['rv']['ops']):
                    sinks.add(i)
        for bb, t in b.calls():
            nm = strip_generics(t.get('decl') or t.get('callee') or '')
            if re.search(r'(::extend|::append|::extend_from_slice|::push)$', nm) and len(t['args']) >= 2:
                recv = op_local(t['args'][0])
                tgt_cell = recv is not None and any(_reads_cell_requirements(b, d[1]) for l in mirq.backslice(b, [recv]) for d in b.defs().get(l, []) if d[0] == 'stmt')
                src_l = op_local(t['args'][1])
                if tgt_cell and src_l is not None and (mirq.backslice(b, [src_l]) & reqs):
                    sinks.add(bb)
        regs = [i for i, j, s in b.stmts() if s['k'] == 'assign' and s['rv']['k'] == 'agg' and s['rv'].get('adt', '').endswith('Declaration') and s['rv'].get('v') == 'Function']
        if not regs or not reqs:
            r7.fail('anchor/add_static_func/shape', mirq.site(b, 0), 'no Declaration::Function registration / requirement set found')
        else:
            free = _reach_avoiding(b, [0], sinks)
            bad = [x for x in regs if x in free]
            ok = not bad
            # which branch escapes: the one that marks a forward declaration fulfilled
            fulfil = [i for i, j, s in b.stmts() if s['k'] == 'assign' and any(isinstance(e, dict) and e.get('n') == 'fulfilled' for e in s['place']['p'])]
            r7.inst({'fn': b.nid, 'requirement_sinks': len(sinks), 'registration_reachable_without_storing_requirements': not ok}, ok=ok)
            if not ok:
                where = mirq.site(b, fulfil[0]) if fulfil else mirq.site(b, bad[0])
                r7.fail('add_static_func/fulfilment-drops-requirements', where, 'the function is registered on a path that never stores its own forward requirements in a cell (the branch that fulfils a forward declaration): a definition that fulfils one declaration while waiting for another can be invoked early (uninitialized cell at run time)')
    r7.need(1)

    r8 = ctx.rule('R03.8', 'require_forwards follows a fulfilled declaration to the requirements of its cell')
    bs = mir.find(REQ)
    if len(bs) != 1:
        r8.fail('anchor/require_forwards', 'src/compilation_scope.rs', 'require_forwards not found')
    else:
        b = bs[0]
        sws = []
        for bb in range(len(b.blocks)):
            tm = b.term(bb)
            if tm['k'] != 'switch':
                continue
            dl = op_local(tm['discr'])
            for kind, dbb, idx, x in b.defs().get(dl, []) if dl is not None else []:
                if kind == 'stmt' and x['rv']['k'] in ('use', 'copyderef'):
                    pl = x['rv'].get('place') or op_place(x['rv']['op'])
                    if pl and any(isinstance(e, dict) and e.get('n') == 'fulfilled' for e in pl['p']):
                        sws.append(bb)
        if len(sws) != 1:
            r8.fail('anchor/require_forwards/fulfilled-test', mirq.site(b, 0), 'expected one test of ForwardRef::fulfilled, found %d' % len(sws))
        else:
            sw = sws[0]
            tm = b.term(sw)
            false_t = [x for v, x in tm['targets'] if v == '0']
            true_t = tm['otherwise']
            # locals holding (a reference to) the requirement list of a cell, and the calls that hand them on (to the work list, to a
            # recursive require_forwards, ...): only such a call counts as consulting the cell
            held = set()
            for i, j, s in b.stmts():
                if s['k'] == 'assign' and not s['place']['p']:
                    for mode, pl in mirq.places_in_stmt(s):
                        if mode != 'w' and any(isinstance(e, dict) and e.get('dc') == 'Variable' for e in pl['p']) and any(isinstance(e, dict) and e.get('n') == 'forward_requirements' for e in pl['p']):
                            held.add(s['place']['l'])
            readers = set()
            held_at = {}
            for i, j, s in b.stmts():
                if s['k'] == 'assign' and not s['place']['p'] and s['place']['l'] in held:
                    held_at.setdefault(s['place']['l'], set()).add(i)
            for bb, t in b.calls():
                nm = strip_generics(t.get('decl') or t.get('callee') or '')
                if not re.search(r'(::extend|::append|::push|::extend_from_slice|::require_forwards|::insert)$', nm):
                    continue
                for a in t['args'][1:]:
                    if op_local(a) is None:
                        continue
                    # the read of the cell's list counts where it happens, provided what was read flows on to such a call (the call
                    # itself may sit in a loop over the list and run zero times)
                    for h in mirq.backslice(b, [op_local(a)]) & held:
                        readers |= held_at.get(h, set())
            # helpers of the same type that read a cell's requirements count as readers at their call site
            for bb, t in b.calls():
                for h in mir.find(strip_generics(t.get('callee') or '')):
                    if h.nid.startswith(CS + '::') and h is not b and any(_reads_cell_requirements(h, x) for x in range(len(h.blocks))):
                        readers.add(bb)
            # from the `fulfilled` edge, can the loop go on (reach the test again) or the function return without consulting the cell?
            free = _reach_avoiding(b, [true_t], readers)
            ends = [x for x in free if b.term(x)['k'] == 'return' or x == sw]
            ok = bool(false_t) and true_t not in false_t and not ends
            r8.inst({'fn': b.nid, 'cell_requirement_reads': len(readers), 'fulfilled_edge_consults_cell': ok}, ok=ok)
            if not ok:
                r8.fail('require_forwards/not-transitive', mirq.site(b, sw), 'a fulfilled forward declaration is accepted without looking at the requirements of its cell: a function that calls a fulfilled declaration whose implementation still waits for another declaration can be invoked early')
    r8.need(1)

    r9 = ctx.rule('R03.9', 'a capture of a pending capture is resolved through the chain when the function value is created')
    bs = mir.find('runtime_scope::EvaluationCell::from_spec')
    if len(bs) != 1:
        r9.fail('anchor/from_spec', 'src/runtime_scope.rs', 'EvaluationCell::from_spec not found')
    else:
        b = bs[0]
        adt = mir.adts.get('runtime_scope::EvaluationCell')
        vidx = {v['name']: i for i, v in enumerate(adt['variants'])} if adt else {}
        pend = vidx.get('PendingCapture')
        walks = [bb for bb, t in b.calls() if re.search(r'RuntimeScope::(try_)?scope_ancestor(_and_cell|_at_depth)$', strip_generics(t.get('callee') or ''))]
        makes = [i for i, j, s in b.stmts() if s['k'] == 'assign' and s['rv']['k'] == 'agg' and s['rv'].get('adt') == 'runtime_scope::EvaluationCell' and s['rv'].get('v') == 'PendingCapture']
        sw = None
        for bb in sorted(range(len(b.blocks))):
            tm = b.term(bb)
            if tm['k'] == 'switch' and pend is not None and any(v == str(pend) for v, x in tm['targets']) and walks and mirq.dominates(b, walks[0], bb):
                sw = bb
                break
        if sw is None or not makes or not walks:
            r9.fail('anchor/from_spec/shape', mirq.site(b, 0), 'expected the match on the captured ancestor cell after scope_ancestor_and_cell')
        else:
            tm = b.term(sw)
            tgt = [x for v, x in tm['targets'] if v == str(pend)][0]
            later_walks = {w for w in walks if w != walks[0] and not mirq.dominates(b, w, sw)}
            free = _reach_avoiding(b, [tgt], later_walks)
            bad = [m for m in makes if m in free]
            ok = not bad
            r9.inst({'fn': b.nid, 'chain_walks_after_the_match': len(later_walks), 'pending_of_pending_without_walk': not ok}, ok=ok)
            if not ok:
                r9.fail('from_spec/pending-of-pending', mirq.site(b, bad[0]), 'when the captured ancestor cell is itself a pending capture, the new function value is given a pending capture without looking whether the captured cell has been filled since: returned from its creator and called later, it panics ("ran out of scope parents at runtime") although the forward declaration was fulfilled before it was created')
    r9.need(1)

    r10 = ctx.rule('R03.10', 'resolving a pending capture does not panic when a lexical parent is gone')
    bs = mir.find('runtime_scope::RuntimeScope::scope_ancestor_at_depth')
    if len(bs) != 1:
        r10.fail('anchor/scope_ancestor_at_depth', 'src/runtime_scope.rs', 'scope_ancestor_at_depth not found')
    else:
        b = bs[0]
        panics = [bb for bb, t in b.calls() if re.search(r'Option::(expect|unwrap)$', strip_generics(t.get('decl') or t.get('callee') or ''))]
        ok = not panics
        r10.inst({'fn': b.nid, 'panicking_parent_accesses': len(panics)}, ok=ok)
        if not ok:
            r10.fail('scope_ancestor_at_depth/expect-parent', mirq.site(b, panics[0]), 'pending captures are resolved through lexical parent links with expect(): a function value that escaped its creating activation (returned, stored) has no such parent; when it, or something it calls, still holds a pending forward capture the interpreter panics instead of finding the cell')
    r10.need(1)

    r11 = ctx.rule('R03.11', 'the search for a function\'s lexical parent falls back to the root of the call stack')
    # the walker(s): bodies of runtime_scope.rs that compare a template id with a parent id (found by R03.6's recogniser).  A
    # function value that escaped the call that created it has no lexical parent link; a function declared at the root must still
    # find the root scope, which is the bottom of every call stack: the walker must read the caller link when the lexical
    # chain is exhausted.
    adt = mir.adts.get('runtime_scope::RuntimeScope')
    has_field = bool(adt) and any(f['name'] == 'stack_parent' for v in adt['variants'] for f in v['fields'])
    readers = [b for b in mir.bodies if b.file == 'src/runtime_scope.rs' and any(
        any(isinstance(e, dict) and e.get('n') == 'stack_parent' and e.get('adt') == 'runtime_scope::RuntimeScope' for e in p['p'])
        for i, j, s in b.stmts() for m_, p in mirq.places_in_stmt(s) if m_ != 'w')]
    walkers = [b for b in mir.bodies if b.file == 'src/runtime_scope.rs' and any(
        s['k'] == 'assign' and s['rv']['k'] == 'bin' and s['rv']['op'] == 'Eq' and any(
            (lambda kk, vv: kk == 'rv' and vv[2]['rv']['k'] == 'use' and op_place(vv[2]['rv']['op']) is not None and any(isinstance(e, dict) and e.get('n') == 'id' and e.get('adt') == 'runtime_scope::RuntimeScopeTemplate' for e in op_place(vv[2]['rv']['op'])['p']))(*mirq.chase_op(b, o))
            for o in (s['rv']['a'], s['rv']['b']))
        for i, j, s in b.stmts())]
    reader_ids = {r.nid for r in readers}

    def consults(w):
        if w in readers:
            return True
        # ... or through a private helper of the same file (`self.stack_root()`)
        return any(strip_generics(tm.get('callee') or '') in reader_ids for bb, tm in w.calls())
    ok = has_field and any(consults(w) for w in walkers)
    r11.inst({'parent_search_bodies': [w.nid for w in walkers], 'caller_link_read_by_the_search': ok}, ok=ok)
    if not ok:
        r11.fail('scope-parent-search/no-root-fallback', mirq.site(walkers[0], 0) if walkers else 'src/runtime_scope.rs', 'the lexical parent of a called function is searched along the lexical links of the calling scope only: called from a function value that escaped its creator (no lexical link), even a function declared at the root finds no parent, and a pending forward capture then panics ("ran out of scope parents at runtime")')
    r11.need(1)


def function_cells_carry_requirements(ctx):
    """R03.12: a function value may be used only where the forward declarations its body waits for are implemented.  The compiler
    tracks that through the cell of the function: whoever declares a function cell (a `Declaration::Function` for a named function
    or for a lambda) stores the function's own forward_requirements in the cell's Cell::Variable -- not an empty list -- so that
    every later use of the cell inherits them (R03.7/R03.8 decide the use side)."""
    from .lib import mirq
    from .lib.facts import strip_generics, callee_name, op_place
    mir = ctx.mir
    r12 = ctx.rule('R03.12', 'every declared function cell carries the forward requirements of the function it holds')
    for b in mir.bodies:
        if b.file != 'src/compilation_scope.rs' or b.kind != 'fn':
            continue
        decls = [(i, j) for i, j, s in b.stmts() if s['k'] == 'assign' and s['rv']['k'] == 'agg' and s['rv'].get('v') == 'Function' and (s['rv'].get('adt') or '').endswith('Declaration')]
        if not decls:
            continue
        cells = [(i, j, s) for i, j, s in b.stmts() if s['k'] == 'assign' and s['rv']['k'] == 'agg' and s['rv'].get('v') == 'Variable' and (s['rv'].get('adt') or '').endswith('Cell') and len(s['rv']['ops']) >= 2]
        fn = b.nid.split('::')[-1]
        # (a body may also reuse the cell of a forward declaration: extending that cell's list with the requirements counts)
        for i, j, s in cells:
            p = op_place(s['rv']['ops'][1])
            sl = mirq.backslice(b, [p['l']]) if p is not None else set()
            # a list filled after it was created (`let mut v = Vec::new(); v.extend(func.forward_requirements..)`): calls that
            # receive `&mut v` contribute what their other arguments are computed from
            grown = True
            while grown:
                grown = False
                for cbb, ct in b.calls():
                    als = [op_place(a) for a in ct['args']]
                    muts = []
                    for a in als:
                        if a is None or a['p']:
                            continue
                        d0 = b.defs().get(a['l'], [])
                        if len(d0) == 1 and d0[0][0] == 'stmt' and d0[0][3]['rv']['k'] == 'ref' and d0[0][3]['rv'].get('mut') and d0[0][3]['rv']['place']['l'] in sl:
                            muts.append(a['l'])
                    if muts:
                        for a in als:
                            if a is not None and a['l'] not in muts:
                                more = mirq.backslice(b, [a['l']]) - sl
                                if more:
                                    sl |= more
                                    grown = True
            from_func = False
            for i2, j2, s2 in b.stmts():
                if s2['k'] == 'assign' and s2['place']['l'] in sl and not s2['place']['p']:
                    pl = s2['rv'].get('place') or (op_place(s2['rv']['op']) if isinstance(s2['rv'].get('op'), dict) else None)
                    if pl is not None and any(isinstance(e, dict) and e.get('n') == 'forward_requirements' for e in pl['p']):
                        from_func = True
            for cbb, ct in b.calls():
                if not ct['dest']['p'] and ct['dest']['l'] in sl:
                    for a in ct['args']:
                        q = op_place(a)
                        if q is not None and any(isinstance(e, dict) and e.get('n') == 'forward_requirements' for e in q['p']):
                            from_func = True
                    # a helper of the file that reads the field of the function it is given (sorted_forward_requirements(&func))
                    cal = strip_generics(ct.get('callee') or '')
                    for hb in mir.by_nid.get(cal, []):
                        if hb.file == b.file and any(s3['k'] == 'assign' and any(isinstance(e, dict) and e.get('n') == 'forward_requirements' for e in ((s3['rv'].get('place') or {}).get('p') or []) + ((op_place(s3['rv']['op']) or {}).get('p') or [] if isinstance(s3['rv'].get('op'), dict) else [])) for _, _, s3 in hb.stmts()) \
                                or any(any(op_place(a3) is not None and any(isinstance(e, dict) and e.get('n') == 'forward_requirements' for e in op_place(a3)['p']) for a3 in t3['args']) for _, t3 in hb.calls()):
                            from_func = True
            r12.inst({'fn': fn, 'cell_built_at': mirq.site(b, i, j), 'requirements_from_the_function': from_func}, ok=from_func, kind=(b.nid, i, j))
            if not from_func:
                r12.fail('%s/cell-without-requirements' % fn, mirq.site(b, i, j), 'the cell of a declared function is created with a requirement list that does not come from the function: a lambda whose body calls a forward-declared function can be called before the implementation exists (forward fn f(x: int)->int; let g = ()->{f(1)}; let y = g(); fn f(x: int)->int{x} is accepted and instantiation panics: access to uninitialized cell)')
    r12.need(2)
