"""C10 — limits bound all work: no unbounded native loop.  A loop inventory over every natural loop (MIR back edge) of the
builtin and utility bodies:
  R10.1  every loop is  (B) budgeted: its iterator is zipped with the search budget,  (F) finite-structural: it iterates an
         existing in-memory collection / a usize range / a take(n), or is listed with a termination reason
  R10.2  the search budget yields L permits then a violation (shape, shared with R08.5) and generator consumption is zipped with it
  R10.3  timeout gate: check_timeout compares the deadline with Instant::now() and is on the path of every user call (R08.2)
"""
import re
from .lib import mirq
from .lib.facts import strip_generics, op_local
from .lib.types import split_generic

BUDGET = 'std::iter::Once<std::result::Result<(), runtime_violation::RuntimeViolation>>'
FINITE_HEADS = {'std::slice::Iter', 'std::slice::IterMut', 'std::vec::IntoIter', 'std::ops::Range', 'std::ops::RangeInclusive',
                'std::collections::hash_map::Iter', 'std::collections::hash_map::Keys', 'std::collections::hash_map::Values',
                'std::collections::hash_map::IntoIter', 'std::collections::vec_deque::Iter', 'std::str::Chars', 'std::str::CharIndices',
                'std::option::IntoIter', 'std::option::Iter', 'std::slice::Windows', 'std::slice::Chunks', 'std::iter::Once', 'std::iter::Empty',
                'std::array::IntoIter', 'serde_json::map::IntoIter', 'regex::Matches', 'regex::CaptureMatches',
                'regex_automata::util::captures::CapturesPatternIter'}
WRAP = {'std::iter::Enumerate', 'std::iter::Rev', 'std::iter::Map', 'std::iter::Cloned', 'std::iter::Copied', 'std::iter::Skip', 'std::iter::Peekable',
        'std::iter::Filter', 'std::iter::FilterMap', 'std::iter::StepBy', 'std::iter::Inspect', 'std::iter::TakeWhile', 'std::iter::SkipWhile', 'std::iter::FlatMap', 'std::iter::Flatten'}

# loops accepted with a termination argument: body -> reason   (every loop of that body must then still be of a recognised header kind)
LOOP_OK = {
    '<builtin::stack::StackNode as std::ops::Drop>::drop': 'walks the node chain of an existing stack (each step unlinks one node)',
    '<builtin::stack::XStack as native_types::XNativeValue>::dyn_size': 'walks the node chain of an existing stack',
    'builtin::stack::XStack::to_vec': 'walks the node chain of an existing stack',
    'builtin::sequence::add_sequence_add_stack::{closure#0}': 'XStack::iter (from_fn over the node chain of an existing stack)',
    'builtin::sequence::add_sequence_addrev_stack::{closure#0}': 'XStack::iter over an existing stack',
    'builtin::stack::add_stack_dyn_eq::{closure#0}::{closure#0}::{closure#0}': 'XStack::iter over two existing stacks',
    'builtin::stack::add_stack_dyn_hash::{closure#0}::{closure#0}::{closure#0}': 'XStack::iter over an existing stack',
    '<std::vec::Vec as util::try_extend::TryExtend>::try_extend': 'generic helper: bounded by its callers\' iterators (sequence iterators of known finite length)',
    'builtin::cont_distributions::deep_inverse_cdf': 'doubling search on f64 (at most ~1024 doublings before infinity) then 32 bisection steps',
    'builtin::disc_distributions::inverse_cdf': 'doubling then bisection on a bounded integer type K (at most bits(K) steps each)',
    'builtin::int::add_int_digits::{closure#0}': 'n shrinks by a factor |b| >= 2 each step (base validated above): logarithmic',
    'builtin::int::add_int_multinom::{closure#0}': 'iterates its argument vector and LazyBigint::range(k) zipped with the search budget',
    'builtin::mapping::XMapping::with_update': 'iterates the items handed in by the caller (generator iter(): budgeted)',
    'builtin::set::XSet::with_update': 'iterates the items handed in by the caller (generator iter(): budgeted)',
    'builtin::mapping::add_mapping_dyn_eq::{closure#0}::{closure#0}::{closure#0}': 'iterates the entries of an existing mapping',
    'builtin::sequence::XSequence::n_largest': 'iterates a sequence whose length was checked finite by the callers (len() is Some)',
    'builtin::sequence::add_sequence_to_stack::{closure#0}': 'after `len()` returned Some: finite logical length',
    'builtin::sequence::XSequence::quickselect': 'partition loop: [left, right] shrinks by at least one each iteration',
}
# closures are numbered by position, so an exemption for one of them is keyed by what identifies it: (enclosing function, a callee it must contain)
LOOP_OK_CLOSURES = {
    ('builtin::generators::XGenerator::_iter', 'builtin::generators::XGenerator::_iter'): 'Repeat (the closure that restarts the inner generator): every iteration either returns an element, ends (a pass that yielded nothing), or starts exactly one new pass after a pass that yielded',
}
KNOWN_HEAVY = {
    'builtin::int::add_int_combination::{closure#0}': 'while k > 0: k or the remaining range shrinks every step (bounded by n)',
    'builtin::int::add_int_combination_with_replacement::{closure#0}': 'while k > 0: bounded by n + k',
}


def finite(ty):
    ty = ty.strip()
    if ty.startswith('&mut '):
        ty = ty[5:]
    if ty.startswith('&'):
        ty = ty[1:]
    head, args = split_generic(ty)
    if head in FINITE_HEADS or head == 'std::iter::Take':
        return True
    if head == 'itertools::Either' and args:
        return all(finite(a) for a in args)
    if head in WRAP and args:
        return finite(args[0])
    if head == 'std::iter::Zip' and len(args) == 2:
        return finite(args[0]) or finite(args[1])
    if head == 'std::iter::Chain' and len(args) == 2:
        return finite(args[0]) and finite(args[1])
    return False


def strip_ref(ty):
    ty = ty.strip()
    if ty.startswith('&mut '):
        ty = ty[5:]
    if ty.startswith('&'):
        ty = ty[1:]
    return re.sub(r"^'\w+ ", '', ty).strip()


def budgeted(ty, budget_ty):
    """is every way of producing an item from this iterator type paired with one permit of the search budget?
    structural: Zip with the budget; every arm of an Either; through element-wise wrappers"""
    ty = strip_ref(ty)
    if ty == budget_ty:
        return True
    head, args = split_generic(ty)
    if head == 'std::iter::Zip' and len(args) == 2:
        return budgeted(args[0], budget_ty) or budgeted(args[1], budget_ty)
    if head == 'itertools::Either' and args:
        return all(budgeted(a, budget_ty) for a in args)
    if head in WRAP and args:
        return budgeted(args[0], budget_ty)
    if head == 'std::iter::Chain' and len(args) == 2:
        return budgeted(args[0], budget_ty) and budgeted(args[1], budget_ty)
    return False


def mentions(ty, parts):
    return any(p and p in ty for p in parts)


def run(ctx):
    mir = ctx.mir
    ctx.explanation = ('Inventory of all natural loops of the builtin/utility bodies, each classified as budgeted by the search limit, finite over an '
                       'existing collection, or listed with a termination reason; plus the shapes of the search budget and of the timeout gate.')
    ctx.trusted = ['rustc MIR (back edges = loops)', 'std iterator types denote what they iterate', 'the listed termination reasons (rules/c10.py) were confirmed by reading']
    ctx.assumptions = ['wall-clock bounds and the cost of library calls (bigint multiplication, regex compilation) are NOT decided',
                       'loops over sequences of finite but astronomically large logical length (range(2**62)) are bounded by the size limit only']
    r1 = ctx.rule('R10.1', 'every native loop is budgeted, finite-structural, or listed with a termination reason')
    nB = nF = nL = 0
    # the types involved are read from the code: what search_iter returns, and what the element iterators of sequences and
    # generators are (their closures' types make them recognisable inside any composed iterator type)
    def ret_ty(nid):
        bs = mir.find(nid)
        return strip_ref(bs[0].locals[0]['ty']) if len(bs) == 1 else None
    budget_ty = ret_ty('runtime::RuntimeLimits::search_iter')
    seq_iter = ret_ty('builtin::sequence::XSequence::iter')
    seq_diter = ret_ty('builtin::sequence::XSequence::diter')
    if seq_diter and seq_diter.startswith('std::option::Option<'):
        seq_diter = seq_diter[len('std::option::Option<'):-1]
    gen_iter = ret_ty('builtin::generators::XGenerator::_iter')
    lazy_tys = [seq_iter, seq_diter, gen_iter, 'dyn std::iter::Iterator<Item = std::result::Result<std::result::Result<std::rc::Rc<xvalue::ManagedXValue', 'dyn std::iter::DoubleEndedIterator<Item = std::result::Result<std::result::Result<std::rc::Rc<xvalue::ManagedXValue']
    if not budget_ty or BUDGET not in budget_ty or not seq_iter or not seq_diter or not gen_iter:
        r1.fail('anchor/iterator-types', '-', 'return types of search_iter / XSequence::iter / diter / XGenerator::_iter not found in the MIR')
        return
    for b in mir.bodies:
        if not (b.file.startswith('src/builtin/') or b.file.startswith('src/util/')):
            continue
        if b.kind == 'promoted' or b.nid.startswith(('util::trysort', 'util::try_heap', '<util::try')) or '::tests::' in b.nid:
            continue
        dom = b.dominators()
        heads = set()
        for i in sorted(dom):
            for s in b.succs()[i]:
                if s in dom.get(i, ()):
                    heads.add(s)
        bad = []
        for h in sorted(heads):
            t = b.term(h)
            cls = None
            if t['k'] == 'call' and strip_generics(t.get('decl') or '') == 'std::iter::Iterator::next':
                ty = (t.get('argtys') or [''])[0]
                if budgeted(ty, budget_ty):
                    cls = 'B'
                    nB += 1
                elif mentions(ty, lazy_tys):
                    # an iterator over the *logical* elements of a sequence / generator (possibly astronomically many, or
                    # infinitely many) that is not paired with the budget on every arm: needs a listed reason
                    cls = None
                elif finite(ty):
                    cls = 'F'
                    nF += 1
            if cls is None:
                # a loop that takes a permit from the search budget on every round (`let permit = budget.next().unwrap(); permit?;`):
                # a block of the loop calls next() on the budget iterator and that block lies on every way round the loop
                body_blocks = [n for n in range(len(b.blocks)) if h in dom.get(n, ()) and h in b.reachable(n)]
                for n in body_blocks:
                    t2 = b.term(n)
                    if t2['k'] == 'call' and strip_generics(t2.get('decl') or '') == 'std::iter::Iterator::next' and n != h:
                        ty2 = (t2.get('argtys') or [''])[0]
                        ty2 = ty2[5:] if ty2.startswith('&mut ') else ty2
                        if budget_ty in ty2 and all(n in dom.get(src, ()) for src in range(len(b.blocks)) if h in b.succs()[src] and h in dom.get(src, ())):
                            cls = 'B'
                            nB += 1
                            break
            if cls is None and (b.nid in LOOP_OK or b.nid in KNOWN_HEAVY):
                cls = 'L'
                nL += 1
                r1.exempted(b.nid, LOOP_OK.get(b.nid) or KNOWN_HEAVY.get(b.nid))
            if cls is None and b.kind == 'closure':
                encl = b.nid.split('::{closure')[0]
                callees = {strip_generics(tm2.get('callee') or '') for _, tm2 in b.calls()}
                for (e0, must), why in LOOP_OK_CLOSURES.items():
                    if e0 == encl and must in callees:
                        cls = 'L'
                        nL += 1
                        r1.exempted('%s::{closure calling %s}' % (encl, must.split('::')[-1]), why)
            r1.inst({'body': b.id, 'loop_header': mirq.site(b, h), 'class': cls or 'unclassified'}, ok=cls is not None, kind=(b.id, h))
            if cls is None:
                bad.append(h)
        if bad:
            r1.fail('%s/loop' % b.nid, mirq.site(b, bad[0]), '%d loop(s) neither zipped with the search budget nor iterating an existing collection, and not listed with a termination reason (first at %s): a program can keep the interpreter busy without bound' % (len(bad), mirq.site(b, bad[0])))
    r1.note('budgeted=%d finite=%d listed=%d' % (nB, nF, nL))
    if nB < 10:
        r1.fail('anchor/budgeted', '-', 'fewer budgeted loops than the 15 confirmed by hand')
    r1.need(60)

    # ---------------- R10.2
    r2 = ctx.rule('R10.2', 'generator consumption and core::search are zipped with the search budget')
    for nid in ('builtin::generators::XGenerator::iter', 'builtin::core::search'):
        bs = mir.find(nid)
        ok = False
        if len(bs) == 1:
            b = bs[0]
            si = [bb for bb, t in b.calls() if strip_generics(t.get('callee') or '') == 'runtime::RuntimeLimits::search_iter']
            zp = [(bb, t) for bb, t in b.calls() if strip_generics(t.get('decl') or t.get('callee') or '') == 'std::iter::Iterator::zip']
            if si and zp:
                sd = b.term(si[0])['dest']['l']
                ok = any(op_local(t['args'][1]) == sd or sd in mirq.backslice(b, [op_local(t['args'][1])] if op_local(t['args'][1]) is not None else []) for bb, t in zp)
        r2.inst({'body': nid, 'zipped_with_search_iter': ok}, ok=ok, kind=nid)
        if not ok:
            r2.fail('%s/no-budget' % nid, 'src/builtin', '%s no longer zips its items with the search budget' % nid)
    # in XGenerator::iter the budget's Err must be propagated before the item (closure: search? then v)
    # (abstract evaluation of the closure that maps (item, permit) pairs: an exhausted budget must come out as the result)
    from .lib import absint as _ai
    it = [b for b in mir.bodies if b.nid.startswith('builtin::generators::XGenerator::iter::{closure') and b.d['argc'] == 2 and b.local_ty(2).startswith('(')]
    ok = False
    for b in it:
        def no_calls(tm, vals, env):
            return _ai.UNKNOWN
        exhausted = _ai.returns(mir, b, {'_2': ('tuple', ('ITEM', ('err', 'BUDGET')))}, no_calls)
        permitted = _ai.returns(mir, b, {'_2': ('tuple', ('ITEM', ('ok', ('tuple', ()))))}, no_calls)
        ok = ok or (exhausted == {('err', 'BUDGET')} and permitted == {'ITEM'})
    r2.inst({'iter closure propagates the budget violation': ok}, ok=ok)
    if not ok:
        r2.fail('XGenerator::iter/propagate', 'src/builtin/generators.rs', 'the search-budget result is not propagated in XGenerator::iter')
    r2.need(3)

    # ---------------- R10.3
    r3 = ctx.rule('R10.3', 'timeout gate compares the deadline with Instant::now() and is on every user-call path')
    ct = mir.find('runtime::Runtime::check_timeout')
    ok = False
    table = {}
    if len(ct) == 1:
        # the decision of check_timeout, evaluated abstractly for: no deadline; deadline before / at / after the present
        from .lib import absint
        from .lib.facts import callee_name

        def scenario(scen):
            def field_oracle(p, env):
                names = [e.get('n') for e in p['p'] if isinstance(e, dict)]
                if names and names[-1] == 'timeout':
                    return 'none' if scen == 'none' else ('some', 'DL')
                return absint.UNKNOWN

            def oracle(tm, vals, env):
                nm = strip_generics(callee_name(tm) or '')
                if nm == 'std::time::Instant::now':
                    return 'NOW'
                ops = {'std::cmp::PartialOrd::gt': 'gt', 'std::cmp::PartialOrd::lt': 'lt', 'std::cmp::PartialOrd::ge': 'ge', 'std::cmp::PartialOrd::le': 'le',
                       'std::cmp::PartialEq::eq': 'eq', 'std::cmp::PartialEq::ne': 'ne'}
                if nm in ops and len(vals) == 2:
                    def deref(v):
                        return absint.deref(None, env, v)
                    a, b2 = deref(vals[0]), deref(vals[1])
                    if {a, b2} == {'DL', 'NOW'}:
                        rel = scen if a == 'DL' else {'lt': 'gt', 'gt': 'lt', 'eq': 'eq'}[scen]
                        return {'gt': rel == 'gt', 'lt': rel == 'lt', 'ge': rel in ('gt', 'eq'), 'le': rel in ('lt', 'eq'), 'eq': rel == 'eq', 'ne': rel != 'eq'}[ops[nm]]
                return absint.UNKNOWN
            rs = absint.returns(mir, ct[0], {}, oracle, field_oracle)
            out = set()
            for r in rs:
                if isinstance(r, tuple) and r and r[0] == 'ok':
                    out.add('continue')
                elif isinstance(r, tuple) and r and r[0] == 'err':
                    out.add('violation:%s' % (r[1][2] if isinstance(r[1], tuple) and len(r[1]) > 2 else '?'))
                else:
                    out.add('unrecognised')
            return sorted(out)
        want = {'none': ['continue'], 'gt': ['continue'], 'eq': ['violation:Timeout'], 'lt': ['violation:Timeout']}
        table = {s_: scenario(s_) for s_ in want}
        ok = table == want
        for s_ in sorted(want):
            r3.inst({'deadline': {'none': 'not configured', 'gt': 'after now', 'eq': 'equal to now', 'lt': 'before now'}[s_], 'check_timeout_decides': table[s_], 'documented': want[s_]}, ok=table[s_] == want[s_], kind=('timeout', s_))
    if not ok:
        r3.fail('check_timeout/shape', 'src/runtime.rs', 'check_timeout no longer decides `continue while the deadline is after Instant::now(), Timeout otherwise`: %s' % table)
    efv = mir.find('runtime_scope::RuntimeScope::eval_func_with_values')
    if len(efv) == 1:
        b = efv[0]
        from . import c08
        gates = c08.gate_functions(mir, 'runtime::Runtime::check_timeout')
        ks = []
        for bb, tm in b.calls():
            if strip_generics(tm.get('callee') or '') in gates and not tm['dest']['p']:
                cons = mirq.consumers(mir, b, tm['dest']['l'], depth=0)
                if '<discriminant test>' in cons or any(c.endswith('::branch') for c in cons):
                    ks.append(bb)
        frames = [bb for bb, tm in b.calls() if strip_generics(tm.get('callee') or '') == 'runtime_scope::RuntimeScope::from_template']
        ok = bool(ks) and all(any(mirq.dominates(b, k, f) for k in ks) for f in frames) and bool(frames)
        r3.inst({'check_timeout()? dominates frame construction': ok}, ok=ok)
        if not ok:
            r3.fail('eval_func_with_values/timeout', 'src/runtime_scope.rs', 'a user frame can be built without passing check_timeout()?')
    r3.need(5)

    # ---------------- R10.4 skipping adaptors inside _iter
    r4 = ctx.rule('R10.4', 'adaptors that can discard unboundedly many items per step are budgeted (zipped with the search budget or taking a permit per examined item) or run over a finite outer')
    GEN = 'builtin::generators::XGenerator'
    SKIPPING = {'skip', 'skip_while', 'filter', 'filter_map', 'flatten', 'flat_map', 'step_by', 'find', 'find_map', 'position', 'last', 'nth'}
    fam = [b for b in mir.bodies if b.nid == GEN + '::_iter' or b.nid.startswith(GEN + '::_iter::{closure')]
    pending = {}
    for b in fam:
        for bb, t in b.calls():
            d = strip_generics(t.get('decl') or '')
            if not d.startswith('std::iter::Iterator::') or d.split('::')[-1] not in SKIPPING:
                continue
            meth = d.split('::')[-1]
            aty = (t.get('argtys') or [''])[0]
            base = aty[5:] if aty.startswith('&mut ') else aty
            inner = base.startswith('std::boxed::Box<dyn std::iter::Iterator') or base.startswith('impl Iterator') or base.startswith('std::iter::RepeatWith')
            if not inner:
                # e.g. flat_map over the slice of parts: finite outer, lazy inner
                r4.inst({'body': b.id, 'site': mirq.site(b, bb), 'adaptor': meth, 'class': 'finite outer (%s)' % base[:40]}, kind=(b.id, bb))
                continue
            # does the adaptor's closure take a search permit for the items it examines?  (Calling the program's function per item is
            # not a bound: the function value may be a native one -- filter(not{bool}) -- which the call limit does not count.)
            takes_permit = False
            for a in t['args'][1:]:
                k, v = mirq.chase_op(b, a)
                if k == 'rv' and v[2]['rv']['k'] == 'agg' and v[2]['rv'].get('ak') == 'closure':
                    cb = mir.by_id.get(v[2]['rv']['def'])
                    if cb is not None:
                        for _, t2 in cb.calls():
                            if strip_generics(t2.get('decl') or '') == 'std::iter::Iterator::next':
                                aty2 = (t2.get('argtys') or [''])[0]
                                if 'RuntimeViolation' in aty2 and re.search(r'Result<\(\), ', aty2):
                                    takes_permit = True
            ok = takes_permit
            r4.inst({'body': b.id, 'site': mirq.site(b, bb), 'adaptor': meth, 'takes_a_search_permit_per_examined_item': takes_permit}, ok=ok, kind=(b.id, bb))
            if not ok:
                pending.setdefault((b.nid, meth), []).append(mirq.site(b, bb))
    for (nid, meth), sites in sorted(pending.items()):
        r4.fail('%s/%s' % (nid, meth), sites[0], '`%s` over an unbudgeted inner generator can discard arbitrarily many items inside one step without consuming search or call budget (%d site(s): %s)' % (meth, len(sites), ', '.join(sites)))
    r4.need(3)

    # ---------------- R10.5 one budget per native call
    r5 = ctx.rule('R10.5', 'the search budget of a native call is obtained once, outside every loop of that native')
    # budget sources: search_iter itself, and the small helpers of the crate that obtain a budget for their caller (core::search(iter, rt)
    # zips an iterator with a fresh one): a function that calls search_iter and whose every caller is a native body
    helpers = set()
    for hb in mir.bodies:
        if hb.kind == 'fn' and hb.file.startswith('src/builtin/') and not re.search(r'::add_\w+$', hb.nid) and any(strip_generics(t.get('callee') or t.get('decl') or '').endswith('runtime::RuntimeLimits::search_iter') for _, t in hb.calls()):
            if len(hb.blocks) <= 12:
                helpers.add(hb.nid)
    for b, bb, tm in mir.call_sites(lambda n: n.endswith('runtime::RuntimeLimits::search_iter') or n in helpers):
        if b.nid in helpers:
            continue
        in_loop = tm.get('target') is not None and bb in b.reachable(tm['target'])
        # a closure called once per item of an outer iteration is a loop body as well
        per_item = False
        if b.kind == 'closure':
            for pb, i, j in mirq.closure_creation_sites(mir, b.id):
                for cbb, ct in pb.calls():
                    if any(op_local(a) == pb.blocks[i]['stmts'][j]['place']['l'] for a in ct['args']) and re.search(r'Iterator::(map|for_each|filter|filter_map|flat_map|scan|try_for_each|fold|try_fold|any|all|find|find_map|take_while|skip_while|inspect)$', strip_generics(ct.get('decl') or ct.get('callee') or '')):
                        per_item = True
        ok = not in_loop and not per_item
        r5.inst({'fn': b.nid, 'site': mirq.site(b, bb), 'inside_a_loop': in_loop, 'inside_a_per_item_closure': per_item}, ok=ok, kind=(b.nid, bb))
        if not ok:
            fn = strip_generics(mir.enclosing_fn(b)) if b.kind == 'closure' else b.nid
            r5.fail('%s/budget-per-iteration' % fn, mirq.site(b, bb), 'a fresh search budget is taken on every iteration: each round may spend the whole limit, so the work of one call is not bounded by the limit (quadratic regex search, ...)')
    r5.need(5)
