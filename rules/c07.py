"""C07 — tail-call optimisation is transparent.  A flag-provenance argument over all bodies:
  R07.1  TailCall is constructed in one place, under  tail_available ∧ callee is XExpr::Value(cell) ∧ cell is LocalRecourse
  R07.2  inside eval the parameter tail_available flows only to that test and to the Call arm's dispatch
  R07.3  a call of eval / eval_func_with_* whose flag is not the constant false has a result that flows only to the
         caller's return place (through `?`/Ok), never into unwrap_value, a match, or a data structure
  R07.4  a non-constant flag is the body's own bool parameter; the scope it is applied to is the body's own scope
         parameter and (for eval) the expression is an element of its own argument slice; literal `true` only at listed sites
  R07.5  the trampoline consumes TailCall by looping; eval_func_with_values cannot itself hand the flag to user code
  R07.6  carriers: a documented short-circuit parameter whose value is returned unchanged is evaluated with the flag
  R07.7  a tail iteration re-enters the body through the same gate as an ordinary call: the argument vector of TailCall passes
         the erroring-argument test before from_template (same analysis as R06.4), so tail form and ordinary recursion agree on errors
"""
import re
from .lib import mirq, book, astq
from .lib.facts import strip_generics, op_local, op_place

EVAL = 'runtime_scope::RuntimeScope::eval'
EFE = 'runtime_scope::RuntimeScope::eval_func_with_expressions'
EFV = 'runtime_scope::RuntimeScope::eval_func_with_values'
FLAG_IDX = {EVAL: 3, EFE: 4, EFV: 4}
TER = 'xexpr::TailedEvalResult'

# sites allowed to pass the literal `true` (one line of reason each)
TRUE_SITES = {
    (EFV, EVAL): 'the trampoline: evaluates the function body in tail position and consumes TailCall itself',
    ('builtin::json::add_json_dyn_json_optional::{closure#0}::{closure#0}::{closure#0}', EFV):
        'eval_func_with_values ignores the flag for user functions and wraps arguments as Dummy for natives (R07.5), result returned directly',
}
BOOK_MODULE = {'general': 'generic', 'errors': 'generic'}


def variant_index(mir, adt, name):
    for i, v in enumerate(mir.adts[adt]['variants']):
        if v['name'] == name:
            return i
    return None


def dominating_conditions(body, bb):
    """[(switch_block, taken_value|'otherwise')] for every dominating switch whose single successor dominates bb"""
    out = []
    dom = body.dominators()[bb]
    for d in dom:
        t = body.term(d)
        if t['k'] != 'switch' or d == bb:
            continue
        succs = [(v, x) for v, x in t['targets']] + [('otherwise', t['otherwise'])]
        taken = [v for v, x in succs if mirq.dominates(body, x, bb) and len([1 for _, y in succs if y == x]) == 1]
        if len(taken) == 1:
            out.append((d, taken[0]))
    return out


def switch_subject(body, d):
    """what a switch block branches on: ('bool', chase) or ('discr', place)"""
    t = body.term(d)
    l = op_local(t['discr'])
    if t['dty'] == 'bool':
        return ('bool', mirq.chase_op(body, t['discr']))
    for kind, bb, idx, x in body.defs().get(l, []):
        if kind == 'stmt' and x['rv']['k'] == 'discr':
            return ('discr', x['rv']['place'], x['rv']['pty'])
    return ('unknown', None)


def arg_elements(b, op):
    """(all_origins_are_elements, constant indices) : is the expression operand of an eval call, on every definition that
    reaches it, a reference to an element of the body's own argument slice (`&args[K]`, `&args[i]` with i a constant chosen
    by a branch, `match c { true => &args[1], false => &args[2] }`)?"""
    pl0 = op_place(op)
    if pl0 is None or pl0['p']:
        return False, set()
    aliases, origins = mirq.move_origins(b, pl0['l'])
    idxs = set()
    ok = bool(origins)
    for obb, oidx, kind, payload in origins:
        good = False
        if kind == 'rv' and payload['rv']['k'] == 'ref':
            pl = payload['rv']['place']
            if any(isinstance(e, dict) and ('idx' in e or 'cidx' in e) for e in pl['p']):
                bk, bv = mirq.chase(b, pl['l'])
                if bk == 'arg' and 'xexpr::XExpr' in b.local_ty(bv):
                    good = True
                    for e in pl['p']:
                        if isinstance(e, dict) and 'idx' in e:
                            for k2, dbb, didx, x in b.defs().get(e['idx'], []):
                                if k2 == 'stmt' and x['rv']['k'] == 'use' and 'const' in x['rv']['op']:
                                    idxs.add(int(x['rv']['op']['const']['int']))
                        if isinstance(e, dict) and 'cidx' in e:
                            idxs.add(e['cidx'])
            elif pl['p'] == ['*']:
                # a re-borrow of another reference local
                sub_ok, sub_idx = arg_elements(b, {'copy': {'l': pl['l'], 'p': []}})
                good = sub_ok
                idxs |= sub_idx
        ok = ok and good
    return ok, idxs


def forward_flow(body, start_local, allow_match=False):
    """follow the result of a flagged evaluation; return list of (site_bb, what) misuse descriptions and whether it reaches _0"""
    S = {start_local}
    bad = []
    reaches_ret = start_local == 0
    changed = True
    while changed:
        changed = False
        for i, j, s in body.stmts():
            if s['k'] != 'assign':
                continue
            rv = s['rv']
            srcs = [p for m, p in mirq.places_in_stmt(s) if m in ('r', 'm')]
            if not any(p['l'] in S for p in srcs):
                continue
            if rv['k'] == 'discr':
                continue
            lhs = s['place']
            if rv['k'] == 'use' or (rv['k'] == 'agg' and rv.get('ak') == 'adt' and rv.get('adt') == 'std::result::Result' and rv.get('v') == 'Ok'):
                if lhs['p'] and lhs['l'] != 0:
                    bad.append((i, j, 'stored into a field of local _%d' % lhs['l']))
                    continue
                if lhs['l'] not in S:
                    S.add(lhs['l'])
                    changed = True
                if lhs['l'] == 0:
                    reaches_ret = True
            elif rv['k'] == 'ref':
                # borrowing the result (e.g. to inspect it)
                if lhs['l'] not in S:
                    S.add(lhs['l'])
                    changed = True
            else:
                bad.append((i, j, 'used in %s' % rv['k']))
        for bb, t in body.calls():
            used = [ai for ai, a in enumerate(t['args']) if op_local(a) in S or (op_place(a) and op_place(a)['l'] in S)]
            if not used:
                continue
            nm = strip_generics(t.get('callee') or t.get('decl') or '')
            if nm in ('<std::result::Result as std::ops::Try>::branch', '<std::result::Result as std::ops::FromResidual>::from_residual', 'std::ops::FromResidual::from_residual'):
                if t['dest']['l'] not in S:
                    S.add(t['dest']['l'])
                    changed = True
                if t['dest']['l'] == 0:
                    reaches_ret = True
                continue
            bad.append((bb, None, 'passed to %s' % nm))
    # a match on the TailedEvalResult itself
    for i, bl in enumerate(body.blocks):
        for j, s in enumerate(bl['stmts']):
            if s['k'] == 'assign' and s['rv']['k'] == 'discr' and s['rv']['place']['l'] in S and s['rv']['pty'].startswith(TER) and not bl['cleanup']:
                # is the discriminant actually switched on?
                t = bl['term']
                if t['k'] == 'switch' and op_local(t['discr']) == s['place']['l'] and not allow_match:
                    bad.append((i, j, 'matched on (Value/TailCall inspected)'))
    return bad, reaches_ret, S


def run(ctx):
    mir = ctx.mir
    ctx.explanation = ('Flag-provenance argument over all bodies: where TailCall can be created, where the tail flag can flow, and that every '
                       'evaluation performed under a non-false flag has its result returned unchanged by its caller (tail position), applied to the caller\'s own scope.')
    ctx.trusted = ['rustc MIR', 'the book as the list of documented short-circuit functions']
    ev = mir.find(EVAL)
    efv = mir.find(EFV)
    efe = mir.find(EFE)
    r1 = ctx.rule('R07.1', 'TailCall constructed once, under tail_available ∧ callee=Value(cell) ∧ cell=LocalRecourse')
    if len(ev) != 1 or len(efv) != 1 or len(efe) != 1:
        r1.fail('anchor', '-', 'eval / eval_func_with_* not found')
        return
    ev, efv, efe = ev[0], efv[0], efe[0]
    sites = [x for x in mirq.aggregates(mir, TER, 'TailCall')]
    sites += [(b, bb, None, t) for b, bb, t, how in mirq.ctor_calls(mir, TER, 'TailCall')]
    if len(sites) != 1 or sites[0][0] is not ev:
        r1.inst({'sites': [s[0].id for s in sites]}, ok=False)
        r1.fail('TailCall/sites', '-', 'TailCall must be constructed exactly once, inside eval; found %s' % [s[0].id for s in sites])
    else:
        b, bb, j, s = sites[0]
        # decision table by abstract evaluation of eval on a Call expression: for every combination of (flag, kind of the callee
        # expression, kind of the callee's cell) what can eval return?  A tail self-call must become TailCall (or a propagated
        # failure of an argument evaluation) and nothing else; every other combination must never become TailCall.
        from .lib import absint
        from .lib.facts import callee_name
        vi = lambda adt, name: variant_index(mir, adt, name)
        XE, EC = 'xexpr::XExpr', 'runtime_scope::EvaluationCell'
        other_exprs = [v['name'] for v in mir.adts[XE]['variants'] if v['name'] not in ('Value', 'Call')]
        cells = [v['name'] for v in mir.adts[EC]['variants']]
        table = {}
        for flag in (True, False):
            for ck in ['Value', other_exprs[0], other_exprs[-1]]:
                for cell in (cells if ck == 'Value' else ['LocalRecourse']):
                    def oracle(tm, vals, env, cell=cell):
                        nm = strip_generics(callee_name(tm) or '')
                        if nm in (EFE, EFV):
                            return ('adt', 'ORDINARY', 'call')
                        if nm == EVAL:
                            return absint.UNKNOWN
                        if nm == 'runtime_scope::RuntimeScope::get_cell_value':
                            return ('ref', '#cell')
                        if re.search(r'(::as_ref|::deref|::borrow)$', nm) and vals:
                            v0 = vals[0]
                            if isinstance(v0, tuple) and v0 and v0[0] == 'ref':
                                d = absint.deref(None, env, v0)
                                if isinstance(d, tuple) and d and d[0] == 'box':
                                    return ('ref', d[1])
                            if isinstance(v0, tuple) and v0 and v0[0] == 'box':
                                return ('ref', v0[1])
                        return absint.UNKNOWN
                    env0 = {'_2': ('ref', '#expr'), '_4': flag,
                            '#expr': ('enum', vi(XE, 'Call'), 'Call', (('box', '#callee'), absint.UNKNOWN)),
                            '#callee': ('enum', vi(XE, ck), ck, (7,) if ck == 'Value' else (absint.UNKNOWN, absint.UNKNOWN, absint.UNKNOWN)),
                            '#cell': ('enum', vi(EC, cell), cell, (absint.UNKNOWN, absint.UNKNOWN))}
                    rs = absint.returns(mir, b, env0, oracle)
                    kinds = set()
                    for r in rs:
                        if isinstance(r, tuple) and r and r[0] == 'ok' and isinstance(r[1], tuple) and len(r[1]) > 2 and r[1][1] == 'TailedEvalResult' and r[1][2] == 'TailCall':
                            kinds.add('TailCall')
                        elif isinstance(r, tuple) and r and r[0] == 'err':
                            kinds.add('failure')
                        elif isinstance(r, tuple) and len(r) > 1 and r[1] == 'ORDINARY':
                            kinds.add('ordinary call')
                        else:
                            kinds.add('other')
                    table[(flag, ck, cell)] = kinds
        for key, kinds in sorted(table.items(), key=str):
            flag, ck, cell = key
            tail = flag and ck == 'Value' and cell == 'LocalRecourse'
            ok = ('TailCall' in kinds and kinds <= {'TailCall', 'failure'}) if tail else ('TailCall' not in kinds)
            r1.inst({'tail_flag': flag, 'callee_expression': ck, 'callee_cell': cell, 'eval_can_return': sorted(kinds)}, ok=ok, kind=key)
            if not ok:
                if tail:
                    r1.fail('TailCall/not-always', mirq.site(b, bb, j), 'a self-call in tail position (flag set, callee is the local recursion cell) can also end as %s: whether it is trampolined depends on something else, so stack depth and call counts differ between equivalent programs' % sorted(kinds - {'TailCall', 'failure'}))
                else:
                    missing = [n for n, c in (('flag', flag), ('callee_value', ck == 'Value'), ('local_recourse', cell == 'LocalRecourse')) if not c]
                    r1.fail('TailCall/guard', mirq.site(b, bb, j), 'TailCall can be produced without the condition(s): %s' % ', '.join(missing))
        # the argument evaluations of the tail call are not themselves in tail position
    # ---------------- R07.2 flow of the flag inside eval
    r2 = ctx.rule('R07.2', 'inside eval the flag reaches only the TailCall test and the Call-arm dispatch')
    uses = []
    flag_locals = {4}
    changed = True
    while changed:
        changed = False
        for i, j, s in ev.stmts():
            if s['k'] == 'assign' and s['rv']['k'] == 'use' and op_local(s['rv']['op']) in flag_locals and not s['place']['p'] and s['place']['l'] not in flag_locals:
                flag_locals.add(s['place']['l'])
                changed = True
    # a tuple built only to be matched, `match (tail_available, callee) { (true, ..) => .. }`, carries the flag in one field:
    # reading that field is reading the flag; the tuple as a whole must go nowhere else
    carriers = {}
    for i, j, s in ev.stmts():
        if s['k'] == 'assign' and s['rv']['k'] == 'agg' and s['rv'].get('ak') == 'tuple' and not s['place']['p']:
            ks = [k for k, o in enumerate(s['rv']['ops']) if op_local(o) in flag_locals]
            if ks:
                carriers[s['place']['l']] = set(ks)
    changed = True
    while changed:
        changed = False
        for i, j, s in ev.stmts():
            if s['k'] == 'assign' and s['rv']['k'] == 'use' and not s['place']['p'] and s['place']['l'] not in flag_locals:
                p = op_place(s['rv']['op'])
                if p is not None and p['l'] in carriers and len(p['p']) == 1 and isinstance(p['p'][0], dict) and p['p'][0].get('f') in carriers[p['l']]:
                    flag_locals.add(s['place']['l'])
                    changed = True
    for i, j, s in ev.stmts():
        if s['k'] == 'assign':
            if s['rv']['k'] == 'agg' and s['rv'].get('ak') == 'tuple' and s['place']['l'] in carriers:
                continue
            for m, p in mirq.places_in_stmt(s):
                if m != 'w' and p['l'] in flag_locals and not (s['rv']['k'] == 'use' and not s['place']['p']):
                    uses.append(('stmt', i, s['rv']['k']))
                if m != 'w' and p['l'] in carriers and not (len(p['p']) >= 1 and isinstance(p['p'][0], dict) and 'f' in p['p'][0]):
                    uses.append(('stmt', i, 'tuple carrying the flag used as a whole'))
                elif m != 'w' and p['l'] in carriers and p['p'][0].get('f') in carriers[p['l']] and not (s['rv']['k'] == 'use' and not s['place']['p']):
                    uses.append(('stmt', i, s['rv']['k']))
    for i, bl in enumerate(ev.blocks):
        t = bl['term']
        if t['k'] == 'switch' and op_local(t['discr']) in flag_locals:
            uses.append(('switch', i, None))
        if t['k'] == 'switch':
            dp = op_place(t['discr'])
            if dp is not None and dp['l'] in carriers and len(dp['p']) == 1 and isinstance(dp['p'][0], dict) and dp['p'][0].get('f') in carriers[dp['l']]:
                uses.append(('switch', i, None))
        if t['k'] == 'call':
            for a in t['args']:
                ap = op_place(a)
                if ap is not None and ap['l'] in carriers:
                    uses.append(('call', i, (strip_generics(t.get('callee') or t.get('decl') or ''), 'tuple carrying the flag')))
        if t['k'] == 'call':
            for ai, a in enumerate(t['args']):
                if op_local(a) in flag_locals:
                    uses.append(('call', i, (strip_generics(t.get('callee') or t.get('decl') or ''), ai)))
    for u in uses:
        ok = u[0] == 'switch' or (u[0] == 'call' and u[2] == (EFE, 4))
        r2.inst({'use': u[0], 'site': mirq.site(ev, u[1]), 'detail': u[2]}, ok=ok)
        if not ok:
            r2.fail('eval/flag-use', mirq.site(ev, u[1]), 'tail_available flows to %s: an operand evaluation inside eval would be treated as tail position' % (u[2],))
    r2.need(2)
    # every recursive eval inside eval passes the constant false
    for bb, t in ev.calls():
        nm = strip_generics(t.get('callee') or '')
        if nm == EVAL:
            k, v = mirq.chase_op(ev, t['args'][3])
            ok = k == 'const' and v.get('bool') is False
            r2.inst({'recursive_eval': mirq.site(ev, bb), 'flag': 'false' if ok else str(k)}, ok=ok, kind=('rec', bb))
            if not ok:
                r2.fail('eval/recursive-flag', mirq.site(ev, bb), 'a sub-expression is evaluated by eval with a flag other than the constant false')

    # ---------------- R07.3 / R07.4
    r3 = ctx.rule('R07.3', 'results of flagged evaluations flow only to the caller\'s return value')
    r4 = ctx.rule('R07.4', 'flag is the body\'s own parameter, applied to its own scope / argument slice')
    flagged = []
    for b in mir.bodies:
        for bb, t in b.calls():
            nm = strip_generics(t.get('callee') or '')
            if nm not in FLAG_IDX:
                continue
            k, v = mirq.chase_op(b, t['args'][FLAG_IDX[nm]])
            if k == 'const' and v.get('bool') is False:
                continue
            flagged.append((b, bb, t, nm, k, v))
    for b, bb, t, nm, k, v in flagged:
        trampoline = (b.nid, nm) == (EFV, EVAL)
        bad, reaches, S = forward_flow(b, t['dest']['l'], allow_match=trampoline)
        if trampoline:
            bad = [x for x in bad if not x[2].startswith('passed to') or True]
        ok = (not bad and reaches) or trampoline
        r3.inst({'body': b.id, 'site': mirq.site(b, bb), 'callee': nm.split('::')[-1], 'returned_unchanged': ok}, ok=ok, kind=(b.id, bb))
        if not ok:
            why = '; '.join(sorted({x[2] for x in bad})) or 'does not reach the return place'
            r3.fail('%s/%s' % (b.nid, nm.split('::')[-1]), mirq.site(b, bb), 'the result of an evaluation performed with a live tail flag is %s — a TailCall could be unwrapped or lost (the callee is not in tail position)' % why)
        # R07.4 provenance
        ok4 = True
        why4 = []
        if k == 'const':
            if (b.nid, nm) not in TRUE_SITES:
                ok4 = False
                why4.append('literal true flag outside the listed sites')
            else:
                r4.exempted('%s -> %s' % (b.nid, nm.split('::')[-1]), TRUE_SITES[(b.nid, nm)])
        elif k == 'arg':
            if b.local_ty(v) != 'bool':
                ok4 = False
                why4.append('flag parameter is not a bool')
        else:
            ok4 = False
            why4.append('flag is computed (%s), not the body\'s own parameter' % k)
        if not trampoline:
            # receiver scope must be the body's own scope parameter (or self for the evaluator's own methods)
            rk, rv_ = mirq.chase_op(b, t['args'][0])
            recv_ok = rk == 'arg' and 'runtime_scope::RuntimeScope' in b.local_ty(rv_)
            if not recv_ok:
                ok4 = False
                why4.append('the scope evaluated in is not the body\'s own scope parameter (%s)' % rk)
            if nm == EVAL and b.kind == 'closure':
                expr_ok, _ix = arg_elements(b, t['args'][1])
                if not expr_ok:
                    ok4 = False
                    why4.append('the expression is not an element of the body\'s own argument slice')
        r4.inst({'body': b.id, 'site': mirq.site(b, bb), 'flag': k if k != 'arg' else 'param#%d' % v}, ok=ok4, kind=(b.id, bb))
        if not ok4:
            r4.fail('%s/%s' % (b.nid, nm.split('::')[-1]), mirq.site(b, bb), '; '.join(why4))
    r3.need(15)
    r4.need(15)

    # ---------------- R07.5 trampoline & neutrality of eval_func_with_values
    r5 = ctx.rule('R07.5', 'trampoline loops on TailCall; eval_func_with_values never hands its flag to user code')
    # uses of EFV's flag parameter (arg 5): only as last argument of eval_func_with_expressions in the Native arm
    fl = {5}
    changed = True
    while changed:
        changed = False
        for i, j, s in efv.stmts():
            if s['k'] == 'assign' and s['rv']['k'] == 'use' and op_local(s['rv']['op']) in fl and not s['place']['p'] and s['place']['l'] not in fl:
                fl.add(s['place']['l'])
                changed = True
    vi_native = variant_index(mir, 'xvalue::XFunction', 'Native')
    for bb, t in efv.calls():
        for ai, a in enumerate(t['args']):
            if op_local(a) in fl:
                nm = strip_generics(t.get('callee') or t.get('decl') or '')
                conds = dominating_conditions(efv, bb)
                in_native = any(switch_subject(efv, d)[0] == 'discr' and switch_subject(efv, d)[2].startswith('xvalue::XFunction') and val == str(vi_native) for d, val in conds)
                # the args handed over are Dummy-wrapped values
                dummy = False
                if nm == EFE:
                    for bb2, t2 in efv.calls():
                        if strip_generics(t2.get('callee') or t2.get('decl') or '') == 'std::iter::Iterator::map':
                            c = t2['args'][1].get('const')
                            if c and strip_generics(c.get('fn') or '') == 'xexpr::XExpr::Dummy' and mirq.dominates(efv, bb2, bb):
                                dummy = True
                ok = nm == EFE and ai == 4 and in_native and dummy
                r5.inst({'site': mirq.site(efv, bb), 'use': nm.split('::')[-1], 'native_arm': in_native, 'dummy_args': dummy}, ok=ok)
                if not ok:
                    r5.fail('eval_func_with_values/flag-use', mirq.site(efv, bb), 'the flag of eval_func_with_values is used outside `Native arm -> eval_func_with_expressions(Dummy args)`')
    for i, bl in enumerate(efv.blocks):
        t = bl['term']
        if t['k'] == 'switch' and op_local(t['discr']) in fl:
            r5.fail('eval_func_with_values/flag-branch', mirq.site(efv, i), 'eval_func_with_values branches on its flag')
    # trampoline shape: the TailCall arm of the match on the body's result leads back to from_template
    tramp = [(bb, t) for bb, t in efv.calls() if strip_generics(t.get('callee') or '') == EVAL]
    ok = False
    if len(tramp) == 1:
        bb, t = tramp[0]
        bad, reaches, S = forward_flow(efv, t['dest']['l'], allow_match=True)
        vi_tc = variant_index(mir, TER, 'TailCall')
        cand = []
        for i, bl in enumerate(efv.blocks):
            tt = bl['term']
            if tt['k'] != 'switch' or bl['cleanup']:
                continue
            sub = switch_subject(efv, i)
            if sub[0] == 'discr' and sub[2].startswith(TER) and sub[1]['l'] in S:
                cand.append(i)
        # the match itself is the switch that dominates the later, drop-elaboration re-tests of the same discriminant
        first = [c for c in cand if all(c == o or mirq.dominates(efv, c, o) for o in cand)]
        for i in first:
            tt = efv.term(i)
            sub = switch_subject(efv, i)
            if True:
                tc_targets = [x for v, x in tt['targets'] if v == str(vi_tc)]
                other = [x for v, x in tt['targets'] if v != str(vi_tc)] + [tt['otherwise']]
                ft_blocks = [b2 for b2, t2 in efv.calls() if strip_generics(t2.get('callee') or '') == 'runtime_scope::RuntimeScope::from_template']
                if tc_targets and ft_blocks:
                    loops = all(fb in efv.reachable(tc_targets[0]) for fb in ft_blocks)
                    # the value arm returns: no from_template reachable
                    val_returns = all(not any(fb in efv.reachable(o) for fb in ft_blocks) for o in other if o != tc_targets[0] and efv.term(o)['k'] != 'unreachable')
                    ok = loops and val_returns
    r5.inst({'trampoline': 'match body_result { TailCall(args) => loop, v => return v }'}, ok=ok)
    if not ok:
        r5.fail('eval_func_with_values/trampoline', mirq.site(efv, 0), 'trampoline shape not recognised: TailCall arm must loop back to from_template, the other arm must return')
    # eval_func_with_expressions: Native arm passes the flag to the native; UserFunction arm evaluates args with false
    for bb, t in efe.calls():
        if strip_generics(t.get('callee') or '') == EVAL:
            k, v = mirq.chase_op(efe, t['args'][3])
            if not (k == 'const' and v.get('bool') is False):
                r5.fail('eval_func_with_expressions/arg-flag', mirq.site(efe, bb), 'argument evaluation with a live tail flag')
    for b in mir.bodies:
        if b.id.startswith(efe.id + '::{closure'):
            for bb, t in b.calls():
                if strip_generics(t.get('callee') or '') == EVAL:
                    k, v = mirq.chase_op(b, t['args'][3])
                    ok = k == 'const' and v.get('bool') is False
                    r5.inst({'site': mirq.site(b, bb), 'arg_eval_flag_false': ok}, ok=ok)
                    if not ok:
                        r5.fail('eval_func_with_expressions/arg-flag', mirq.site(b, bb), 'argument evaluation with a live tail flag')
    r5.need(3)

    # ---------------- R07.6 carriers
    r6 = ctx.rule('R07.6', 'documented short-circuit parameters returned unchanged are evaluated with the incoming flag')
    regs = astq.registrations(ctx.ast)
    flagged_by_top = {}
    for b, bb, t, nm, k, v in flagged:
        if nm != EVAL or k != 'arg':
            continue
        top = strip_generics(mir.enclosing_fn(b) or '')
        # possible constant indices of the evaluated argument
        _ok_el, idxs = arg_elements(b, t['args'][1])
        flagged_by_top.setdefault(top, set()).update(idxs)
    for sc in book.short_circuits(ctx.repo):
        if not sc.get('params'):
            r6.fail('book/%s' % sc['name'], '%s:%d' % (sc['file'], sc['line']), 'could not parse documented signature')
            continue
        stem = sc['file'].split('/')[-1][:-3]
        mod = BOOK_MODULE.get(stem, stem)
        cands = [g for g in regs if g['name'] == sc['name'] and g['file'] == 'src/builtin/%s.rs' % mod and g['method'] == 'add_func']
        # arity filter: number of parameter types in XFuncSpec::new(&[..]) / new_with_optional
        def arity(g):
            spec = g['args'][1] if len(g['args']) > 1 else None
            n = None
            def vis(nd, ps):
                nonlocal n
                if n is None and nd.get('k') == 'call' and nd['func'].get('k') == 'path' and nd['func']['path'].startswith('XFuncSpec::new'):
                    a0 = nd['args'][0]
                    inner = a0['expr'] if a0.get('k') == 'ref' else a0
                    if inner.get('k') == 'array':
                        n = len(inner['elems'])
                        if nd['func']['path'].endswith('new_with_optional'):
                            a1 = nd['args'][1]
                            inner1 = a1['expr'] if a1.get('k') == 'ref' else a1
                            n += len(inner1.get('elems', []))
            from .lib.facts import walk
            walk(spec, vis)
            return n
        cands = [g for g in cands if arity(g) == len(sc['params'])]
        if not cands:
            r6.inst({'doc': sc['name'], 'file': sc['file']}, ok=False)
            r6.fail('%s/%d/unregistered' % (sc['name'], len(sc['params'])), '%s:%d' % (sc['file'], sc['line']), 'documented short-circuit function has no native registration of that name and arity in builtin/%s.rs' % mod)
            continue
        for K in sc['sc']:
            unchanged = sc['types'][K].replace(' ', '') == sc['ret'].replace(' ', '')
            for g in cands:
                top = 'builtin::%s::%s' % (mod, g['fn'])
                fwd = K in flagged_by_top.get(top, set())
                if unchanged:
                    r6.inst({'function': sc['name'], 'param': sc['params'][K], 'native': top, 'forwards_flag': fwd}, ok=fwd, kind=(top, K))
                    if not fwd:
                        r6.fail('%s/%s' % (top, sc['params'][K]), '%s:%d' % (g['file'], g['line']),
                                'documented short-circuit parameter `%s` of `%s` is returned unchanged but evaluated without the tail flag: a tail self-call there consumes stack depth' % (sc['params'][K], sc['name']))
                else:
                    r6.inst({'function': sc['name'], 'param': sc['params'][K], 'native': top, 'post_processed': True, 'forwards_flag': fwd}, ok=True, kind=(top, K))
    r6.need(10)

    # ---------------- R07.7 a tail iteration enters the body through the same gate as an ordinary call (shared with R06.4)
    from . import c06
    r7 = ctx.rule('R07.7', 'every origin of the argument vector (parameter, TailCall payload) passes the erroring-argument test before the frame')
    c06.raise_gate(ctx, r7)
