"""C08 — depth / recursion / call / search limits are exact and transparent.
  R08.1  single door: frames of user functions are built, and their output expression read, only in eval_func_with_values
  R08.2  must-pass-through: increment_call_limit()? and check_timeout()? dominate every frame construction there;
         from_template tests the depth before any declaration is evaluated; height = parent.height + 1
  R08.3  who-reads / who-writes every limit field and counter (no other code branches on a limit)
  R08.4  exactness normal form of each limit comparison (counter OP limit, pre/post increment) vs the documented table
  R08.5  search budget: L permits then one violation; created per call, never stored
"""
import re
from .lib import mirq
from .lib.facts import strip_generics, op_local, op_place

FT = 'runtime_scope::RuntimeScope::from_template'
EFV = 'runtime_scope::RuntimeScope::eval_func_with_values'
ROOT_INST = 'root_runtime_scope::RootEvaluationScope::from_compilation_scope'
LIMITS = 'runtime::RuntimeLimits'

# documented comparison per limit: (violation variant, normalised operator "counter OP limit", counter description)
TABLE = {
    'depth_limit': ('MaximumStackDepth', 'Ge', 'field:height'),
    'ud_call_limit': ('MaximumUDCall', 'Ge', 'field:ud_calls'),
    'recursion_limit': ('MaximumRecursion', 'Gt', 'local'),
}
MIRROR = {'Ge': 'Le', 'Gt': 'Lt', 'Le': 'Ge', 'Lt': 'Gt', 'Eq': 'Eq', 'Ne': 'Ne'}


def field_names(p):
    return [e['n'] for e in p['p'] if isinstance(e, dict) and 'n' in e]


def is_limit_place(p, field):
    return any(isinstance(e, dict) and e.get('n') == field and e.get('adt') == LIMITS for e in p['p'])


def family(mir, body):
    """the body and the closures created (transitively) inside it"""
    out = [body]
    for b in mir.bodies:
        if b.kind == 'closure' and b.id.startswith(body.id + '::{closure'):
            out.append(b)
    return out


def limit_locals(mir, body, field, fam):
    """(body, local) pairs that hold the Some payload of RuntimeLimits.<field>"""
    res = set()
    for b in fam:
        for i, j, s in b.stmts():
            if s['k'] == 'assign' and s['rv']['k'] == 'use':
                p = op_place(s['rv']['op'])
                if p and is_limit_place(p, field) and any(isinstance(e, dict) and e.get('dc') == 'Some' for e in p['p']) and not s['place']['p']:
                    res.add((b.id, s['place']['l']))
        # closure parameter receiving the payload: Option::map_or / map / is_some_and / and_then / map_or_else on the field
        for bb, t in b.calls():
            nm = strip_generics(t.get('callee') or t.get('decl') or '')
            if re.match(r'^std::option::Option::(map_or|map|is_some_and|map_or_else|and_then|filter|iter)$', nm):
                k, v = mirq.chase_op(b, t['args'][0])
                src = None
                if k == 'rv' and v[2]['rv']['k'] == 'use':
                    src = op_place(v[2]['rv']['op'])
                elif k == 'place':
                    src = v
                if src and is_limit_place(src, field):
                    for a in t['args'][1:]:
                        k2, v2 = mirq.chase_op(b, a)
                        if k2 == 'rv' and v2[2]['rv']['k'] == 'agg' and v2[2]['rv'].get('ak') == 'closure':
                            res.add((v2[2]['rv']['def'], 2))
    return res


def describe(mir, b, op, fam_by_id, depth=6):
    """origin descriptor of a comparison operand"""
    if 'const' in op:
        return 'const:%s' % op['const'].get('int', op['const'].get('s'))
    p = op_place(op)
    if p is None:
        return 'unknown'
    fn = field_names(p)
    if fn:
        # upvar of a closure?
        if b.kind == 'closure' and p['l'] == 1 and isinstance(p['p'][0], (dict, str)):
            return describe_upvar(mir, b, p, fam_by_id, depth)
        return 'field:%s' % [n for n in fn if n not in ('0',)][-1] if [n for n in fn if n not in ('0',)] else 'field:0'
    k, v = mirq.chase(b, p['l'])
    if k == 'rv':
        rv = v[2]['rv']
        if rv['k'] in ('use',):
            pp = op_place(rv['op'])
            if pp is not None and depth > 0:
                if b.kind == 'closure' and pp['l'] == 1:
                    return describe_upvar(mir, b, pp, fam_by_id, depth)
                f2 = [n for n in field_names(pp) if n != '0']
                if f2:
                    return 'field:%s' % f2[-1]
        if rv['k'] in ('ref', 'copyderef'):
            pp = rv['place']
            if b.kind == 'closure' and pp['l'] == 1:
                return describe_upvar(mir, b, pp, fam_by_id, depth)
            f2 = [n for n in field_names(pp) if n != '0']
            if f2:
                return 'field:%s' % f2[-1]
        if rv['k'] == 'bin':
            return 'expr:%s' % rv['op']
        return 'rv:%s' % rv['k']
    if k == 'arg':
        return 'arg:%d' % v
    if k == 'multi':
        return 'local:%d' % v[0]
    if k == 'call':
        return 'call:%s' % strip_generics(v[1].get('callee') or v[1].get('decl') or '')
    return 'local:%d' % p['l']


def describe_upvar(mir, b, p, fam_by_id, depth):
    # p = (*_1).K ... : K-th captured value; find the creation site in the parent
    idx = None
    for e in p['p']:
        if isinstance(e, dict) and 'f' in e:
            idx = e['f']
            break
    parent = mir.by_id.get(b.parent)
    if parent is None or idx is None:
        return 'upvar'
    for (pb, i, j) in mirq.closure_creation_sites(mir, b.id):
        ops = pb.blocks[i]['stmts'][j]['rv']['ops']
        if idx < len(ops):
            return describe(mir, pb, ops[idx], fam_by_id, depth - 1)
    return 'upvar'


def is_limit_operand(b, op, fld, lim):
    """the operand is (a copy of / a reference to / a dereference of) the Some payload of RuntimeLimits.<fld>"""
    pp0 = op_place(op)
    if pp0 is None:
        return False
    if is_limit_place(pp0, fld):
        return True
    l = pp0['l'] if all(not isinstance(e, dict) for e in pp0['p']) else None
    seen_l = set()
    while l is not None and l not in seen_l:
        seen_l.add(l)
        if (b.id, l) in lim:
            return True
        ds = b.defs().get(l, [])
        if not ds:
            return False
        if len(ds) != 1 or ds[0][0] != 'stmt':
            return False
        rv = ds[0][3]['rv']
        if rv['k'] == 'use':
            pp = op_place(rv['op'])
        elif rv['k'] in ('ref', 'copyderef'):
            pp = rv['place']
        else:
            return False
        if pp is None:
            return False
        if is_limit_place(pp, fld):
            return True
        if any(isinstance(e, dict) for e in pp['p']):
            return False
        l = pp['l']
    return False


def defining_call(b, local, depth=10):
    """the call terminator that produced this local, through plain moves"""
    for _ in range(depth):
        k, v = mirq.chase(b, local)
        if k == 'call':
            return v[1]
        return None
    return None


def gate_functions(mir, gate):
    """the gate itself and every local function all of whose paths to a return pass a call of a gate function (wrappers)"""
    gates = {gate}
    changed = True
    while changed:
        changed = False
        for b in mir.bodies:
            if b.kind != 'fn' or b.nid in gates:
                continue
            gbs = [bb for bb, t in b.calls() if strip_generics(t.get('callee') or '') in gates]
            if not gbs:
                continue
            rets = [i for i, bl in enumerate(b.blocks) if bl['term']['k'] == 'return']
            # paths that end in an error of their own (`_0 = Err(..)`, `?` residual) are not the gate being skipped
            errs = [i for i, j, s in b.stmts() if s['k'] == 'assign' and s['place']['l'] == 0 and s['rv']['k'] == 'agg' and s['rv'].get('v') == 'Err']
            errs += [bb for bb, t in b.calls() if (t.get('callee') or t.get('decl') or '').endswith('from_residual') and t['dest']['l'] == 0]
            reach = b.reachable(0, avoid=gbs + errs)
            if not any(r in reach for r in rets):
                gates.add(b.nid)
                changed = True
    return gates


def private_helper_of(mir, b, allowed, depth=3):
    """is body b reachable only from the allowed mechanism bodies (a private helper extracted from them)?"""
    idx = mir.callers_index()
    seen = set()
    todo = [b.nid]
    for _ in range(depth + 1):
        nxt = []
        for n in todo:
            if n in seen:
                continue
            seen.add(n)
            callers = {c[0].nid.split('::{closure')[0] for c in idx.get(n, [])}
            if not callers:
                return False
            for c in callers:
                if c not in allowed:
                    nxt.append(c)
        if not nxt:
            return True
        todo = nxt
    return False


def run(ctx):
    mir = ctx.mir
    ctx.explanation = ('Structural clauses of the limit mechanism decided on resolved MIR for all bodies: single door to user frames, '
                       'must-pass-through of the counters before a frame exists, who reads/writes each limit and counter, and the normal form '
                       'of each limit comparison against the documented table.')
    ctx.trusted = ['rustc MIR', 'Iterator::take/chain/once/repeat_with semantics']
    ctx.assumptions = ['the reference depth/count of an arbitrary program equals the counters is NOT decided (needs an execution model)']
    efv = mir.find(EFV)
    ft = mir.find(FT)
    # ---------------- R08.1
    r1 = ctx.rule('R08.1', 'user frames are built / user output expressions read only in eval_func_with_values')
    if len(efv) != 1 or len(ft) != 1:
        r1.fail('anchor', '-', 'eval_func_with_values / from_template not found')
        return
    efv, ft = efv[0], ft[0]
    for b, bb, t in mir.call_sites(lambda n: n == FT):
        ok = b.nid in (EFV, ROOT_INST)
        r1.inst({'caller': b.id, 'site': mirq.site(b, bb)}, ok=ok)
        if not ok:
            r1.fail('%s/from_template' % b.nid, mirq.site(b, bb), 'a frame is instantiated outside eval_func_with_values: the call does not pass the call/depth/timeout counters')
    # function items passed as values would escape the call graph
    for b in mir.bodies:
        for bb, t in b.calls():
            for a in t['args']:
                c = a.get('const')
                if c and strip_generics(c.get('fn') or '') == FT:
                    r1.fail('%s/from_template-as-value' % b.nid, mirq.site(b, bb), 'from_template passed as a function value')
    allowed_output_readers = {EFV, '<xvalue::XFunction as std::clone::Clone>::clone'}
    for b, bb, j, mode, p in mirq.field_accesses(mir, 'xvalue::XFunction', 'output'):
        ok = b.nid in allowed_output_readers
        r1.inst({'reader': b.id, 'site': mirq.site(b, bb)}, ok=ok, kind=(b.id, 'output'))
        if not ok:
            r1.fail('%s/output-read' % b.nid, mirq.site(b, bb), 'the output expression of a user function is read outside eval_func_with_values (possible uncounted evaluation)')
    # the template's own copy of the output expression is only used to rebuild a function value
    for b, bb, j, mode, p in mirq.field_accesses(mir, 'runtime_scope::RuntimeScopeTemplate', 'output'):
        ok = b.nid in ('runtime_scope::RuntimeScopeTemplate::to_function',)
        r1.inst({'reader': b.id, 'site': mirq.site(b, bb)}, ok=ok, kind=(b.id, 'toutput'))
        if not ok:
            r1.fail('%s/template-output-read' % b.nid, mirq.site(b, bb), 'RuntimeScopeTemplate.output read outside to_function')
    r1.need(4)

    # ---------------- R08.2
    r2 = ctx.rule('R08.2', 'counters and depth test dominate frame construction / declaration evaluation')

    def gate_blocks(body, gate):
        """call blocks of the gate (or of a wrapper all of whose paths pass it) whose result is tested / propagated"""
        gs = gate_functions(mir, gate)
        ks = []
        for bb, t in body.calls():
            if strip_generics(t.get('callee') or '') in gs and not t['dest']['p']:
                cons = mirq.consumers(mir, body, t['dest']['l'], depth=0)
                if '<discriminant test>' in cons or any(c.endswith('::branch') for c in cons):
                    ks.append(bb)
        return ks, gs
    incs, inc_gates = gate_blocks(efv, 'runtime::Runtime::increment_call_limit')
    tmo, _tg = gate_blocks(efv, 'runtime::Runtime::check_timeout')
    for bb, t in efv.calls():
        if strip_generics(t.get('callee') or '') != FT:
            continue
        ok1 = any(mirq.dominates(efv, k, bb) for k in incs)
        ok2 = any(mirq.dominates(efv, k, bb) for k in tmo)
        r2.inst({'site': mirq.site(efv, bb), 'increment_call_limit?': ok1, 'check_timeout?': ok2}, ok=ok1 and ok2)
        if not ok1:
            r2.fail('eval_func_with_values/no-call-count', mirq.site(efv, bb), 'a user frame is built on a path that has not passed increment_call_limit()?')
        if not ok2:
            r2.fail('eval_func_with_values/no-timeout', mirq.site(efv, bb), 'a user frame is built on a path that has not passed check_timeout()?')
    # the call counter is bumped once per call, outside the trampoline loop (tail iterations are bounded by the recursion limit only)
    for bb, t in efv.calls():
        if strip_generics(t.get('callee') or '') in inc_gates:
            in_loop = bb in efv.reachable(efv.term(bb)['target'])
            r2.inst({'site': mirq.site(efv, bb), 'inside_loop': in_loop}, ok=not in_loop)
            if in_loop:
                r2.fail('eval_func_with_values/count-in-loop', mirq.site(efv, bb), 'increment_call_limit is inside the trampoline loop: tail self-calls would consume the call budget')
    # from_template: depth test before any evaluation
    viol = [(i, j) for i, j, s in ft.stmts() if s['k'] == 'assign' and s['rv']['k'] == 'agg' and s['rv'].get('adt') == 'runtime_violation::RuntimeViolation' and s['rv']['v'] == 'MaximumStackDepth']
    if len(viol) != 1:
        r2.fail('from_template/depth-site', mirq.site(ft, 0), 'expected exactly one MaximumStackDepth construction in from_template, found %d' % len(viol))
    else:
        vb = viol[0][0]
        fam_ft = family(mir, ft)
        lim_ft = limit_locals(mir, ft, 'depth_limit', fam_ft)
        # test blocks of from_template: the block holding the comparison against the limit, or the call that runs the closure
        # holding it (Option::map_or / is_some_and / ..)
        tests = set()
        for b2 in fam_ft:
            for i2, j2, s2 in b2.stmts():
                if s2['k'] == 'assign' and s2['rv']['k'] == 'bin' and s2['rv']['op'] in MIRROR:
                    if is_limit_operand(b2, s2['rv']['a'], 'depth_limit', lim_ft) != is_limit_operand(b2, s2['rv']['b'], 'depth_limit', lim_ft):
                        if b2 is ft:
                            tests.add(i2)
                        else:
                            for (pb, ci, cj) in mirq.closure_creation_sites(mir, b2.id):
                                if pb is ft:
                                    cl = pb.blocks[ci]['stmts'][cj]['place']['l']
                                    for cbb, ct in ft.calls():
                                        if any(op_local(a) == cl for a in ct['args']):
                                            tests.add(cbb)
        # edges taken when no depth limit is configured: None target of a switch on the discriminant of the limit option
        none_edges = set()
        for i2 in range(len(ft.blocks)):
            tm2 = ft.term(i2)
            if tm2['k'] != 'switch':
                continue
            dl2 = op_local(tm2['discr'])
            for kind2, bb2, idx2, x2 in ft.defs().get(dl2, []) if dl2 is not None else []:
                if kind2 == 'stmt' and x2['rv']['k'] == 'discr' and is_limit_place(x2['rv']['place'], 'depth_limit'):
                    tg = dict((int(v), x) for v, x in tm2['targets'])
                    none_t = tg.get(0, tm2['otherwise'] if 1 in tg else None)
                    if none_t is not None:
                        none_edges.add((i2, none_t))
        if not tests:
            r2.fail('from_template/depth-switch', mirq.site(ft, vb), 'no comparison of the frame height with depth_limit found in from_template')
        else:
            # reachable from entry without passing a test block and without taking a "no limit configured" edge
            seen_b = set()
            todo_b = [0]
            while todo_b:
                cur = todo_b.pop()
                if cur in seen_b or cur in tests:
                    continue
                seen_b.add(cur)
                for nx in ft.succs()[cur]:
                    if (cur, nx) not in none_edges:
                        todo_b.append(nx)
            evaluators = []
            for bb, c in ft.calls():
                nm = strip_generics(c.get('callee') or c.get('decl') or '')
                if nm in ('runtime_scope::RuntimeScope::eval', 'xexpr::XStaticFunction::to_function', 'xvalue::ManagedXValue::new', 'runtime_scope::TemplatedEvaluationCell::put') or (c.get('callee') is None and 'Fn' in nm):
                    evaluators.append((bb, nm))
            for bb, nm in evaluators:
                ok = bb not in seen_b
                r2.inst({'site': mirq.site(ft, bb), 'call': nm, 'after_depth_test': ok}, ok=ok, kind=(bb, nm))
                if not ok:
                    r2.fail('from_template/eval-before-depth-test', mirq.site(ft, bb), '%s can run before the depth test' % nm)
            if len(evaluators) < 4:
                r2.fail('from_template/evaluators', mirq.site(ft, 0), 'fewer declaration-evaluation sites than confirmed by hand (anchor lost)')
    # height = parent.height + 1, or 0 without a stack parent: the leaves of the value stored in the frame's `height` field
    def leaves(b2, op, depth=6):
        """[(kind, detail)] of the values an operand can take: through moves, several definitions, and Option::map_or(default, closure)"""
        out = []
        pl = op_place(op)
        if pl is None:
            return [('const', op.get('const', {}).get('s'))]
        if pl['p']:
            return [('place', describe(mir, b2, op, None))]
        aliases, origins = mirq.move_origins(b2, pl['l'])
        for obb, idx, kind, payload in origins:
            if kind == 'call':
                nm = strip_generics(payload.get('callee') or payload.get('decl') or '')
                if nm in ('std::option::Option::map_or', 'std::option::Option::map_or_else') and depth > 0:
                    k1, v1 = mirq.chase_op(b2, payload['args'][1])
                    if nm.endswith('map_or'):
                        out += leaves(b2, payload['args'][1], depth - 1)
                    elif k1 == 'rv' and v1[2]['rv'].get('ak') == 'closure':
                        cb = mir.by_id.get(v1[2]['rv']['def'])
                        if cb is not None:
                            out += leaves(cb, {'move': {'l': 0, 'p': []}}, depth - 1)
                    k2, v2 = mirq.chase_op(b2, payload['args'][2])
                    if k2 == 'rv' and v2[2]['rv'].get('ak') == 'closure':
                        cb = mir.by_id.get(v2[2]['rv']['def'])
                        if cb is not None:
                            out += leaves(cb, {'move': {'l': 0, 'p': []}}, depth - 1)
                elif nm == '<units::StackDepth as std::ops::Add>::add':
                    a0 = describe(mir, b2, payload['args'][0], None)
                    k1, v1 = mirq.chase_op(b2, payload['args'][1])
                    one = (k1 == 'rv' and v1[2]['rv']['k'] == 'agg' and v1[2]['rv'].get('adt') == 'units::StackDepth' and v1[2]['rv']['ops'][0].get('const', {}).get('int') == '1')
                    out.append(('add', '%s + %s' % (a0, 'StackDepth(1)' if one else '?')))
                else:
                    out.append(('call', nm))
            elif kind == 'rv' and payload['rv']['k'] == 'agg' and payload['rv'].get('adt') == 'units::StackDepth':
                out.append(('depth', payload['rv']['ops'][0].get('const', {}).get('int')))
            elif kind == 'param':
                out.append(('param', payload))
            else:
                out.append((kind, 'other'))
        return out
    hl = []
    for i2, j2, s2 in ft.stmts():
        if s2['k'] == 'assign' and s2['rv']['k'] == 'agg' and (s2['rv'].get('adt') or '').endswith('runtime_scope::RuntimeScope'):
            adt = mir.adts.get(s2['rv']['adt']) or mir.adts.get('runtime_scope::RuntimeScope')
            names = [f['name'] for f in adt['variants'][0]['fields']] if adt else []
            if 'height' in names:
                hl = leaves(ft, s2['rv']['ops'][names.index('height')])
    hok = bool(hl) and set(hl) <= {('depth', '0'), ('add', 'field:height + StackDepth(1)')} and ('add', 'field:height + StackDepth(1)') in hl
    r2.inst({'height': 'parent.height + StackDepth(1) | StackDepth(0)', 'leaves': sorted('%s:%s' % x for x in set(hl))}, ok=hok)
    if not hok:
        r2.fail('from_template/height', mirq.site(ft, 0), 'frame height is no longer parent.height + 1 (or 0 without a parent): %s' % sorted('%s:%s' % x for x in set(hl)))
    # the frame's stack parent is the calling scope
    for bb, t in efv.calls():
        if strip_generics(t.get('callee') or '') == FT:
            k, v = mirq.chase_op(efv, t['args'][1])
            ok = k == 'rv' and v[2]['rv']['k'] == 'agg' and v[2]['rv'].get('v') == 'Some' and mirq.chase_op(efv, v[2]['rv']['ops'][0]) == ('arg', 1)
            r2.inst({'site': mirq.site(efv, bb), 'stack_parent': 'Some(self)'}, ok=ok)
            if not ok:
                r2.fail('eval_func_with_values/stack-parent', mirq.site(efv, bb), 'the new frame is not given Some(self) as its stack parent (depth would not count nesting)')
    r2.need(8)

    # ---------------- R08.3 who reads / writes
    r3 = ctx.rule('R08.3', 'each limit field / counter is read and written only by its mechanism')
    READERS = {
        'depth_limit': {FT},
        'recursion_limit': {EFV},
        'ud_call_limit': {'runtime::Runtime::increment_call_limit'},
        'maximum_search': {'runtime::RuntimeLimits::search_iter'},
        'time_limit': {'runtime::Runtime::reset_timeout', 'runtime::RuntimeLimits::to_runtime'},
    }
    for fld, allowed in READERS.items():
        n = 0
        for b, bb, j, mode, p in mirq.field_accesses(mir, LIMITS, fld):
            if b.get('impl_trait') in ('std::fmt::Debug', 'std::default::Default'):
                continue
            n += 1
            base_nid = b.nid.split('::{closure')[0]
            ok = (base_nid in allowed or private_helper_of(mir, mir.by_nid.get(base_nid, [b])[0], allowed)) and mode == 'r'
            r3.inst({'field': fld, 'body': b.id, 'mode': mode}, ok=ok, kind=(fld, b.id, mode))
            if not ok:
                r3.fail('%s/%s' % (b.nid, fld), mirq.site(b, bb), 'limit field %s is %s outside its mechanism: evaluation could depend on the limit other than through its violation' % (fld, 'written' if mode != 'r' else 'read'))
        if n == 0:
            r3.fail('anchor/%s' % fld, '-', 'no access to limit field %s found' % fld)
    WRITERS = {'runtime::Runtime::increment_call_limit': 'inc', 'runtime::Runtime::reset_ud_calls': 'zero', 'runtime::Runtime::reset_call_limit': 'zero'}
    for b, bb, j, mode, p in mirq.field_accesses(mir, 'runtime::RuntimeStats', 'ud_calls'):
        if b.get('impl_trait') == 'std::fmt::Debug':
            continue
        if mode == 'r':
            ok = b.nid == 'runtime::Runtime::increment_call_limit'
            r3.inst({'field': 'ud_calls', 'body': b.id, 'mode': 'r'}, ok=ok, kind=('ud_calls', b.id, 'r'))
            if not ok:
                r3.fail('%s/ud_calls-read' % b.nid, mirq.site(b, bb), 'the call counter is read outside increment_call_limit')
            continue
        what = WRITERS.get(b.nid)
        ok = what is not None
        if ok and j is not None:
            s = b.blocks[bb]['stmts'][j]
            if what == 'zero':
                ok = s['rv']['k'] == 'use' and s['rv']['op'].get('const', {}).get('int') == '0'
            else:
                # (*stats).ud_calls = move _tmp.0 where _tmp = AddWithOverflow(ud_calls, 1)
                k, v = ('none', None)
                pl = op_place(s['rv'].get('op', {})) if s['rv']['k'] == 'use' else None
                ok = False
                if pl is not None:
                    for kind, dbb, didx, x in b.defs().get(pl['l'], []):
                        if kind == 'stmt' and x['rv']['k'] == 'bin' and x['rv']['op'] in ('AddWithOverflow', 'Add') and x['rv']['b'].get('const', {}).get('int') == '1':
                            pa = op_place(x['rv']['a'])
                            ok = pa is not None and 'ud_calls' in field_names(pa)
        r3.inst({'field': 'ud_calls', 'body': b.id, 'mode': 'write', 'kind': what}, ok=ok, kind=('ud_calls', b.id, 'w'))
        if not ok:
            r3.fail('%s/ud_calls-write' % b.nid, mirq.site(b, bb), 'the call counter is written here; only `+= 1` in increment_call_limit and `= 0` in the two host resets are allowed')
    for name in ('runtime::Runtime::reset_ud_calls', 'runtime::Runtime::reset_call_limit'):
        if len(mir.find(name)) != 1:
            r3.fail('anchor/%s' % name, '-', 'host reset %s not found' % name)
    r3.need(12)

    # ---------------- R08.4 exactness normal form
    r4 = ctx.rule('R08.4', 'limit comparisons have the documented normal form (counter OP limit)')
    for fld, (variant, want_op, want_counter) in TABLE.items():
        sites = [x for x in mirq.aggregates(mir, 'runtime_violation::RuntimeViolation', variant) if x[0].get('impl_trait') != 'std::clone::Clone']
        if len(sites) != 1:
            r4.inst({'limit': fld}, ok=False)
            r4.fail('%s/violation-sites' % fld, '-', 'expected exactly one construction of %s, found %d' % (variant, len(sites)))
            continue
        vb_body, vbb, vj, vs = sites[0]
        fam = family(mir, vb_body)
        fam_by_id = {b.id: b for b in fam}
        lim = limit_locals(mir, vb_body, fld, fam)
        cmps = []
        for b in fam:
            for i, j, s in b.stmts():
                if s['k'] == 'assign' and s['rv']['k'] == 'bin' and s['rv']['op'] in MIRROR:
                    la = op_local(s['rv']['a'])
                    lb = op_local(s['rv']['b'])

                    a_lim, b_lim = is_limit_operand(b, s['rv']['a'], fld, lim), is_limit_operand(b, s['rv']['b'], fld, lim)
                    if a_lim == b_lim:
                        continue
                    op = s['rv']['op'] if b_lim else MIRROR[s['rv']['op']]
                    counter = describe(mir, b, s['rv']['a'] if b_lim else s['rv']['b'], fam_by_id)
                    cmps.append((b, i, j, op, counter))
        if len(cmps) != 1:
            r4.inst({'limit': fld, 'comparisons': len(cmps)}, ok=False)
            r4.fail('%s/comparison' % fld, mirq.site(vb_body, vbb), 'expected exactly one comparison against %s in %s, found %d (unrecognised shape)' % (fld, vb_body.nid, len(cmps)))
            continue
        b, i, j, op, counter = cmps[0]
        NEG = {'Ge': 'Lt', 'Gt': 'Le', 'Le': 'Gt', 'Lt': 'Ge', 'Eq': 'Ne', 'Ne': 'Eq'}
        # on which edge of the comparison does the violation lie?  (in the comparing body itself, or -- when the comparison is
        # the value of a closure -- on the edges of the test of Option::map_or(false, closure) / is_some_and(closure))
        cmp_local = b.blocks[i]['stmts'][j]['place']['l']
        pol = None      # True: violation on the true edge; False: on the false edge; None: unrecognised
        negs = 0
        sw_body, sw_block, res_local = b, i, cmp_local
        if b is not vb_body:
            ret_ok = any(s2['k'] == 'assign' and s2['place']['l'] == 0 and s2 is b.blocks[i]['stmts'][j] for _, _, s2 in b.stmts())
            res_local = None
            if ret_ok:
                for bb2, t2 in vb_body.calls():
                    nm = strip_generics(t2.get('callee') or t2.get('decl') or '')
                    if nm in ('std::option::Option::map_or', 'std::option::Option::is_some_and'):
                        cl_arg = t2['args'][2] if nm.endswith('map_or') else t2['args'][1]
                        k2, v2 = mirq.chase_op(vb_body, cl_arg)
                        dflt_false = nm.endswith('is_some_and') or t2['args'][1].get('const', {}).get('bool') is False
                        if k2 == 'rv' and v2[2]['rv'].get('def') == b.id and dflt_false:
                            sw_body, sw_block, res_local = vb_body, t2['target'], t2['dest']['l']
        if res_local is not None:
            # on which side of that boolean does the violation lie?  (constant propagation over booleans: Not, moves, the
            # true / false assigned in the arms of a match or matches!, && / ||)
            if sw_body is b and res_local == cmp_local:
                pol = mirq.bool_polarity(sw_body, res_local, i, j, vbb)
            else:
                # the value returned by Option::map_or / is_some_and in the body that raises the violation
                call_bb = [bb2 for bb2, t2 in sw_body.calls() if t2.get('target') == sw_block and t2['dest']['l'] == res_local]
                pol = mirq.bool_polarity(sw_body, res_local, call_bb[0], None, vbb) if call_bb else None
        if pol is not None and negs % 2 == 1:
            pol = not pol
        eff = op if pol in (True, None) else NEG[op]
        ok_op = pol is not None and eff == want_op
        # the counter: a field, a local of the comparing body, or -- when the comparison sits in a helper -- the argument at
        # its call sites
        cb, ci, ccounter = b, i, counter
        if counter.startswith('arg:') and b.kind == 'fn':
            n_arg = int(counter.split(':')[1])
            sites = list({(c[0].id, c[1]): (c[0], c[1], c[2]) for c in mir.callers_index().get(b.nid, [])}.values())
            if len(sites) == 1 and n_arg - 1 < len(sites[0][2]['args']):
                cb, ci = sites[0][0], sites[0][1]
                ccounter = describe(mir, cb, sites[0][2]['args'][n_arg - 1], fam_by_id)
                pl0 = op_place(sites[0][2]['args'][n_arg - 1])
                if pl0 is not None and not pl0['p']:
                    aliases0, _o = mirq.move_origins(cb, pl0['l'])
                    named = [x for x in aliases0 if cb.name_of_local(x)]
                    if named:
                        ccounter = 'local:%d' % named[0]
        ok_counter = ccounter == want_counter or (want_counter == 'local' and ccounter.startswith('local:'))
        detail = {'limit': fld, 'normal_form': 'violation iff counter(%s) %s limit => %s' % (ccounter, eff, variant), 'site': mirq.site(b, i, j)}
        # pre/post increment discipline
        inc_ok = True
        if fld == 'ud_call_limit':
            # the write of ud_calls (+1) dominates the comparison block
            wr = [bb2 for bb2, j2, s2 in ((x, y, z) for x, y, z in b.stmts()) if s2['k'] == 'assign' and 'ud_calls' in field_names(s2['place'])]
            inc_ok = any(mirq.dominates(b, w, i) for w in wr)
            detail['increment_before_compare'] = inc_ok
        if fld == 'recursion_limit':
            # counter local: initialised to 0 before the loop, +1 on the TailCall arm dominating the comparison (or the call of the helper)
            l = int(ccounter.split(':')[1]) if ccounter.startswith('local:') else None
            init0 = inc1 = False
            incb = None
            if l is not None:
                for kind, dbb, didx, x in cb.defs().get(l, []):
                    if kind == 'stmt' and x['rv']['k'] == 'use' and x['rv']['op'].get('const', {}).get('int') == '0':
                        init0 = True
                    if kind == 'stmt' and x['rv']['k'] == 'use':
                        pp = op_place(x['rv']['op'])
                        if pp is not None:
                            for kind2, dbb2, didx2, x2 in cb.defs().get(pp['l'], []):
                                if kind2 == 'stmt' and x2['rv']['k'] == 'bin' and x2['rv']['op'] in ('AddWithOverflow', 'Add') and op_local(x2['rv']['a']) == l and x2['rv']['b'].get('const', {}).get('int') == '1':
                                    inc1 = True
                                    incb = dbb
            inc_ok = init0 and inc1 and incb is not None and mirq.dominates(cb, incb, ci)
            detail['counter_init0_inc1_before_compare'] = inc_ok
        ok = ok_op and ok_counter and inc_ok
        r4.inst(detail, ok=ok, kind=fld)
        if pol is None:
            r4.fail('%s/polarity' % fld, mirq.site(b, i, j), 'unrecognised connection between the comparison against %s and its violation' % fld)
        elif not ok_op:
            r4.fail('%s/operator' % fld, mirq.site(b, i, j), 'limit %s raises its violation iff `counter %s limit`; the documented boundary is `%s`' % (fld, eff, want_op))
        if not ok_counter:
            r4.fail('%s/counter' % fld, mirq.site(b, i, j), 'limit %s is compared with %s, expected %s' % (fld, ccounter, want_counter))
        if not inc_ok:
            r4.fail('%s/increment' % fld, mirq.site(b, i, j), 'the counter of %s is not incremented by one before being compared (off-by-one)' % fld)
        r4.inst({'limit': fld, 'violation_edge': 'true' if pol else 'false' if pol is False else '?'}, ok=pol is not None)
    r4.need(6)

    # ---------------- R08.5 search budget
    r5 = ctx.rule('R08.5', 'search budget = L permits then MaximumSearch; created per call and never stored')
    si = mir.find('runtime::RuntimeLimits::search_iter')
    if len(si) != 1:
        r5.fail('anchor/search_iter', '-', 'search_iter not found')
    else:
        fam = family(mir, si[0])
        names = []
        for b in fam:
            for bb, t in b.calls():
                names.append((b, bb, strip_generics(t.get('callee') or t.get('decl') or ''), t))
        take = [(b, bb, t) for b, bb, n, t in names if n == 'std::iter::Iterator::take']
        chain = [(b, bb, t) for b, bb, n, t in names if n == 'std::iter::Iterator::chain']
        once = [(b, bb, t) for b, bb, n, t in names if n == 'std::iter::once']
        ok = len(take) == 1 and len(chain) == 1 and len(once) == 1
        if ok:
            tb, tbb, tt = take[0]
            # take(n): n is the closure's parameter = payload of maximum_search
            lim = limit_locals(mir, si[0], 'maximum_search', fam)
            k, v = mirq.chase_op(tb, tt['args'][1])
            ok = (k == 'arg' and (tb.id, v) in lim) or is_limit_operand(tb, tt['args'][1], 'maximum_search', lim)
            # chain(take_result, once(Err(MaximumSearch)))
            cb, cbb, ct = chain[0]
            c0 = defining_call(cb, op_local(ct['args'][0])) if op_local(ct['args'][0]) is not None else None
            c1 = defining_call(cb, op_local(ct['args'][1])) if op_local(ct['args'][1]) is not None else None
            ok = ok and c0 is tt and c1 is once[0][2]
            k2, v2 = mirq.chase_op(cb, once[0][2]['args'][0])
            ok = ok and k2 == 'rv' and v2[2]['rv'].get('v') == 'Err'
            # the repeated element is Ok(())
        viol = [x for x in mirq.aggregates(mir, 'runtime_violation::RuntimeViolation', 'MaximumSearch') if x[0].get('impl_trait') != 'std::clone::Clone']
        ok = ok and len(viol) == 1 and viol[0][0].id.startswith(si[0].id)
        r5.inst({'shape': 'repeat_with(Ok).take(maximum_search).chain(once(Err(MaximumSearch)))'}, ok=ok)
        if not ok:
            r5.fail('search_iter/shape', mirq.site(si[0], 0), 'search_iter is no longer `L permits, then exactly one MaximumSearch violation`')
    # never stored: no ADT field of the crate can hold an iterator / the budget
    for aid, a in mir.adts.items():
        for v in a['variants']:
            for f in v['fields']:
                if re.search(r'dyn .*Iterator|std::iter::|impl Iterator|itertools::Either<std::iter', f['ty']):
                    r5.fail('%s/%s' % (aid, f['name']), a['span'], 'a struct field can hold an iterator: a search budget could be cached across calls')
    users = list(mir.call_sites(lambda n: n == 'runtime::RuntimeLimits::search_iter'))
    for b, bb, t in users:
        r5.inst({'user': b.id, 'site': mirq.site(b, bb)}, kind=b.id)
    r5.need(5)

    sentinel_not_charged(ctx)


def sentinel_not_charged(ctx):
    """R08.6: the search limit counts the elements a searching builtin examines.  Where an adaptor pairs its source with the search
    budget (`zip(search_iter())`), the thing paired is the source itself: an end-of-input marker chained onto the source
    (`.chain(once(None))`) *before* the zip takes a permit of its own, so an input of exactly L elements fails at L although only
    L elements are examined.  Decided on the type of the zipped operand: it contains no `Once` chained behind the source."""
    mir = ctx.mir
    r6 = ctx.rule('R08.6', 'an end-of-input sentinel is not paired with a search permit')
    bs = mir.find('runtime::RuntimeLimits::search_iter')
    bty = (bs[0].locals[0]['ty'] if len(bs) == 1 else '') or ''
    n = 0
    for b in mir.bodies:
        if not b.file.startswith('src/builtin/') or '::tests::' in b.nid:
            continue
        for bb, t in b.calls():
            if strip_generics(t.get('decl') or '') != 'std::iter::Iterator::zip' or len(t.get('argtys') or []) < 2:
                continue
            a0, a1 = t['argtys'][0], t['argtys'][1]
            if not (bty and bty.lstrip('&').strip() in a1) and not ('RuntimeViolation' in a1 and 'std::result::Result<(), ' in a1):
                continue
            n += 1
            from .lib.types import split_generic
            head0, args0 = split_generic(a0.strip())
            sentinel = head0 == 'std::iter::Chain' and len(args0) == 2 and split_generic(args0[1].strip())[0] in ('std::iter::Once', 'std::iter::OnceWith', 'std::option::IntoIter')
            fn = strip_generics(mir.enclosing_fn(b)) if b.kind == 'closure' else b.nid
            r6.inst({'fn': fn, 'site': mirq.site(b, bb), 'sentinel_chained_before_the_zip': sentinel}, ok=not sentinel, kind=(b.nid, bb))
            if sentinel:
                r6.fail('%s/sentinel-takes-a-permit' % fn.split('::')[-1], mirq.site(b, bb), 'the source is extended by an end-of-input marker before it is zipped with the search budget: the marker consumes a permit, so an input of exactly L elements ends in MaximumSearch ([3,6,9,2,1,3,1,7].to_generator().group(..).to_array() fails under maximum_search = 8 and passes under 9)')
    r6.need(5)
