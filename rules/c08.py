"""C08 — depth / recursion / call / search limits are exact and transparent.
  R08.1  single door: frames of user functions are built, and their output expression read, only in eval_func_with_values
  R08.2  must-pass-through: increment_call_limit()? and check_timeout()? dominate every frame construction there;
         from_template tests the depth before any declaration is evaluated; height = parent.height + 1
  R08.3  who-reads / who-writes every limit field and counter (no other code branches on a limit)
  R08.4  exactness normal form of each limit comparison (counter OP limit, pre/post increment) vs the documented table
  R08.5  search budget: L permits then one violation; created per call, never stored
"""
import re
from .lib import mirq
from .lib.facts import strip_generics, op_local, op_place

FT = 'runtime_scope::RuntimeScope::from_template'
EFV = 'runtime_scope::RuntimeScope::eval_func_with_values'
ROOT_INST = 'root_runtime_scope::RootEvaluationScope::from_compilation_scope'
LIMITS = 'runtime::RuntimeLimits'

# documented comparison per limit: (violation variant, normalised operator "counter OP limit", counter description)
TABLE = {
    'depth_limit': ('MaximumStackDepth', 'Ge', 'field:height'),
    'ud_call_limit': ('MaximumUDCall', 'Ge', 'field:ud_calls'),
    'recursion_limit': ('MaximumRecursion', 'Gt', 'local'),
}
MIRROR = {'Ge': 'Le', 'Gt': 'Lt', 'Le': 'Ge', 'Lt': 'Gt', 'Eq': 'Eq', 'Ne': 'Ne'}


def field_names(p):
    return [e['n'] for e in p['p'] if isinstance(e, dict) and 'n' in e]


def is_limit_place(p, field):
    return any(isinstance(e, dict) and e.get('n') == field and e.get('adt') == LIMITS for e in p['p'])


def family(mir, body):
    """the body and the closures created (transitively) inside it"""
    out = [body]
    for b in mir.bodies:
        if b.kind == 'closure' and b.id.startswith(body.id + '::{closure'):
            out.append(b)
    return out


def limit_locals(mir, body, field, fam):
    """(body, local) pairs that hold the Some payload of RuntimeLimits.<field>"""
    res = set()
    for b in fam:
        for i, j, s in b.stmts():
            if s['k'] == 'assign' and s['rv']['k'] == 'use':
                p = op_place(s['rv']['op'])
                if p and is_limit_place(p, field) and any(isinstance(e, dict) and e.get('dc') == 'Some' for e in p['p']) and not s['place']['p']:
                    res.add((b.id, s['place']['l']))
        # closure parameter receiving the payload: Option::map_or / map / is_some_and / and_then / map_or_else on the field
        for bb, t in b.calls():
            nm = strip_generics(t.get('callee') or t.get('decl') or '')
            if re.match(r'^std::option::Option::(map_or|map|is_some_and|map_or_else|and_then|filter|iter)$', nm):
                k, v = mirq.chase_op(b, t['args'][0])
                src = None
                if k == 'rv' and v[2]['rv']['k'] == 'use':
                    src = op_place(v[2]['rv']['op'])
                elif k == 'place':
                    src = v
                if src and is_limit_place(src, field):
                    for a in t['args'][1:]:
                        k2, v2 = mirq.chase_op(b, a)
                        if k2 == 'rv' and v2[2]['rv']['k'] == 'agg' and v2[2]['rv'].get('ak') == 'closure':
                            res.add((v2[2]['rv']['def'], 2))
    return res


def describe(mir, b, op, fam_by_id, depth=6):
    """origin descriptor of a comparison operand"""
    if 'const' in op:
        return 'const:%s' % op['const'].get('int', op['const'].get('s'))
    p = op_place(op)
    if p is None:
        return 'unknown'
    fn = field_names(p)
    if fn:
        # upvar of a closure?
        if b.kind == 'closure' and p['l'] == 1 and isinstance(p['p'][0], (dict, str)):
            return describe_upvar(mir, b, p, fam_by_id, depth)
        return 'field:%s' % [n for n in fn if n not in ('0',)][-1] if [n for n in fn if n not in ('0',)] else 'field:0'
    k, v = mirq.chase(b, p['l'])
    if k == 'rv':
        rv = v[2]['rv']
        if rv['k'] in ('use',):
            pp = op_place(rv['op'])
            if pp is not None and depth > 0:
                if b.kind == 'closure' and pp['l'] == 1:
                    return describe_upvar(mir, b, pp, fam_by_id, depth)
                f2 = [n for n in field_names(pp) if n != '0']
                if f2:
                    return 'field:%s' % f2[-1]
        if rv['k'] in ('ref', 'copyderef'):
            pp = rv['place']
            if b.kind == 'closure' and pp['l'] == 1:
                return describe_upvar(mir, b, pp, fam_by_id, depth)
            f2 = [n for n in field_names(pp) if n != '0']
            if f2:
                return 'field:%s' % f2[-1]
        if rv['k'] == 'bin':
            return 'expr:%s' % rv['op']
        return 'rv:%s' % rv['k']
    if k == 'arg':
        return 'arg:%d' % v
    if k == 'multi':
        return 'local:%d' % v[0]
    if k == 'call':
        return 'call:%s' % strip_generics(v[1].get('callee') or v[1].get('decl') or '')
    return 'local:%d' % p['l']


def describe_upvar(mir, b, p, fam_by_id, depth):
    # p = (*_1).K ... : K-th captured value; find the creation site in the parent
    idx = None
    for e in p['p']:
        if isinstance(e, dict) and 'f' in e:
            idx = e['f']
            break
    parent = mir.by_id.get(b.parent)
    if parent is None or idx is None:
        return 'upvar'
    for (pb, i, j) in mirq.closure_creation_sites(mir, b.id):
        ops = pb.blocks[i]['stmts'][j]['rv']['ops']
        if idx < len(ops):
            return describe(mir, pb, ops[idx], fam_by_id, depth - 1)
    return 'upvar'


def run(ctx):
    mir = ctx.mir
    ctx.explanation = ('Structural clauses of the limit mechanism decided on resolved MIR for all bodies: single door to user frames, '
                       'must-pass-through of the counters before a frame exists, who reads/writes each limit and counter, and the normal form '
                       'of each limit comparison against the documented table.')
    ctx.trusted = ['rustc MIR', 'Iterator::take/chain/once/repeat_with semantics']
    ctx.assumptions = ['the reference depth/count of an arbitrary program equals the counters is NOT decided (needs an execution model)']
    efv = mir.find(EFV)
    ft = mir.find(FT)
    # ---------------- R08.1
    r1 = ctx.rule('R08.1', 'user frames are built / user output expressions read only in eval_func_with_values')
    if len(efv) != 1 or len(ft) != 1:
        r1.fail('anchor', '-', 'eval_func_with_values / from_template not found')
        return
    efv, ft = efv[0], ft[0]
    for b, bb, t in mir.call_sites(lambda n: n == FT):
        ok = b.nid in (EFV, ROOT_INST)
        r1.inst({'caller': b.id, 'site': mirq.site(b, bb)}, ok=ok)
        if not ok:
            r1.fail('%s/from_template' % b.nid, mirq.site(b, bb), 'a frame is instantiated outside eval_func_with_values: the call does not pass the call/depth/timeout counters')
    # function items passed as values would escape the call graph
    for b in mir.bodies:
        for bb, t in b.calls():
            for a in t['args']:
                c = a.get('const')
                if c and strip_generics(c.get('fn') or '') == FT:
                    r1.fail('%s/from_template-as-value' % b.nid, mirq.site(b, bb), 'from_template passed as a function value')
    allowed_output_readers = {EFV, '<xvalue::XFunction as std::clone::Clone>::clone'}
    for b, bb, j, mode, p in mirq.field_accesses(mir, 'xvalue::XFunction', 'output'):
        ok = b.nid in allowed_output_readers
        r1.inst({'reader': b.id, 'site': mirq.site(b, bb)}, ok=ok, kind=(b.id, 'output'))
        if not ok:
            r1.fail('%s/output-read' % b.nid, mirq.site(b, bb), 'the output expression of a user function is read outside eval_func_with_values (possible uncounted evaluation)')
    # the template's own copy of the output expression is only used to rebuild a function value
    for b, bb, j, mode, p in mirq.field_accesses(mir, 'runtime_scope::RuntimeScopeTemplate', 'output'):
        ok = b.nid in ('runtime_scope::RuntimeScopeTemplate::to_function',)
        r1.inst({'reader': b.id, 'site': mirq.site(b, bb)}, ok=ok, kind=(b.id, 'toutput'))
        if not ok:
            r1.fail('%s/template-output-read' % b.nid, mirq.site(b, bb), 'RuntimeScopeTemplate.output read outside to_function')
    r1.need(4)

    # ---------------- R08.2
    r2 = ctx.rule('R08.2', 'counters and depth test dominate frame construction / declaration evaluation')

    def cont_blocks(body, callee):
        ks = []
        for bb, t in body.calls():
            if strip_generics(t.get('callee') or '') == callee:
                cb = mirq.try_continue_block(body, bb)
                if cb:
                    ks.append(cb[0])
        return ks
    incs = cont_blocks(efv, 'runtime::Runtime::increment_call_limit')
    tmo = cont_blocks(efv, 'runtime::Runtime::check_timeout')
    for bb, t in efv.calls():
        if strip_generics(t.get('callee') or '') != FT:
            continue
        ok1 = any(mirq.dominates(efv, k, bb) for k in incs)
        ok2 = any(mirq.dominates(efv, k, bb) for k in tmo)
        r2.inst({'site': mirq.site(efv, bb), 'increment_call_limit?': ok1, 'check_timeout?': ok2}, ok=ok1 and ok2)
        if not ok1:
            r2.fail('eval_func_with_values/no-call-count', mirq.site(efv, bb), 'a user frame is built on a path that has not passed increment_call_limit()?')
        if not ok2:
            r2.fail('eval_func_with_values/no-timeout', mirq.site(efv, bb), 'a user frame is built on a path that has not passed check_timeout()?')
    # the call counter is bumped once per call, outside the trampoline loop (tail iterations are bounded by the recursion limit only)
    for bb, t in efv.calls():
        if strip_generics(t.get('callee') or '') == 'runtime::Runtime::increment_call_limit':
            in_loop = bb in efv.reachable(efv.term(bb)['target'])
            r2.inst({'site': mirq.site(efv, bb), 'inside_loop': in_loop}, ok=not in_loop)
            if in_loop:
                r2.fail('eval_func_with_values/count-in-loop', mirq.site(efv, bb), 'increment_call_limit is inside the trampoline loop: tail self-calls would consume the call budget')
    # from_template: depth test before any evaluation
    viol = [(i, j) for i, j, s in ft.stmts() if s['k'] == 'assign' and s['rv']['k'] == 'agg' and s['rv'].get('adt') == 'runtime_violation::RuntimeViolation' and s['rv']['v'] == 'MaximumStackDepth']
    if len(viol) != 1:
        r2.fail('from_template/depth-site', mirq.site(ft, 0), 'expected exactly one MaximumStackDepth construction in from_template, found %d' % len(viol))
    else:
        vb = viol[0][0]
        # the controlling switch: the unique predecessor switch block of vb
        preds = ft.preds()[vb]
        sw = [p for p in preds if ft.term(p)['k'] == 'switch']
        if len(sw) != 1:
            r2.fail('from_template/depth-switch', mirq.site(ft, vb), 'unrecognised control shape around the depth violation')
        else:
            swb = sw[0]
            t = ft.term(swb)
            pass_bbs = [x for v, x in t['targets'] if x != vb] + ([t['otherwise']] if t['otherwise'] != vb else [])
            evaluators = []
            for bb, c in ft.calls():
                nm = strip_generics(c.get('callee') or c.get('decl') or '')
                if nm in ('runtime_scope::RuntimeScope::eval', 'xexpr::XStaticFunction::to_function', 'xvalue::ManagedXValue::new', 'runtime_scope::TemplatedEvaluationCell::put') or (c.get('callee') is None and 'Fn' in nm):
                    evaluators.append((bb, nm))
            for bb, nm in evaluators:
                ok = any(mirq.dominates(ft, pb, bb) for pb in pass_bbs) and mirq.dominates(ft, swb, bb)
                r2.inst({'site': mirq.site(ft, bb), 'call': nm, 'after_depth_test': ok}, ok=ok, kind=(bb, nm))
                if not ok:
                    r2.fail('from_template/eval-before-depth-test', mirq.site(ft, bb), '%s can run before the depth test' % nm)
            if len(evaluators) < 4:
                r2.fail('from_template/evaluators', mirq.site(ft, 0), 'fewer declaration-evaluation sites than confirmed by hand (anchor lost)')
    # height = parent.height + 1 (closure passed to map_or on stack_parent), default StackDepth(0)
    hok = False
    for b in family(mir, ft)[1:]:
        adds = [t for bb, t in b.calls() if strip_generics(t.get('callee') or '') == '<units::StackDepth as std::ops::Add>::add']
        if len(adds) == 1 and len(b.blocks) <= 3:
            a0 = describe(mir, b, adds[0]['args'][0], None)
            k1, v1 = mirq.chase_op(b, adds[0]['args'][1])
            one = (k1 == 'rv' and v1[2]['rv']['k'] == 'agg' and v1[2]['rv'].get('adt') == 'units::StackDepth' and v1[2]['rv']['ops'][0].get('const', {}).get('int') == '1')
            if a0 == 'field:height' and one:
                hok = True
    r2.inst({'height': 'parent.height + StackDepth(1)'}, ok=hok)
    if not hok:
        r2.fail('from_template/height', mirq.site(ft, 0), 'frame height is no longer parent.height + 1')
    # the frame's stack parent is the calling scope
    for bb, t in efv.calls():
        if strip_generics(t.get('callee') or '') == FT:
            k, v = mirq.chase_op(efv, t['args'][1])
            ok = k == 'rv' and v[2]['rv']['k'] == 'agg' and v[2]['rv'].get('v') == 'Some' and mirq.chase_op(efv, v[2]['rv']['ops'][0]) == ('arg', 1)
            r2.inst({'site': mirq.site(efv, bb), 'stack_parent': 'Some(self)'}, ok=ok)
            if not ok:
                r2.fail('eval_func_with_values/stack-parent', mirq.site(efv, bb), 'the new frame is not given Some(self) as its stack parent (depth would not count nesting)')
    r2.need(8)

    # ---------------- R08.3 who reads / writes
    r3 = ctx.rule('R08.3', 'each limit field / counter is read and written only by its mechanism')
    READERS = {
        'depth_limit': {FT},
        'recursion_limit': {EFV},
        'ud_call_limit': {'runtime::Runtime::increment_call_limit'},
        'maximum_search': {'runtime::RuntimeLimits::search_iter'},
        'time_limit': {'runtime::Runtime::reset_timeout', 'runtime::RuntimeLimits::to_runtime'},
    }
    for fld, allowed in READERS.items():
        n = 0
        for b, bb, j, mode, p in mirq.field_accesses(mir, LIMITS, fld):
            if b.get('impl_trait') in ('std::fmt::Debug', 'std::default::Default'):
                continue
            n += 1
            ok = b.nid in allowed and mode == 'r'
            r3.inst({'field': fld, 'body': b.id, 'mode': mode}, ok=ok, kind=(fld, b.id, mode))
            if not ok:
                r3.fail('%s/%s' % (b.nid, fld), mirq.site(b, bb), 'limit field %s is %s outside its mechanism: evaluation could depend on the limit other than through its violation' % (fld, 'written' if mode != 'r' else 'read'))
        if n == 0:
            r3.fail('anchor/%s' % fld, '-', 'no access to limit field %s found' % fld)
    WRITERS = {'runtime::Runtime::increment_call_limit': 'inc', 'runtime::Runtime::reset_ud_calls': 'zero', 'runtime::Runtime::reset_call_limit': 'zero'}
    for b, bb, j, mode, p in mirq.field_accesses(mir, 'runtime::RuntimeStats', 'ud_calls'):
        if b.get('impl_trait') == 'std::fmt::Debug':
            continue
        if mode == 'r':
            ok = b.nid == 'runtime::Runtime::increment_call_limit'
            r3.inst({'field': 'ud_calls', 'body': b.id, 'mode': 'r'}, ok=ok, kind=('ud_calls', b.id, 'r'))
            if not ok:
                r3.fail('%s/ud_calls-read' % b.nid, mirq.site(b, bb), 'the call counter is read outside increment_call_limit')
            continue
        what = WRITERS.get(b.nid)
        ok = what is not None
        if ok and j is not None:
            s = b.blocks[bb]['stmts'][j]
            if what == 'zero':
                ok = s['rv']['k'] == 'use' and s['rv']['op'].get('const', {}).get('int') == '0'
            else:
                # (*stats).ud_calls = move _tmp.0 where _tmp = AddWithOverflow(ud_calls, 1)
                k, v = ('none', None)
                pl = op_place(s['rv'].get('op', {})) if s['rv']['k'] == 'use' else None
                ok = False
                if pl is not None:
                    for kind, dbb, didx, x in b.defs().get(pl['l'], []):
                        if kind == 'stmt' and x['rv']['k'] == 'bin' and x['rv']['op'] in ('AddWithOverflow', 'Add') and x['rv']['b'].get('const', {}).get('int') == '1':
                            pa = op_place(x['rv']['a'])
                            ok = pa is not None and 'ud_calls' in field_names(pa)
        r3.inst({'field': 'ud_calls', 'body': b.id, 'mode': 'write', 'kind': what}, ok=ok, kind=('ud_calls', b.id, 'w'))
        if not ok:
            r3.fail('%s/ud_calls-write' % b.nid, mirq.site(b, bb), 'the call counter is written here; only `+= 1` in increment_call_limit and `= 0` in the two host resets are allowed')
    for name in ('runtime::Runtime::reset_ud_calls', 'runtime::Runtime::reset_call_limit'):
        if len(mir.find(name)) != 1:
            r3.fail('anchor/%s' % name, '-', 'host reset %s not found' % name)
    r3.need(12)

    # ---------------- R08.4 exactness normal form
    r4 = ctx.rule('R08.4', 'limit comparisons have the documented normal form (counter OP limit)')
    for fld, (variant, want_op, want_counter) in TABLE.items():
        sites = [x for x in mirq.aggregates(mir, 'runtime_violation::RuntimeViolation', variant) if x[0].get('impl_trait') != 'std::clone::Clone']
        if len(sites) != 1:
            r4.inst({'limit': fld}, ok=False)
            r4.fail('%s/violation-sites' % fld, '-', 'expected exactly one construction of %s, found %d' % (variant, len(sites)))
            continue
        vb_body, vbb, vj, vs = sites[0]
        fam = family(mir, vb_body)
        fam_by_id = {b.id: b for b in fam}
        lim = limit_locals(mir, vb_body, fld, fam)
        cmps = []
        for b in fam:
            for i, j, s in b.stmts():
                if s['k'] == 'assign' and s['rv']['k'] == 'bin' and s['rv']['op'] in MIRROR:
                    la = op_local(s['rv']['a'])
                    lb = op_local(s['rv']['b'])

                    def is_lim(l):
                        if l is None:
                            return False
                        if (b.id, l) in lim:
                            return True
                        k, v = mirq.chase(b, l)
                        if k == 'arg' and (b.id, v) in lim:
                            return True
                        if k == 'rv' and v[2]['rv']['k'] == 'use':
                            pp = op_place(v[2]['rv']['op'])
                            return pp is not None and is_limit_place(pp, fld)
                        return False
                    a_lim, b_lim = is_lim(la), is_lim(lb)
                    if a_lim == b_lim:
                        continue
                    op = s['rv']['op'] if b_lim else MIRROR[s['rv']['op']]
                    counter = describe(mir, b, s['rv']['a'] if b_lim else s['rv']['b'], fam_by_id)
                    cmps.append((b, i, j, op, counter))
        if len(cmps) != 1:
            r4.inst({'limit': fld, 'comparisons': len(cmps)}, ok=False)
            r4.fail('%s/comparison' % fld, mirq.site(vb_body, vbb), 'expected exactly one comparison against %s in %s, found %d (unrecognised shape)' % (fld, vb_body.nid, len(cmps)))
            continue
        b, i, j, op, counter = cmps[0]
        ok_op = op == want_op
        ok_counter = counter == want_counter or (want_counter == 'local' and counter.startswith('local:'))
        detail = {'limit': fld, 'normal_form': 'counter(%s) %s limit => %s' % (counter, op, variant), 'site': mirq.site(b, i, j)}
        # pre/post increment discipline
        inc_ok = True
        if fld == 'ud_call_limit':
            # the write of ud_calls (+1) dominates the comparison block
            wr = [bb2 for bb2, j2, s2 in ((x, y, z) for x, y, z in b.stmts()) if s2['k'] == 'assign' and 'ud_calls' in field_names(s2['place'])]
            inc_ok = any(mirq.dominates(b, w, i) for w in wr)
            detail['increment_before_compare'] = inc_ok
        if fld == 'recursion_limit':
            # counter local: initialised to 0 before the loop, +1 on the TailCall arm dominating the comparison
            l = int(counter.split(':')[1]) if counter.startswith('local:') else None
            init0 = inc1 = False
            incb = None
            if l is not None:
                for kind, dbb, didx, x in b.defs().get(l, []):
                    if kind == 'stmt' and x['rv']['k'] == 'use' and x['rv']['op'].get('const', {}).get('int') == '0':
                        init0 = True
                    if kind == 'stmt' and x['rv']['k'] == 'use':
                        pp = op_place(x['rv']['op'])
                        if pp is not None:
                            for kind2, dbb2, didx2, x2 in b.defs().get(pp['l'], []):
                                if kind2 == 'stmt' and x2['rv']['k'] == 'bin' and x2['rv']['op'] in ('AddWithOverflow', 'Add') and op_local(x2['rv']['a']) == l and x2['rv']['b'].get('const', {}).get('int') == '1':
                                    inc1 = True
                                    incb = dbb
            inc_ok = init0 and inc1 and incb is not None and mirq.dominates(b, incb, i)
            detail['counter_init0_inc1_before_compare'] = inc_ok
        # the violation must be on the true edge of the comparison (directly or through the closure result)
        ok = ok_op and ok_counter and inc_ok
        r4.inst(detail, ok=ok, kind=fld)
        if not ok_op:
            r4.fail('%s/operator' % fld, mirq.site(b, i, j), 'limit %s is tested with `counter %s limit`; the documented boundary is `%s`' % (fld, op, want_op))
        if not ok_counter:
            r4.fail('%s/counter' % fld, mirq.site(b, i, j), 'limit %s is compared with %s, expected %s' % (fld, counter, want_counter))
        if not inc_ok:
            r4.fail('%s/increment' % fld, mirq.site(b, i, j), 'the counter of %s is not incremented by one before being compared (off-by-one)' % fld)
        # polarity: violation block reachable only through the true edge
        if b is vb_body:
            t = b.term(i)
            if t['k'] == 'switch' and op_local(t['discr']) == b.blocks[i]['stmts'][j]['place']['l']:
                false_targets = [x for v, x in t['targets'] if v == '0']
                pol = bool(false_targets) and vbb not in b.reachable(false_targets[0], avoid=[t['otherwise']]) or not false_targets
                # stricter: violation block dominated by the true edge
                pol = mirq.dominates(b, t['otherwise'], vbb) and t['otherwise'] not in false_targets
                r4.inst({'limit': fld, 'violation_on_true_edge': pol}, ok=pol)
                if not pol:
                    r4.fail('%s/polarity' % fld, mirq.site(b, i, j), 'the violation is not on the true edge of the comparison')
        else:
            # comparison inside a closure passed to Option::map_or(.., false, closure): the violation must be on the true edge of its result
            pol = False
            for bb2, t2 in vb_body.calls():
                nm = strip_generics(t2.get('callee') or t2.get('decl') or '')
                if nm == 'std::option::Option::map_or':
                    k2, v2 = mirq.chase_op(vb_body, t2['args'][2])
                    if k2 == 'rv' and v2[2]['rv'].get('def') == b.id and t2['args'][1].get('const', {}).get('bool') is False:
                        sw = vb_body.term(t2['target'])
                        if sw['k'] == 'switch' and op_local(sw['discr']) == t2['dest']['l']:
                            false_targets = [x for v, x in sw['targets'] if v == '0']
                            pol = mirq.dominates(vb_body, sw['otherwise'], vbb) and sw['otherwise'] not in false_targets
            # closure returns the comparison itself
            ret_ok = any(s2['k'] == 'assign' and s2['place']['l'] == 0 and s2 is b.blocks[i]['stmts'][j] for _, _, s2 in b.stmts())
            r4.inst({'limit': fld, 'violation_on_true_edge_of_map_or(false, cmp)': pol and ret_ok}, ok=pol and ret_ok)
            if not (pol and ret_ok):
                r4.fail('%s/polarity' % fld, mirq.site(vb_body, vbb), 'unrecognised connection between the comparison closure and the violation (expected Option::map_or(false, |limit| counter >= limit))')
    r4.need(6)

    # ---------------- R08.5 search budget
    r5 = ctx.rule('R08.5', 'search budget = L permits then MaximumSearch; created per call and never stored')
    si = mir.find('runtime::RuntimeLimits::search_iter')
    if len(si) != 1:
        r5.fail('anchor/search_iter', '-', 'search_iter not found')
    else:
        fam = family(mir, si[0])
        names = []
        for b in fam:
            for bb, t in b.calls():
                names.append((b, bb, strip_generics(t.get('callee') or t.get('decl') or ''), t))
        take = [(b, bb, t) for b, bb, n, t in names if n == 'std::iter::Iterator::take']
        chain = [(b, bb, t) for b, bb, n, t in names if n == 'std::iter::Iterator::chain']
        once = [(b, bb, t) for b, bb, n, t in names if n == 'std::iter::once']
        ok = len(take) == 1 and len(chain) == 1 and len(once) == 1
        if ok:
            tb, tbb, tt = take[0]
            # take(n): n is the closure's parameter = payload of maximum_search
            k, v = mirq.chase_op(tb, tt['args'][1])
            lim = limit_locals(mir, si[0], 'maximum_search', fam)
            ok = (k == 'arg' and (tb.id, v) in lim)
            # chain(take_result, once(Err(MaximumSearch)))
            cb, cbb, ct = chain[0]
            ok = ok and op_local(ct['args'][0]) == tt['dest']['l'] and op_local(ct['args'][1]) == once[0][2]['dest']['l']
            k2, v2 = mirq.chase_op(cb, once[0][2]['args'][0])
            ok = ok and k2 == 'rv' and v2[2]['rv'].get('v') == 'Err'
            # the repeated element is Ok(())
        viol = [x for x in mirq.aggregates(mir, 'runtime_violation::RuntimeViolation', 'MaximumSearch') if x[0].get('impl_trait') != 'std::clone::Clone']
        ok = ok and len(viol) == 1 and viol[0][0].id.startswith(si[0].id)
        r5.inst({'shape': 'repeat_with(Ok).take(maximum_search).chain(once(Err(MaximumSearch)))'}, ok=ok)
        if not ok:
            r5.fail('search_iter/shape', mirq.site(si[0], 0), 'search_iter is no longer `L permits, then exactly one MaximumSearch violation`')
    # never stored: no ADT field of the crate can hold an iterator / the budget
    for aid, a in mir.adts.items():
        for v in a['variants']:
            for f in v['fields']:
                if re.search(r'dyn .*Iterator|std::iter::|impl Iterator|itertools::Either<std::iter', f['ty']):
                    r5.fail('%s/%s' % (aid, f['name']), a['span'], 'a struct field can hold an iterator: a search budget could be cached across calls')
    users = list(mir.call_sites(lambda n: n == 'runtime::RuntimeLimits::search_iter'))
    for b, bb, t in users:
        r5.inst({'user': b.id, 'site': mirq.site(b, bb)}, kind=b.id)
    r5.need(5)
