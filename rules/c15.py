"""C15 — sequences behave as lists whatever their representation.  Structural clauses (list semantics itself is value-level):
  R15.1  immutability audit: no operation can alter a sequence it was applied to (type-closure audit, shared)
  R15.3  index discipline: in native closures, the index handed to XSequence::get derives from value_to_idx (the index
         normaliser that rejects negative-overflow, infinite and out-of-range cases) of the same call
  R15.4  representation constructors: Chain / Slice literals only inside XSequence::chain / XSequence::slice; Slice never wraps
         a Slice (one level is unwrapped, offsets added)
  R15.5  range construction: the Range literal is built only after the zero-step and emptiness tests
  R15.6  value_to_idx has its three error exits (negative beyond start, not representable, beyond length)
  R15.7  positions are ordered only after normalisation: no ordering comparison between two raw index arguments
"""
import re
from .lib import mirq, astq, immut
from .lib.facts import strip_generics, find_nodes, op_local, op_place

SEQ = 'builtin::sequence::XSequence'
F = 'src/builtin/sequence.rs'


def src(n):
    return re.sub(r'\s+', '', n.get('s') or '')


def run(ctx):
    mir = ctx.mir
    ast = ctx.ast
    ctx.explanation = ('Immutability by the type-closure audit; index discipline of natives calling XSequence::get; the lazy representations Chain/Slice/Range '
                       'are constructed only by their invariant-keeping constructors / after their guards.')
    ctx.trusted = ['rustc MIR', 'syn parse']
    ctx.assumptions = ['agreement of len/get/slice/... with list semantics for all compositions is NOT decided (value level)']
    r1 = ctx.rule('R15.1', 'values immutable after construction (shared audit)')
    immut.audit(ctx, r1)

    # ---------------- R15.3
    r3 = ctx.rule('R15.3', 'natives hand XSequence::get only indices produced by value_to_idx')
    for b, bb, t in mir.call_sites(lambda n: n == SEQ + '::get'):
        if b.nid.startswith(SEQ + '::'):
            # internal recursion / iteration over 0..len inside the type's own methods
            r3.inst({'caller': b.id, 'site': mirq.site(b, bb), 'class': 'internal (get / diter / iter / sample recursion over valid indices)'}, kind=(b.id, bb))
            continue
        sl = mirq.backslice(b, [op_local(t['args'][1])] if op_local(t['args'][1]) is not None else [])
        ok = False
        for bb2, t2 in b.calls():
            if strip_generics(t2.get('callee') or '') == SEQ + '::value_to_idx' and not t2['dest']['p'] and t2['dest']['l'] in sl:
                ok = True
        r3.inst({'caller': b.id, 'site': mirq.site(b, bb), 'index_from_value_to_idx': ok}, ok=ok, kind=(b.id, bb))
        if not ok:
            r3.fail('%s/get-unnormalised' % b.nid, mirq.site(b, bb), 'a native calls XSequence::get with an index that does not come from value_to_idx: out-of-range or negative requests are not turned into error values (Array indexing panics)')
    r3.need(5)

    # ---------------- R15.4
    r4 = ctx.rule('R15.4', 'Chain / Slice built only by their constructors; Slice of Slice is flattened')
    for var, owner in (('Chain', SEQ + '::chain'), ('Slice', SEQ + '::slice')):
        sites = list(mirq.aggregates(mir, SEQ, var))
        if not sites:
            r4.fail('anchor/%s' % var, F, 'no construction of XSequence::%s found' % var)
        for b, i, j, s in sites:
            ok = b.nid == owner
            r4.inst({'variant': var, 'body': b.id, 'site': mirq.site(b, i, j)}, ok=ok, kind=(var, b.id, i))
            if not ok:
                r4.fail('%s/%s-literal' % (b.nid, var), mirq.site(b, i, j), 'XSequence::%s is constructed outside %s: its invariants (non-empty finite parts / end <= len, start < end, no nested slice) are not established' % (var, owner.split('::')[-1]))
    fn = [f2 for f, f2, im in astq.all_fns(ast) if f == F and f2['name'] == 'slice' and im is not None]
    if fn:
        arms = [a for m, _ in find_nodes(fn[0]['body'], lambda y: y.get('k') == 'match') for a in m['arms']]
        flat = [a for a in arms if 'Self::Slice(' in src(a['pat'])]
        ok = False
        for a in flat:
            bsrc = ''.join(src(x) for x, _ in find_nodes(a['body'], lambda y: 's' in y and y.get('k') in ('call',)))
            ok = 'old_start+start' in bsrc and 'old_start+end' in bsrc and 'origin.clone()' in bsrc
        r4.inst({'slice_of_slice': 'Slice(origin, old_start+start, end.map(old_start+end))'}, ok=ok)
        if not ok:
            r4.fail('slice/flatten', F, 'slice() no longer flattens a slice of a slice by adding the offsets')
        # emptiness / whole-sequence shortcuts precede the construction
        tests = [src(i['cond']) for i, _ in find_nodes(fn[0]['body'], lambda y: y.get('k') == 'if')]
        ok2 = any('start>=end' in t_ for t_ in tests) and any('start==0' in t_ for t_ in tests)
        r4.inst({'slice_guards': tests[:3]}, ok=ok2)
        if not ok2:
            r4.fail('slice/guards', F, 'slice() lost its emptiness / identity tests')
    r4.need(4)

    # ---------------- R15.5
    r5 = ctx.rule('R15.5', 'Range literal only after the zero-step and emptiness tests')
    for b, i, j, s in mirq.aggregates(mir, SEQ, 'Range'):
        # dominating calls: is_zero on step (false edge) ; comparisons start/end
        names = []
        for d in b.dominators().get(i, set()):
            t = b.term(d)
            if t['k'] == 'call':
                names.append(strip_generics(t.get('callee') or t.get('decl') or ''))
        cmps = 0
        for d in range(len(b.blocks)):
            if b.blocks[d]['cleanup'] or i not in b.reachable(d):
                continue
            for s2 in b.blocks[d]['stmts']:
                if s2['k'] == 'assign' and s2['rv']['k'] == 'bin' and s2['rv']['op'] in ('Ge', 'Le', 'Lt', 'Gt') and s2['rv'].get('aty') == 'i64':
                    cmps += 1
        zero = any(n.endswith('Zero>::is_zero') or n.endswith('::is_zero') for n in names)
        sign = any(n.endswith('is_positive') or n.endswith('is_negative') for n in names)
        ok = zero and sign and cmps >= 2
        r5.inst({'body': b.id, 'site': mirq.site(b, i, j), 'is_zero_test': zero, 'sign_tests': sign, 'bound_comparisons': cmps}, ok=ok, kind=(b.id, i))
        if not ok:
            r5.fail('%s/Range-unguarded' % b.nid, mirq.site(b, i, j), 'XSequence::Range is built without the dominating zero-step / emptiness tests: len() asserts and get() misbehave on such a range')
    r5.need(1)

    # ---------------- R15.6
    r6 = ctx.rule('R15.6', 'value_to_idx keeps its error exits')
    v = mir.find(SEQ + '::value_to_idx')
    if len(v) != 1:
        r6.fail('anchor/value_to_idx', F, 'value_to_idx not found')
    else:
        b = v[0]
        errs = [bb for bb, t in b.calls() if strip_generics(t.get('callee') or '') == 'xvalue::ManagedXError::new']
        neg = any(strip_generics(t.get('callee') or t.get('decl') or '').endswith('is_negative') for _, t in b.calls())
        tous = any(strip_generics(t.get('callee') or t.get('decl') or '').endswith('to_usize') for _, t in b.calls())
        # idx >= len comparison (inside the map_or closure)
        ge = False
        for bx in [b] + [x for x in mir.bodies if x.id.startswith(b.id + '::{closure')]:
            for _, _, s in bx.stmts():
                if s['k'] == 'assign' and s['rv']['k'] == 'bin' and s['rv']['op'] in ('Ge', 'Lt') and s['rv'].get('aty') == 'usize':
                    ge = True
        ok = len(errs) >= 4 and neg and tous and ge
        r6.inst({'error_exits': len(errs), 'negative_handling': neg, 'usize_conversion': tous, 'length_comparison': ge}, ok=ok)
        if not ok:
            r6.fail('value_to_idx/shape', mirq.site(b, 0), 'value_to_idx lost one of its cases (negative index, infinite sequence, unrepresentable, out of range)')
    r6.need(1)

    # ---------------- R15.7
    r7 = ctx.rule('R15.7', 'positions are ordered after normalisation: no ordering comparison between raw index arguments')
    ORDER = re.compile(r'(PartialOrd::(lt|le|gt|ge|partial_cmp)|Ord::(cmp|min|max))$')
    for b in mir.bodies:
        if b.nid.startswith(SEQ + '::'):
            continue
        sites = [(bb, t) for bb, t in b.calls() if strip_generics(t.get('callee') or '') == SEQ + '::value_to_idx']
        if not sites:
            continue
        raw = set()
        for bb, t in sites:
            l = op_local(t['args'][1])
            if l is not None:
                raw |= {x for x in mirq.backslice(b, [l]) if 'LazyBigint' in (b.local_ty(x) or '')}

        def root(op):
            p = op_place(op)
            if p is None:
                return None
            cur = p['l']
            for _ in range(8):
                if cur in raw:
                    return cur
                ds = b.defs().get(cur, [])
                if len(ds) != 1 or ds[0][0] != 'stmt':
                    return None
                rv = ds[0][3]['rv']
                if rv['k'] in ('ref', 'copyderef'):
                    cur = rv['place']['l']
                elif rv['k'] == 'use' and op_place(rv['op']) is not None:
                    cur = op_place(rv['op'])['l']
                else:
                    return None
            return None
        cmps = []
        for bb, t in b.calls():
            nm = strip_generics(t.get('decl') or t.get('callee') or '')
            if not ORDER.search(nm) or len(t['args']) != 2:
                continue
            ra, rb = root(t['args'][0]), root(t['args'][1])
            if ra is not None and rb is not None:
                cmps.append((bb, nm.split('::')[-1]))
        ok = not cmps
        r7.inst({'native': b.nid, 'raw_index_arguments_normalised': len(sites), 'ordering_comparisons_between_raw_indices': len(cmps)}, ok=ok, kind=b.nid)
        for bb, op in cmps:
            r7.fail('%s/raw-order/%s' % (b.nid, op), mirq.site(b, bb), 'two index arguments are ordered (%s) before value_to_idx normalises them: a negative index denotes a position from the end, so the order of the raw numbers is not the order of the positions' % op)
    r7.need(5)
