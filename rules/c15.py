"""C15 — sequences behave as lists whatever their representation.  Structural clauses (list semantics itself is value-level):
  R15.1  immutability audit: no operation can alter a sequence it was applied to (type-closure audit, shared)
  R15.3  index discipline: in native closures, the index handed to XSequence::get derives from value_to_idx (the index
         normaliser that rejects negative-overflow, infinite and out-of-range cases) of the same call
  R15.4  representation constructors: Chain / Slice literals only inside XSequence::chain / XSequence::slice; Slice never wraps
         a Slice (one level is unwrapped, offsets added)
  R15.5  range construction: the Range literal is built only after the zero-step and emptiness tests
  R15.6  value_to_idx has its three error exits (negative beyond start, not representable, beyond length)
  R15.7  positions are ordered only after normalisation: no ordering comparison between two raw index arguments
"""
import re
from .lib import mirq, astq, immut, cdeps
from .lib.facts import strip_generics, find_nodes, op_local, op_place

SEQ = 'builtin::sequence::XSequence'
F = 'src/builtin/sequence.rs'


def src(n):
    return re.sub(r'\s+', '', n.get('s') or '')


def run(ctx):
    mir = ctx.mir
    ast = ctx.ast
    ctx.explanation = ('Immutability by the type-closure audit; index discipline of natives calling XSequence::get; the lazy representations Chain/Slice/Range '
                       'are constructed only by their invariant-keeping constructors / after their guards.')
    ctx.trusted = ['rustc MIR', 'syn parse']
    ctx.assumptions = ['agreement of len/get/slice/... with list semantics for all compositions is NOT decided (value level)']
    r1 = ctx.rule('R15.1', 'values immutable after construction (shared audit)')
    immut.audit(ctx, r1)

    # ---------------- R15.3
    r3 = ctx.rule('R15.3', 'natives hand XSequence::get only indices produced by value_to_idx')
    for b, bb, t in mir.call_sites(lambda n: n == SEQ + '::get'):
        if b.nid.startswith(SEQ + '::'):
            # internal recursion / iteration over 0..len inside the type's own methods
            r3.inst({'caller': b.id, 'site': mirq.site(b, bb), 'class': 'internal (get / diter / iter / sample recursion over valid indices)'}, kind=(b.id, bb))
            continue
        sl = mirq.backslice(b, [op_local(t['args'][1])] if op_local(t['args'][1]) is not None else [])
        ok = False
        for bb2, t2 in b.calls():
            if strip_generics(t2.get('callee') or '') == SEQ + '::value_to_idx' and not t2['dest']['p'] and t2['dest']['l'] in sl:
                ok = True
        r3.inst({'caller': b.id, 'site': mirq.site(b, bb), 'index_from_value_to_idx': ok}, ok=ok, kind=(b.id, bb))
        if not ok:
            r3.fail('%s/get-unnormalised' % b.nid, mirq.site(b, bb), 'a native calls XSequence::get with an index that does not come from value_to_idx: out-of-range or negative requests are not turned into error values (Array indexing panics)')
    r3.need(5)

    # ---------------- R15.4
    r4 = ctx.rule('R15.4', 'Chain / Slice built only by their constructors; Slice of Slice is flattened')
    for var, owner in (('Chain', SEQ + '::chain'), ('Slice', SEQ + '::slice')):
        sites = list(mirq.aggregates(mir, SEQ, var))
        if not sites:
            r4.fail('anchor/%s' % var, F, 'no construction of XSequence::%s found' % var)
        for b, i, j, s in sites:
            ok = b.nid == owner
            r4.inst({'variant': var, 'body': b.id, 'site': mirq.site(b, i, j)}, ok=ok, kind=(var, b.id, i))
            if not ok:
                r4.fail('%s/%s-literal' % (b.nid, var), mirq.site(b, i, j), 'XSequence::%s is constructed outside %s: its invariants (non-empty finite parts / end <= len, start < end, no nested slice) are not established' % (var, owner.split('::')[-1]))
    sl = mir.find(SEQ + '::slice')
    if len(sl) != 1:
        r4.fail('anchor/slice', F, 'XSequence::slice not found')
    else:
        b = sl[0]
        aggs = [(i, j, s) for i, j, s in b.stmts() if s['k'] == 'assign' and s['rv']['k'] == 'agg' and s['rv'].get('adt') == SEQ and s['rv'].get('v') == 'Slice']
        # (flatten) one of the two constructions takes its source and offsets from the payload of an existing Slice and adds
        # the requested start to the old start
        def payload_fields(local):
            out = set()
            for l in mirq.backslice(b, [local]):
                for kind, dbb, idx, x in b.defs().get(l, []):
                    if kind != 'stmt':
                        continue
                    pl = x['rv'].get('place') or (op_place(x['rv']['op']) if x['rv']['k'] in ('use', 'cast') else None)
                    if pl and any(isinstance(e, dict) and e.get('dc') == 'Slice' for e in pl['p']):
                        out |= {e['f'] for e in pl['p'] if isinstance(e, dict) and 'f' in e}
            return out
        flat = False
        for i, j, s in aggs:
            ops = s['rv']['ops']
            if len(ops) != 3:
                continue
            l0, l1, l2 = (op_local(o) for o in ops)
            if None in (l0, l1, l2):
                continue
            if 0 in payload_fields(l0) and 1 in payload_fields(l1) and 2 in mirq.backslice(b, [l1]) and 1 in payload_fields(l2) and 3 in mirq.backslice(b, [l2]):
                flat = True
        r4.inst({'slice_of_slice': 'Slice(origin, old_start + start, end + old_start) built from the payload of the inner Slice'}, ok=flat)
        if not flat:
            r4.fail('slice/flatten', F, 'slice() no longer flattens a slice of a slice by adding the offsets')
        # (guards) whether a Slice is built at all is decided by a test relating start to end and one relating start to the length
        lens = {t_['dest']['l'] for _, t_ in b.calls() if strip_generics(t_.get('callee') or '') == SEQ + '::len' and not t_['dest']['p']}
        L, S = cdeps.influence(b, blocks=[i for i, j, s in aggs])
        kinds = set()
        for sw in S:
            p = op_place(b.term(sw)['discr'])
            if p is None:
                continue
            ds = mirq.backslice(b, [p['l']])
            if 2 in ds and 3 in ds:
                kinds.add('start~end')
            if 2 in ds and ds & lens:
                kinds.add('start~len')
        ok2 = {'start~end', 'start~len'} <= kinds
        r4.inst({'slice_construction_decided_by': sorted(kinds)}, ok=ok2)
        if not ok2:
            r4.fail('slice/guards', F, 'slice() builds a Slice without a test of start against %s: an empty or out-of-range slice is represented as Slice(start >= end), whose length underflows' % ' / '.join(sorted({'start~end', 'start~len'} - kinds)))
    r4.need(4)

    # ---------------- R15.5
    r5 = ctx.rule('R15.5', 'Range literal only after the zero-step and emptiness tests')
    for b, i, j, s in mirq.aggregates(mir, SEQ, 'Range'):
        # dominating calls: is_zero on step (false edge) ; comparisons start/end
        names = []
        for d in b.dominators().get(i, set()):
            t = b.term(d)
            if t['k'] == 'call':
                names.append(strip_generics(t.get('callee') or t.get('decl') or ''))
        cmps = 0
        for d in range(len(b.blocks)):
            if b.blocks[d]['cleanup'] or i not in b.reachable(d):
                continue
            for s2 in b.blocks[d]['stmts']:
                if s2['k'] == 'assign' and s2['rv']['k'] == 'bin' and s2['rv']['op'] in ('Ge', 'Le', 'Lt', 'Gt') and s2['rv'].get('aty') == 'i64':
                    cmps += 1
        zero = any(n.endswith('Zero>::is_zero') or n.endswith('::is_zero') for n in names)
        sign = any(n.endswith('is_positive') or n.endswith('is_negative') for n in names)
        ok = zero and sign and cmps >= 2
        r5.inst({'body': b.id, 'site': mirq.site(b, i, j), 'is_zero_test': zero, 'sign_tests': sign, 'bound_comparisons': cmps}, ok=ok, kind=(b.id, i))
        if not ok:
            r5.fail('%s/Range-unguarded' % b.nid, mirq.site(b, i, j), 'XSequence::Range is built without the dominating zero-step / emptiness tests: len() asserts and get() misbehave on such a range')
    r5.need(1)

    # ---------------- R15.6
    r6 = ctx.rule('R15.6', 'value_to_idx keeps its error exits')
    v = mir.find(SEQ + '::value_to_idx')
    if len(v) != 1:
        r6.fail('anchor/value_to_idx', F, 'value_to_idx not found')
    else:
        b = v[0]
        errs = [bb for bb, t in b.calls() if strip_generics(t.get('callee') or '') == 'xvalue::ManagedXError::new']
        neg = any(strip_generics(t.get('callee') or t.get('decl') or '').endswith('is_negative') for _, t in b.calls())
        tous = any(strip_generics(t.get('callee') or t.get('decl') or '').endswith('to_usize') for _, t in b.calls())
        # the comparison of the converted index with the length, wherever it is written (body or a closure handed to an
        # Option adaptor), normalised to  idx <op> len
        lens = {t_['dest']['l'] for _, t_ in b.calls() if strip_generics(t_.get('callee') or '') == SEQ + '::len' and not t_['dest']['p']}
        idxs = {t_['dest']['l'] for _, t_ in b.calls() if strip_generics(t_.get('callee') or t_.get('decl') or '').endswith('to_usize') and not t_['dest']['p']}

        def classify_parent(local):
            ds = mirq.backslice(b, [local])
            k = set()
            if ds & lens:
                k.add('len')
            if ds & idxs:
                k.add('idx')
            return k

        def classify(bx, op):
            pl = op_place(op)
            if pl is None:
                return set()
            if bx is b:
                return classify_parent(pl['l'])
            # inside a closure: a parameter stands for the payload of the adaptor's receiver, an upvar for the captured local
            out = set()
            for l in mirq.backslice(bx, [pl['l']]):
                for kind, dbb, idx, x in bx.defs().get(l, []):
                    if kind != 'stmt':
                        continue
                    q = x['rv'].get('place') or (op_place(x['rv']['op']) if x['rv']['k'] in ('use', 'cast') else None)
                    if q and q['l'] == 1 and any(isinstance(e, dict) and 'f' in e for e in q['p']):
                        fidx = [e['f'] for e in q['p'] if isinstance(e, dict) and 'f' in e][0]
                        for i, j, s in b.stmts():
                            if s['k'] == 'assign' and s['rv']['k'] == 'agg' and s['rv'].get('ak') == 'closure' and s['rv'].get('def') == bx.id and fidx < len(s['rv']['ops']):
                                ol = op_local(s['rv']['ops'][fidx])
                                if ol is not None:
                                    out |= classify_parent(ol)
                if 2 <= l <= bx.d['argc'] and not bx.defs().get(l):
                    for cbb, ct in b.calls():
                        for a_ in ct['args'][1:]:
                            al = op_local(a_)
                            if al is None:
                                continue
                            kk, vv = mirq.chase(b, al)
                            if kk == 'rv' and vv[2]['rv']['k'] == 'agg' and vv[2]['rv'].get('def') == bx.id:
                                rl = op_local(ct['args'][0])
                                if rl is not None:
                                    out |= classify_parent(rl)
            return out
        MIRROR = {'Ge': 'Le', 'Gt': 'Lt', 'Le': 'Ge', 'Lt': 'Gt'}
        rels = []
        for bx in [b] + [x for x in mir.bodies if x.id.startswith(b.id + '::{closure')]:
            for _, _, s in bx.stmts():
                if s['k'] == 'assign' and s['rv']['k'] == 'bin' and s['rv']['op'] in MIRROR and s['rv'].get('aty') == 'usize':
                    ka, kb = classify(bx, s['rv']['a']), classify(bx, s['rv']['b'])
                    # a normalised negative index is itself computed from the length: `idx` wins over `len`
                    ka, kb = ('idx' if 'idx' in ka else ''.join(ka)), ('idx' if 'idx' in kb else ''.join(kb))
                    if ka == 'idx' and kb == 'len':
                        rels.append(s['rv']['op'])
                    elif ka == 'len' and kb == 'idx':
                        rels.append(MIRROR[s['rv']['op']])
        ge = bool(rels) and all(r in ('Ge', 'Lt') for r in rels)
        ok = len(errs) >= 3 and neg and tous and ge
        r6.inst({'error_exits': len(errs), 'negative_handling': neg, 'usize_conversion': tous, 'index_vs_length_tests': ['idx %s len' % r for r in rels]}, ok=ok)
        if not ok:
            r6.fail('value_to_idx/shape', mirq.site(b, 0), 'value_to_idx lost one of its cases (negative index, infinite sequence, unrepresentable, out of range) or tests the index against the length with the wrong relation: %s' % (['idx %s len' % r for r in rels] or 'no test'))
    r6.need(1)

    # ---------------- R15.7
    r7 = ctx.rule('R15.7', 'positions are ordered after normalisation: no ordering comparison between raw index arguments')
    ORDER = re.compile(r'(PartialOrd::(lt|le|gt|ge|partial_cmp)|Ord::(cmp|min|max))$')
    for b in mir.bodies:
        if b.nid.startswith(SEQ + '::'):
            continue
        sites = [(bb, t) for bb, t in b.calls() if strip_generics(t.get('callee') or '') == SEQ + '::value_to_idx']
        if not sites:
            continue
        raw = set()
        for bb, t in sites:
            l = op_local(t['args'][1])
            if l is not None:
                raw |= {x for x in mirq.backslice(b, [l]) if 'LazyBigint' in (b.local_ty(x) or '')}

        def root(op):
            p = op_place(op)
            if p is None:
                return None
            cur = p['l']
            for _ in range(8):
                if cur in raw:
                    return cur
                ds = b.defs().get(cur, [])
                if len(ds) != 1 or ds[0][0] != 'stmt':
                    return None
                rv = ds[0][3]['rv']
                if rv['k'] in ('ref', 'copyderef'):
                    cur = rv['place']['l']
                elif rv['k'] == 'use' and op_place(rv['op']) is not None:
                    cur = op_place(rv['op'])['l']
                else:
                    return None
            return None
        cmps = []
        for bb, t in b.calls():
            nm = strip_generics(t.get('decl') or t.get('callee') or '')
            if not ORDER.search(nm) or len(t['args']) != 2:
                continue
            ra, rb = root(t['args'][0]), root(t['args'][1])
            if ra is not None and rb is not None:
                cmps.append((bb, nm.split('::')[-1]))
        ok = not cmps
        r7.inst({'native': b.nid, 'raw_index_arguments_normalised': len(sites), 'ordering_comparisons_between_raw_indices': len(cmps)}, ok=ok, kind=b.nid)
        for bb, op in cmps:
            r7.fail('%s/raw-order/%s' % (b.nid, op), mirq.site(b, bb), 'two index arguments are ordered (%s) before value_to_idx normalises them: a negative index denotes a position from the end, so the order of the raw numbers is not the order of the positions' % op)
    r7.need(3)

    # ---------------- R15.8
    r8 = ctx.rule('R15.8', 'optional bounds (None = unbounded) are never ordered with the derived Option ordering (None < Some)')
    OPTB = re.compile(r'^&*\s*(std|core)::option::Option<(usize|u64|&usize)>')
    for b in mir.bodies:
        if b.file not in ('src/builtin/sequence.rs', 'src/builtin/generators.rs'):
            continue
        bounds = [l for l in range(len(b.locals)) if OPTB.match((b.local_ty(l) or '').replace('&mut ', '&'))]
        if not bounds:
            continue
        bad = []
        for bb, t in b.calls():
            sg = strip_generics(t.get('callee') or t.get('decl') or '')
            if not re.search(r'(Ord>::(min|max|cmp|clamp)|PartialOrd>::(lt|le|gt|ge|partial_cmp)|Ord::(min|max|cmp|clamp)|PartialOrd::(lt|le|gt|ge|partial_cmp))$', sg):
                continue
            if any(op_place(a) is not None and op_place(a)['l'] in bounds for a in t['args']):
                bad.append((bb, sg.split('::')[-1]))
        r8.inst({'fn': b.nid, 'optional_bounds': len(bounds), 'ordered_as_options': [x[1] for x in bad]}, ok=not bad, kind=b.nid)
        for bb, op in bad:
            r8.fail('%s/option-order/%s' % (b.nid, op), mirq.site(b, bb), 'two optional bounds are combined with the derived ordering of Option, in which None is the smallest value; for a bound None means unbounded (the largest): an infinite end erases a finite one')
    r8.need(3)

    index_validated_on_success(ctx)
    value_preserving_casts(ctx)


def index_validated_on_success(ctx):
    """R15.9: a native that takes a program-supplied index validates it with value_to_idx (normalises a negative index, yields the
    out-of-range error).  Every *success* return of such a native -- `Ok(v)` where v is not an error value built on the spot and not
    a propagated failure -- lies behind the validation: no path from the entry reaches it around every value_to_idx call."""
    mir = ctx.mir
    r9 = ctx.rule('R15.9', 'natives with an index argument return a value only on paths that have validated the index')
    from .lib.facts import callee_name
    for b in mir.bodies:
        if b.file not in ('src/builtin/sequence.rs', 'src/builtin/stack.rs') or b.kind != 'closure':
            continue
        v = [bb for bb, t in b.calls() if strip_generics(callee_name(t) or '').endswith('::value_to_idx')]
        if not v:
            continue
        free, todo = set(), [0]
        while todo:
            x = todo.pop()
            if x in free or x in v or b.is_cleanup(x):
                continue
            free.add(x)
            todo += b.succ(x)
        fn = strip_generics(mir.enclosing_fn(b))
        n_success = 0
        for i, j, s in b.stmts():
            if not (s['k'] == 'assign' and not s['place']['p'] and s['place']['l'] == 0 and s['rv']['k'] == 'agg' and s['rv'].get('v') == 'Ok' and s['rv']['ops']):
                continue
            # an error value built on the spot: Ok(TailedEvalResult::Value(Err(..)))
            l = op_local(s['rv']['ops'][0])
            err = False
            for _ in range(3):
                ds = b.defs().get(l, []) if l is not None else []
                if len(ds) != 1 or ds[0][0] != 'stmt' or ds[0][3]['rv']['k'] != 'agg' or not ds[0][3]['rv'].get('ops'):
                    break
                if ds[0][3]['rv'].get('v') == 'Err':
                    err = True
                    break
                l = op_local(ds[0][3]['rv']['ops'][0])
            if err:
                continue
            n_success += 1
            ok = i not in free
            r9.inst({'native': fn, 'success_return': mirq.site(b, i, j), 'behind_value_to_idx': ok}, ok=ok, kind=(b.nid, i))
            if not ok:
                r9.fail('%s/success-without-index-validation' % fn.split('::')[-1], mirq.site(b, i, j), 'this native returns a value on a path that never validated the index argument: an out-of-range index is accepted there (pop([7], 5) returns [] instead of the out-of-range error)')
        if not n_success:
            r9.fail('%s/no-success-return' % fn.split('::')[-1], b.file, 'no success return recognised in a native that validates an index (fail closed)')
    r9.need(4)


CAST_OK = {
    ('builtin::sequence::XSequence::len', 'i128', 'usize'): 'the element count of a range whose bounds are 64-bit: 1 + (span - 1) / |step| <= 2^64 - 1 under the dominating start < end / start > end test',
    ('builtin::floats::add_float_priv_tpl', 'i16', 'usize'): 'the binary exponent of a finite f64 from integer_decode, negated in the branch where it is negative: 0 <= e <= 1074',
}
_W = {'i8': (8, True), 'i16': (16, True), 'i32': (32, True), 'i64': (64, True), 'i128': (128, True), 'isize': (64, True),
      'u8': (8, False), 'u16': (16, False), 'u32': (32, False), 'u64': (64, False), 'u128': (128, False), 'usize': (64, False)}


def value_preserving_casts(ctx):
    """R15.10: an `as` cast between integer types keeps the value only when the target can hold every value of the source (wider, or
    as wide with the same signedness, or unsigned into a strictly wider signed type).  Any other integer cast in the builtins -- a
    length `as isize`, a 128-bit count `as usize` -- silently wraps or truncates, and is listed with the reason why the value fits
    at that site; an unlisted one is reported."""
    mir = ctx.mir
    r10 = ctx.rule('R15.10', 'integer `as` casts in the builtins keep the value (widening) or are listed with the bound that makes them exact')
    for b in mir.bodies:
        if not b.file.startswith('src/builtin/') or '::tests::' in b.nid:
            continue
        for i, j, s in b.stmts():
            if not (s['k'] == 'assign' and s['rv']['k'] == 'cast' and 'IntToInt' in str(s['rv'].get('ck'))):
                continue
            fr, to = s['rv'].get('from'), s['rv'].get('ty')
            if fr not in _W or to not in _W:
                continue
            (wf, sf), (wt, st) = _W[fr], _W[to]
            keeps = (sf == st and wt >= wf) or (not sf and st and wt > wf)
            fn = strip_generics(mir.enclosing_fn(b)) if b.kind == 'closure' else b.nid
            why = CAST_OK.get((fn, fr, to))
            if why is None and not keeps and b.kind == 'fn':
                # a private helper called only from a listed function carries the arithmetic that was lifted out of it
                owners = {f for (f, a_, b_) in CAST_OK if (a_, b_) == (fr, to)}
                if owners and mirq.private_helper_of(mir, b, owners, depth=1):
                    own = sorted(o for o in owners if any(c[0].nid.split('::{closure')[0] == o for c in mir.callers_index().get(b.nid, [])))
                    if own:
                        why = 'private helper of %s: %s' % (own[0].split('::')[-1], CAST_OK[(own[0], fr, to)])
            ok = keeps or why is not None
            r10.inst({'fn': fn, 'site': mirq.site(b, i, j), 'cast': '%s as %s' % (fr, to), 'value_preserving': keeps, 'listed': why is not None}, ok=ok, kind=(b.nid, i, j))
            if why is not None and not keeps:
                r10.exempted('%s: %s as %s' % (fn, fr, to), why)
            if not ok:
                r10.fail('%s/cast/%s-as-%s' % (fn, fr, to), mirq.site(b, i, j), '`%s as %s` does not keep every value (it wraps or truncates) and the site is not listed with a bound: a length of 2^63 or more cast to a signed word turns negative, so e.g. every negative index of a sequence that long is reported as out of range' % (fr, to))
    r10.need(5)
