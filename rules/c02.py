"""C02 — core evaluation follows the documented semantics.  Table and ordering clauses:
  R02.1  operator tables agree: grammar tokens <-> climber table <-> dispatch arms <-> interned function names <-> book;
         precedence tiers follow the book's resolution order; `**` is right-associative; unary and index sugar likewise
  R02.2  ordered-choice prefix safety of literal tokens in the grammar
  R02.3  sugar preserves order: the receiver is the first argument, the rest follow in textual order
  R02.4  the evaluator evaluates operands strictly, once, left to right (no reversal, one eval per operand)
  R02.5  natives evaluate each argument at most once per path, in index order, and never look inside an argument expression
  R02.6  the set of natives that can return a value without evaluating a declared parameter is exactly the documented
         short-circuit set (plus listed identity/handler functions)
"""
import re
from .lib import astq, natives, book
from .lib.grammar import Grammar
from .lib.facts import find_nodes, walk

PF = 'src/parser.rs'

# natives allowed to skip a parameter although the book does not call them short-circuiting: (fn, K) -> reason
SKIP_OK = {
    ('add_generic_if_error_specific', 1): 'the message is only needed when the first argument is an error (documented: evaluated "if needed")',
    ('add_generic_if_error_specific', 2): 'documented short-circuit parameter',
}


def src(n):
    return re.sub(r'\s+', '', n.get('s') or '')


def branch_path(ps, node):
    """list of (id(if/match node), branch label) ancestors that make the node conditional"""
    out = []
    for idx, p in enumerate(ps):
        nxt = ps[idx + 1] if idx + 1 < len(ps) else node
        if p.get('k') == 'if':
            if any(x is nxt for x in p['then']) or find_nodes(p['then'], lambda y: y is node):
                out.append((id(p), 'then'))
            elif p.get('else') is not None and (p['else'] is nxt or find_nodes(p['else'], lambda y: y is node)):
                out.append((id(p), 'else'))
        elif p.get('k') == 'match':
            for ai, a in enumerate(p['arms']):
                if find_nodes(a['body'], lambda y: y is node):
                    out.append((id(p), 'arm%d' % ai))
        elif p.get('k') == 'closure':
            out.append((id(p), 'closure'))
    return out


def compatible(a, b):
    da, db = dict(a), dict(b)
    for k in set(da) & set(db):
        if da[k] != db[k]:
            return False
    return True


def run(ctx):
    ast = ctx.ast
    G = Grammar(ctx.grammar)
    ctx.explanation = ('Agreement of the operator tables (grammar, precedence climber, dispatch arms, interned names, book), prefix-safety of '
                       'token choices, order preservation of the desugarings, forward single evaluation in the evaluator, and for every native '
                       'closure: each argument evaluated at most once per path in index order, opaque argument expressions, and the short-circuit '
                       'set compared with the documented one.')
    ctx.trusted = ['pest_meta / syn parse', 'the book (lang/functions.md, std/*.md)', 'pest PrecClimber semantics']
    ctx.assumptions = ['arithmetic results, precedence behaviour on all expression shapes and output text are NOT decided (only the tables)']
    fns = {fn['name']: fn for f, fn, im in astq.all_fns(ast) if f == PF}
    pe = fns.get('parse_expr')
    r1 = ctx.rule('R02.1', 'operator tables agree (grammar, climber, dispatch, names, book)')
    if pe is None:
        r1.fail('anchor/parse_expr', PF, 'parse_expr not found')
        return
    # grammar: token literal of each operator rule
    def tok(rule):
        e = G.rules[rule]['expr']
        return e['v'] if e['k'] == 'str' else None
    bin_rules = sorted(G.choice_alternatives('BINARY_OP') or [])
    un_rules = sorted(G.choice_alternatives('UNARY_OP') or [])
    # climber: Operator::new(Rule::X, Assoc) grouped by `|` inside vec![..]
    climber = None
    for n, ps in find_nodes(ast['files'][PF], lambda y: y.get('k') == 'lazy_static' and y['name'] == 'CLIMBER'):
        climber = n
    tiers = []
    if climber is not None:
        vecs = [m for m, _ in find_nodes(climber['init'], lambda y: y.get('k') == 'macro' and y['name'] == 'vec')]
        if vecs:
            for el in vecs[0]['args']:
                ops = [(re.search(r'Rule::(\w+)', src(c['args'][0])).group(1), src(c['args'][1])) for c, _ in find_nodes(el, lambda y: y.get('k') == 'call' and src(y['func']) == 'Operator::new')]
                tiers.append(ops)
    climb_rules = {r: (ti, assoc) for ti, t in enumerate(tiers) for r, assoc in t}
    # dispatch arms in the climb closure: Rule::X => sym_var ; and sym_var -> interned name by tuple position
    names_by_var = {}
    for st, ps in find_nodes(pe['body'], lambda y: y.get('k') == 'let' and y['pat'].get('k') == 'ptuple' and y.get('init') is not None and y['init'].get('k') == 'tuple'):
        pv = [p.get('name') for p in st['pat']['elems']]
        iv = []
        for e in st['init']['elems']:
            m = [astq.str_lit(a) for c, _ in find_nodes(e, lambda y: y.get('k') == 'mcall' and y['method'] == 'get_or_intern_static') for a in c['args']]
            iv.append(m[0] if m else None)
        if len(pv) == len(iv):
            names_by_var.update(dict(zip(pv, iv)))
    arm_name = {}
    for m, ps in find_nodes(pe['body'], lambda y: y.get('k') == 'match'):
        for a in m['arms']:
            mm = re.match(r'^Rule::(BINARY_\w+)$', src(a['pat']))
            if mm and a['body'].get('k') == 'path':
                arm_name[mm.group(1)] = names_by_var.get(a['body']['path'])
    # book: token -> name
    doc = ctx.book('lang/functions.md')
    book_bin = re.findall(r'^\* `([^`]+)`: `(\w+)`', doc.split('XRay supports the following unary operators')[0], re.M)
    book_un = re.findall(r'^\* `([^`]+)`: `(\w+)`', doc.split('XRay supports the following unary operators')[1].split('\n## ')[0], re.M) if 'XRay supports the following unary operators' in doc else []
    book_bin_map = dict(book_bin)
    for r in bin_rules:
        t = tok(r)
        name = arm_name.get(r)
        ok = t is not None and r in climb_rules and name is not None and book_bin_map.get(t) == name
        r1.inst({'rule': r, 'token': t, 'climber_tier': climb_rules.get(r), 'dispatch_name': name, 'book_name': book_bin_map.get(t)}, ok=ok, kind=r)
        if r not in climb_rules:
            r1.fail('binary/%s/not-in-climber' % r, PF, 'operator rule %s (%r) is not in the precedence table: pest\'s climber stops at it and silently drops the rest of the expression' % (r, t))
        elif name is None:
            r1.fail('binary/%s/no-arm' % r, PF, 'operator rule %s has no dispatch arm naming its function' % r)
        elif book_bin_map.get(t) != name:
            r1.fail('binary/%s/name' % r, PF, 'operator %r is desugared to `%s` but the book documents `%s`' % (t, name, book_bin_map.get(t)))
    for t, name in book_bin:
        if t not in [tok(r) for r in bin_rules]:
            r1.fail('binary/book/%s' % name, 'book/src/lang/functions.md', 'documented operator %r has no grammar token' % t)
    for r in climb_rules:
        if r not in bin_rules:
            r1.fail('climber/%s/unknown' % r, PF, 'precedence table names %s which is not a binary operator of the grammar' % r)
    # precedence: the book lists operators from the tightest binding to the loosest; tiers in the vec go from loosest to tightest
    seq = [climb_rules.get(next((r for r in bin_rules if tok(r) == t), None), (None,))[0] for t, _ in book_bin]
    mono = all(a is not None and b is not None and a >= b for a, b in zip(seq, seq[1:]))
    r1.inst({'book_order_tiers': seq}, ok=mono)
    if not mono:
        r1.fail('precedence/order', PF, 'precedence tiers %s are not monotone along the book\'s resolution order' % seq)
    pw = next((r for r in bin_rules if tok(r) == '**'), None)
    assoc_ok = pw is not None and climb_rules.get(pw, (None, ''))[1].endswith('Right') and all(a.endswith('Left') for r, (ti, a) in climb_rules.items() if r != pw)
    r1.inst({'associativity': '** right, others left'}, ok=assoc_ok)
    if not assoc_ok:
        r1.fail('precedence/assoc', PF, '`**` must be right-associative and the other operators left-associative')
    # unary
    un_name = {}
    for m, ps in find_nodes(pe['body'], lambda y: y.get('k') == 'match'):
        for a in m['arms']:
            mm = re.match(r'^Rule::(UNARY_\w+)$', src(a['pat']))
            if mm:
                un_name[mm.group(1)] = astq.str_lit(a['body'])
    book_un_map = dict(book_un)
    for r in un_rules:
        t = tok(r)
        ok = un_name.get(r) is not None and (book_un_map.get(t) == un_name.get(r))
        r1.inst({'rule': r, 'token': t, 'dispatch_name': un_name.get(r), 'book_name': book_un_map.get(t)}, ok=ok, kind=r)
        if not ok:
            r1.fail('unary/%s' % r, PF, 'unary operator %r is desugared to %r, the book documents %r' % (t, un_name.get(r), book_un_map.get(t)))
    # index sugar -> get
    idx_ok = any(astq.str_lit(c['args'][0]) == 'get' for m, ps in find_nodes(pe['body'], lambda y: y.get('k') == 'match') for a in m['arms'] if src(a['pat']) == 'Rule::index'
                 for c, _ in find_nodes(a['body'], lambda y: y.get('k') == 'call' and src(y['func']).endswith('new_call')))
    r1.inst({'index_sugar': 'a[b] -> get(a, b)'}, ok=idx_ok)
    if not idx_ok:
        r1.fail('index/get', PF, 'index sugar is not desugared to `get`')
    r1.need(22)

    # ---------------- R02.2 prefix safety
    r2 = ctx.rule('R02.2', 'no earlier literal alternative is a proper prefix of a later one')
    for cname in G.order:
        rule = G.rules[cname]
        br = G.branches(rule['expr'])
        if len(br) < 2:
            continue
        lits = []
        for b in br:
            if b['k'] == 'str':
                lits.append(b['v'])
            elif b['k'] == 'ident' and b['v'] in G.rules and G.rules[b['v']]['expr']['k'] == 'str':
                lits.append(G.rules[b['v']]['expr']['v'])
            else:
                lits.append(None)
        if sum(1 for l in lits if l is not None) < 2:
            continue
        bad = [(a, b) for i, a in enumerate(lits) for b in lits[i + 1:] if a and b and b.startswith(a) and a != b]
        r2.inst({'choice': cname, 'literals': [l for l in lits if l]}, ok=not bad, kind=cname)
        for a, b in bad:
            r2.fail('%s/%s<%s' % (cname, a, b), 'src/xray.pest', 'in the ordered choice `%s` the alternative %r precedes %r of which it is a prefix: %r can never be matched' % (cname, a, b, b))
    r2.need(3)

    # ---------------- R02.3 sugar preserves order
    r3 = ctx.rule('R02.3', 'method / index / f-string sugar keeps the receiver first and the rest in textual order')
    for m, ps in find_nodes(pe['body'], lambda y: y.get('k') == 'match'):
        for a in m['arms']:
            p = src(a['pat'])
            if p in ('Rule::method', 'Rule::index'):
                # the accumulator of the accessor fold: the variable this arm assigns the new call expression to
                accs = [src(x['left']) for x, _ in find_nodes(a['body'], lambda y: y.get('k') == 'assign' and y['left'].get('k') == 'path')]
                acc = accs[-1] if accs else 'ret'
                # what is put into the argument list first?  (a) once(Ok(acc)).chain(..)  (b) vec![acc] then push in a loop
                # (c) Vec::new() + push(acc) before the loop
                firsts = []
                for ch, _ in find_nodes(a['body'], lambda y: y.get('k') == 'mcall' and y['method'] == 'chain'):
                    m0 = re.match(r'^(?:std::)?iter::once\((?:Ok\()?(\w+)\)?\)$', src(ch['recv']))
                    if m0:
                        firsts.append(m0.group(1))
                for mc, _ in find_nodes(a['body'], lambda y: y.get('k') == 'macro' and y['name'] == 'vec'):
                    els = [src(x) for x in (mc.get('args') or [])]
                    if els:
                        firsts.append(els[0])
                pushes = [c for c, _ in find_nodes(a['body'], lambda y: y.get('k') == 'mcall' and y['method'] == 'push')]
                if not firsts and pushes:
                    firsts.append(src(pushes[0]['args'][0]) if pushes[0]['args'] else '?')
                # the receiver appended *after* other elements: chain(once(acc)) / a push(acc) that is not the first push
                appended = [c for c, _ in find_nodes(a['body'], lambda y: y.get('k') == 'mcall' and y['method'] == 'chain' and y['args'] and re.search(r'iter::once\((?:Ok\()?%s\b' % re.escape(acc), src(y['args'][0])))]
                appended += [c for c in pushes[1:] if c['args'] and src(c['args'][0]) == acc]
                recv_first = bool(firsts) and all(f == acc for f in firsts) and not appended
                reorder = find_nodes(a['body'], lambda y: y.get('k') == 'mcall' and y['method'] in ('rev', 'sort', 'sort_by', 'reverse', 'swap', 'rotate_left', 'rotate_right', 'insert'))
                ok = recv_first and not reorder
                r3.inst({'sugar': p.split('::')[1], 'receiver_first': recv_first, 'reordering_calls': len(reorder)}, ok=ok, kind=p)
                if not ok:
                    r3.fail('%s/order' % p.split('::')[1], '%s:%d' % (PF, a['line']), 'the desugaring of `%s` does not put the receiver first followed by the arguments in textual order' % p.split('::')[1])
            if p == 'Rule::FORMATTED_STRING':
                pushes = find_nodes(a['body'], lambda y: y.get('k') == 'mcall' and y['method'] == 'push' and src(y['recv']) == 'parts')
                reorder = find_nodes(a['body'], lambda y: y.get('k') == 'mcall' and y['method'] in ('rev', 'sort', 'reverse', 'swap', 'insert'))
                # one push per part inside the loop over the parts, or the parts mapped and collected (an iterator keeps the order)
                collected = find_nodes(a['body'], lambda y: y.get('k') == 'mcall' and y['method'] == 'collect')
                ok = (len(pushes) == 1 or (not pushes and bool(collected))) and not reorder
                r3.inst({'sugar': 'f-string', 'parts_pushed_in_loop_order': ok}, ok=ok)
                if not ok:
                    r3.fail('fstring/order', '%s:%d' % (PF, a['line']), 'f-string parts are not collected in textual order')
            if p == 'Rule::expression1':
                # prefix operators apply innermost-first: iterate the reversed children, operand first
                ok = 'into_inner().rev()' in src(a['body']) or bool(find_nodes(a['body'], lambda y: y.get('k') == 'mcall' and y['method'] == 'rev'))
                r3.inst({'sugar': 'unary chain', 'innermost_first': ok}, ok=ok)
                if not ok:
                    r3.fail('unary/order', '%s:%d' % (PF, a['line']), 'prefix operators are not applied from the operand outwards')
    r3.need(4)

    # ---------------- R02.4 evaluator
    r4 = ctx.rule('R02.4', 'evaluator: operands evaluated once, forward')
    rs = [fn for f, fn, im in astq.all_fns(ast) if f == 'src/runtime_scope.rs' and fn['name'] in ('eval', 'eval_func_with_expressions', 'from_template')]
    for fn in rs:
        rev = find_nodes(fn['body'], lambda y: y.get('k') == 'mcall' and y['method'] in ('rev', 'reverse', 'sort', 'sort_by', 'swap', 'rotate_left'))
        r4.inst({'fn': fn['name'], 'reordering_calls': len(rev)}, ok=not rev, kind=fn['name'])
        if rev:
            r4.fail('%s/reorder' % fn['name'], 'src/runtime_scope.rs:%d' % rev[0][0]['line'], 'the evaluator reorders operands (%s)' % rev[0][0]['method'])
        if fn['name'] == 'eval':
            for m, ps in find_nodes(fn['body'], lambda y: y.get('k') == 'match'):
                if ps:
                    continue
                for a in m['arms']:
                    evs = [c for c, _ in find_nodes(a['body'], lambda y: y.get('k') == 'mcall' and y['method'] == 'eval')]
                    # each distinct operand expression is evaluated by at most one eval call site
                    operands = [src(c['args'][0]) for c in evs if c['args']]
                    dup = [o for o in set(operands) if operands.count(o) > 1 and o not in ('x', 'e')]
                    arm = src(a['pat'])[:40]
                    # the Call arm has two syntactic evaluations of `x` (tail-call branch returns before the other)
                    r4.inst({'arm': arm, 'eval_sites': len(evs)}, ok=not dup, kind=arm)
                    if dup:
                        r4.fail('eval/%s/double' % arm, 'src/runtime_scope.rs:%d' % a['line'], 'operand %s is evaluated at two sites of one arm' % dup)
    r4.need(8)

    # ---------------- R02.5 / R02.6 natives
    r5 = ctx.rule('R02.5', 'natives: each argument at most once per path, in index order; argument expressions opaque')
    r6 = ctx.rule('R02.6', 'natives that can skip a declared parameter are exactly the documented short-circuit functions')
    regs = natives.registrations(ast)
    documented = {}
    for sc in book.short_circuits(ctx.repo):
        if sc.get('params'):
            documented.setdefault((sc['name'], len(sc['params'])), set()).update(sc['sc'])
    skippers = {}
    for g in regs:
        if not g['impl'] or g['impl'][0] != 'native':
            continue
        cl = g['impl'][2]
        ident = g['fn']
        p0 = cl['inputs'][0] if cl['inputs'] else None
        while p0 is not None and p0.get('k') == 'ptype':
            p0 = p0['pat']
        argname = p0.get('name') if p0 is not None and p0.get('k') == 'pident' else None
        if argname is None:
            continue
        evals = []   # (K, line, branch_path)
        for n, ps in find_nodes(cl['body'], lambda y: (y.get('k') == 'call' and src(y['func']) == 'eval') or (y.get('k') == 'mcall' and y['method'] == 'eval')):
            e = n['args'][0] if n['args'] else None
            if e is None:
                continue
            # inside a nested closure that has its own parameter of the same name: a different native
            if any(p.get('k') == 'closure' and any(x.get('name') == argname for x, _ in find_nodes(p['inputs'], lambda y: y.get('k') == 'pident')) for p in ps):
                continue
            idxs = [int(x['index']['value']) for x, _ in find_nodes(e, lambda y: y.get('k') == 'index' and natives.strip(y['base']).get('path') == argname and y['index'].get('k') == 'lit')]
            dyn = [x for x, _ in find_nodes(e, lambda y: y.get('k') == 'index' and natives.strip(y['base']).get('path') == argname and y['index'].get('k') != 'lit')]
            bp = branch_path(ps, n)
            # args.get(K).map(|e| eval(e ..)): the eval is inside a closure called on the K-th argument
            getk = None
            for p in ps:
                if p.get('k') == 'mcall' and p['method'] in ('map', 'and_then'):
                    for x, _ in find_nodes(p['recv'], lambda y: y.get('k') == 'mcall' and y['method'] == 'get' and natives.strip(y['recv']).get('path') == argname and y['args'] and y['args'][0].get('k') == 'lit'):
                        getk = int(x['args'][0]['value'])
            if idxs:
                for k in idxs:
                    evals.append((k, n['line'], bp, 'direct'))
            elif dyn:
                ks = [int(x['value']) for d in dyn for x, _ in find_nodes(d['index'], lambda y: y.get('k') == 'lit' and y.get('lit') == 'int')]
                for i, k in enumerate(ks):
                    evals.append((k, n['line'], bp + [(id(dyn[0]), 'sel%d' % i)], 'selected'))
            elif getk is not None:
                evals.append((getk, n['line'], [x for x in bp if x[1] != 'closure'], 'optional'))
            else:
                es = src(e)
                if es in ('e', '&e', 'x', '&x') or 'inner_args' in es or re.match(r'^&?\w+$', es):
                    # iteration over (a suffix of) args or an expression obtained otherwise
                    it = None
                    for p in ps:
                        if p.get('k') == 'mcall' and p['method'] in ('map', 'for_each') and argname in src(p['recv']):
                            it = p
                        # `for a in args` / `for (a, x) in args.iter().zip(..)`: the loop variable is an element of args
                        if p.get('k') == 'for' and argname in re.findall(r'\w+', src(p.get('iter') or {})) \
                                and es.lstrip('&') in [x.get('name') for x, _ in find_nodes(p.get('pat') or {}, lambda y: y.get('k') == 'pident')]:
                            it = p
                    if it is None and argname not in es:
                        # a local bound to one of several argument references: `let sel = match c { true => &args[1], .. }`
                        name0 = es.lstrip('&')
                        sel = []
                        for lt, _lp in find_nodes(cl['body'], lambda y: y.get('k') == 'let' and y['pat'].get('k') == 'pident' and y['pat'].get('name') == name0 and y.get('init') is not None):
                            for x, _ in find_nodes(lt['init'], lambda y: y.get('k') == 'index' and natives.strip(y['base']).get('path') == argname and y['index'].get('k') == 'lit'):
                                sel.append(int(x['index']['value']))
                        if sel:
                            for i2, k2 in enumerate(sel):
                                evals.append((k2, n['line'], bp + [(('sel', name0), 'sel%d' % i2)], 'selected'))
                        else:
                            evals.append((None, n['line'], bp, 'foreign:' + es))
        # duplicates / order on compatible paths
        for i, a in enumerate(evals):
            for b in evals[i + 1:]:
                if a[0] is None or b[0] is None:
                    continue
                if not compatible(a[2], b[2]):
                    continue
                if a[0] == b[0]:
                    r5.fail('%s/arg%d/twice' % (ident, a[0]), '%s:%d' % (g['file'], b[1]), 'argument %d can be evaluated twice on one path (lines %d and %d)' % (a[0], a[1], b[1]))
                elif a[1] < b[1] and a[0] > b[0]:
                    r5.fail('%s/arg%d-before-arg%d' % (ident, a[0], b[0]), '%s:%d' % (g['file'], a[1]), 'argument %d is evaluated before argument %d' % (a[0], b[0]))
        for k, line, bp, how in evals:
            if how.startswith('foreign'):
                r5.fail('%s/foreign-eval' % ident, '%s:%d' % (g['file'], line), 'the native evaluates an expression that is not one of its arguments (%s): sub-expressions of an argument are evaluated again' % how[8:])
        destruct = find_nodes(cl['body'], lambda y: y.get('k') in ('ptuplestruct', 'pstruct', 'ppath') and re.match(r'^XExpr::', (y.get('path') or '').replace(' ', '')))
        if destruct:
            r5.fail('%s/inspects-argument-expression' % ident, '%s:%d' % (g['file'], destruct[0][0]['line']), 'the native pattern-matches on the shape of an argument expression (XExpr::..): evaluation depends on syntax, and parts of it can be evaluated twice')
        r5.inst({'native': ident, 'argument_evaluations': [(k, how) for k, _, _, how in evals]}, ok=True, kind=ident + str(g['line']))
        # R02.6: required parameters that some value-returning path does not evaluate
        req = len(g['spec']['required']) if g['spec'] else 0   # spec-less (dyn, variadic) natives: only the loop clause applies

        def is_eval_of(n, K):
            if not ((n.get('k') == 'call' and src(n['func']) == 'eval') or (n.get('k') == 'mcall' and n['method'] == 'eval')):
                return False
            e = n['args'][0] if n['args'] else None
            if e is None:
                return False
            for x, _ in find_nodes(e, lambda y: y.get('k') == 'index' and natives.strip(y['base']).get('path') == argname):
                if x['index'].get('k') == 'lit' and int(x['index']['value']) == K:
                    return True
            return False

        def value_return_inside(n):
            """does this statement contain a `return <value>` (not an error return) outside nested closures?"""
            for r, ps in find_nodes(n, lambda y: y.get('k') == 'return'):
                if any(p.get('k') == 'closure' for p in ps):
                    continue
                if any(p.get('k') == 'macro' and p['name'].split('::')[-1] in ('xraise', 'xraise_opt', 'forward_err') for p in ps):
                    continue
                t = src(r)
                if t.startswith('returnxerr(') or t.startswith('returnOk(Err(') or t.startswith('returnErr('):
                    continue
                return True
            return False

        def must(n, K):
            """is args[K] evaluated on every path through n that continues normally?"""
            if isinstance(n, list):
                for st in n:
                    if must(st, K):
                        return True
                    if value_return_inside(st):
                        return False
                return False
            if not isinstance(n, dict):
                return False
            k = n.get('k')
            if k is None:
                return any(must(v, K) for v in n.values() if isinstance(v, (dict, list)))
            if is_eval_of(n, K):
                return True
            if k == 'closure':
                return False
            if k == 'if':
                if must(n['cond'], K):
                    return True
                if n.get('else') is None:
                    return False
                return must(n['then'], K) and must(n['else'], K)
            if k == 'match':
                if must(n['expr'], K):
                    return True
                return bool(n['arms']) and all(must(a['body'], K) or re.match(r'^(return)?xerr\(', src(a['body'])) for a in n['arms'])
            if k in ('for', 'while', 'loop'):
                return must(n.get('iter') or n.get('cond') or {}, K)
            if k == 'macro':
                return any(must(a, K) for a in (n.get('args') or []))
            if k == 'binary' and n['op'] in ('&&', '||'):
                return must(n['left'], K)
            return any(must(v, K) for kk, v in n.items() if isinstance(v, (dict, list)))

        body = cl['body']
        # variadic natives evaluate their arguments in a loop over `args`: a value return inside that loop skips every
        # later argument (its error and its effects), whatever the declared arity
        for lp, lps in find_nodes(body, lambda y: y.get('k') == 'for' and argname in re.findall(r'\w+', src(y.get('iter') or {}))):
            if any(p.get('k') == 'closure' for p in lps):
                continue
            skips = value_return_inside(lp.get('body'))
            r6.inst({'native': ident, 'name': g['name'], 'loop_over_args': '%s:%d' % (g['file'], lp['line']), 'value_return_inside': skips}, ok=not skips, kind=(ident, 'loop', lp['line']))
            if skips:
                r6.fail('%s/returns-inside-args-loop' % ident, '%s:%d' % (g['file'], lp['line']), 'native `%s` returns a value from inside its loop over the arguments: the remaining arguments are never evaluated, so their errors and effects are silently skipped (not a documented short-circuit)' % g['name'])
        always_error = src(body).startswith('xerr(')
        iterates_all = bool(find_nodes(cl['body'], lambda y: y.get('k') == 'mcall' and y['method'] in ('iter', 'map', 'skip') and natives.strip(y['recv']).get('path') == argname))
        for K in range(req):
            if always_error or iterates_all:
                continue
            if not must(body, K):
                skippers.setdefault((g['name'], len(g['spec']['required']) + len(g['spec']['optional']), ident, g['file'], g['line']), set()).add(K)
    for (name, arity, ident, f, line), ks in sorted(skippers.items(), key=lambda x: (str(x[0][0]), x[0][2])):
        doc = documented.get((name, arity), set())
        for K in sorted(ks):
            ok = K in doc or (ident, K) in SKIP_OK
            r6.inst({'native': ident, 'name': name, 'skips_param': K, 'documented': K in doc}, ok=ok, kind=(ident, K))
            if (ident, K) in SKIP_OK and K not in doc:
                r6.exempted('%s param %d' % (ident, K), SKIP_OK[(ident, K)])
            if not ok:
                r6.fail('%s/skips-arg%d' % (ident, K), '%s:%d' % (f, line), 'native `%s` can return a value without evaluating its parameter %d, but the book does not document it as short-circuiting: an error or effect in that argument is silently skipped' % (name, K))
    # and conversely: every documented short-circuit parameter is really skipped by the native registered under that name/arity
    for (name, arity), ks in sorted(documented.items()):
        found = [k for k in skippers if k[0] == name and k[1] == arity]
        for K in sorted(ks):
            ok = any(K in skippers[k] for k in found)
            r6.inst({'documented': name, 'arity': arity, 'param': K, 'native_skips_it': ok}, ok=ok, kind=('doc', name, arity, K))
            if not ok:
                r6.fail('doc/%s-%d/arg%d/not-skipped' % (name, arity, K), 'book', 'the book documents `%s` as short-circuiting for parameter %d but no native of that name and arity can skip it' % (name, K))
    r5.need(150)
    r6.need(12)
