"""C16 — generators denote fixed lazy streams.  Structural clauses:
  R16.1  re-iterability: a generator value is an immutable description (audit R15.1) and _iter(&self) never writes through
         self; every per-iteration state is created inside _iter
  R16.2  laziness: inside _iter no absorbing adaptor (collect, count, last, fold, sum, ...) is applied to an inner _iter
  R16.3  slice dimension consistency: the stored end is absolute, so the number taken depends on both end and start;
         nested slices are merged by adding the inner start
"""
import re
from .lib import mirq, astq, immut
from .lib.facts import strip_generics, find_nodes, op_local, op_place

GEN = 'builtin::generators::XGenerator'
F = 'src/builtin/generators.rs'
ABSORB = re.compile(r'^(std|core)::iter::Iterator::(collect|count|last|fold|sum|product|max|min|max_by|min_by|for_each|reduce|nth|all|any|find|position|try_fold)$|^itertools::Itertools::(collect_vec|sorted|sorted_by|counts|unique)$')


def src(n):
    return re.sub(r'\s+', '', n.get('s') or '')


def run(ctx):
    mir = ctx.mir
    ast = ctx.ast
    ctx.explanation = ('Re-iterability from immutability plus the absence of writes through self in _iter; laziness as the absence of absorbing '
                       'adaptors on inner iterators inside _iter; consistency of the slice dimensions between the merging constructor and the consumer.')
    ctx.trusted = ['rustc MIR', 'syn parse', 'std iterator adaptor laziness']
    ctx.assumptions = ['element-wise agreement with list pipelines is NOT decided (value level)']
    r1 = ctx.rule('R16.1', 'generator values are immutable descriptions; _iter never writes through self')
    immut.audit(ctx, r1)
    fam = [b for b in mir.bodies if b.nid == GEN + '::_iter' or b.nid.startswith(GEN + '::_iter::{closure')]
    if not fam:
        r1.fail('anchor/_iter', F, '_iter not found')
    top = [b for b in fam if b.nid == GEN + '::_iter']
    if top:
        ty1 = top[0].local_ty(1)
        ok = ty1.startswith('&') and not ty1.startswith('&mut')
        r1.inst({'_iter receiver': ty1[:60]}, ok=ok)
        if not ok:
            r1.fail('_iter/receiver', mirq.site(top[0], 0), '_iter does not take &self')
        for i, j, s in top[0].stmts():
            for mode, p in mirq.places_in_stmt(s):
                if mode in ('w', 'm') and p['l'] == 1 and p['p']:
                    r1.fail('_iter/self-write', mirq.site(top[0], i, j), '_iter writes through self')
    # ---------------- R16.2
    r2 = ctx.rule('R16.2', 'no absorbing adaptor is applied to an inner iterator inside _iter')
    for b in fam:
        for bb, t in b.calls():
            nms = [strip_generics(x) for x in (t.get('decl'), t.get('callee')) if x]
            hit = [n for n in nms if ABSORB.match(n)]
            if not hit:
                continue
            nm = hit[0]
            # receiver derives from an inner _iter (a boxed / impl iterator of generator items)?
            aty = (t.get('argtys') or [''])[0]
            base = aty[5:] if aty.startswith('&mut ') else aty
            # the MultiEither / Either wrappers returned by _iter itself
            inner = base.startswith('itertools::Either<') and 'xvalue::ManagedXValue' in base and t.get('callee') != t.get('decl') or base.startswith('std::boxed::Box<dyn std::iter::Iterator<Item = std::result::Result<std::result::Result<std::rc::Rc<xvalue::ManagedXValue') or base.startswith('impl Iterator<Item = std::result::Result<std::result::Result<std::rc::Rc<xvalue::ManagedXValue')
            sl = mirq.backslice(b, [op_local(t['args'][0])] if t['args'] and op_local(t['args'][0]) is not None else [])
            from_iter = any(strip_generics(t2.get('callee') or '') in (GEN + '::_iter', GEN + '::iter') and not t2['dest']['p'] and t2['dest']['l'] in sl for _, t2 in b.calls())
            bad = inner or from_iter
            r2.inst({'body': b.id, 'site': mirq.site(b, bb), 'adaptor': nm.split('::')[-1], 'on_inner_iterator': bad}, ok=not bad, kind=(b.id, bb))
            if bad:
                r2.fail('%s/%s' % (b.nid, nm.split('::')[-1]), mirq.site(b, bb), '`%s` consumes an inner generator inside _iter: an infinite source is never yielded from (not lazy, unbounded work)' % nm.split('::')[-1])
    n_inner = sum(1 for b in fam for _, t in b.calls() if strip_generics(t.get('callee') or '') == GEN + '::_iter')
    r2.inst({'inner _iter calls scanned': n_inner}, kind='scan')
    if n_inner < 10:
        r2.fail('anchor/inner-iters', F, 'fewer recursive _iter calls than confirmed by hand')
    r2.need(2)

    # ---------------- R16.3
    r3 = ctx.rule('R16.3', 'slice: absolute end stored, end-start taken, nested slices merged by adding the inner start')
    fns = {fn['name']: fn for f, fn, im in astq.all_fns(ast) if f == F and im is not None and 'XGenerator' in im.get('self_ty', '')}
    it = fns.get('_iter')
    sl = fns.get('slice')
    if not it or not sl:
        r3.fail('anchor/slice', F, '_iter / slice not found')
    else:
        arms = [a for m, _ in find_nodes(it['body'], lambda y: y.get('k') == 'match') for a in m['arms'] if src(a['pat']).startswith('Self::Slice(')]
        ok = False
        if arms:
            takes = [c for c, _ in find_nodes(arms[0]['body'], lambda y: y.get('k') == 'mcall' and y['method'] == 'take')]
            for c in takes:
                a = src(c['args'][0]) if c['args'] else ''
                if 'end' in a and 'start' in a and ('-' in a or 'sub' in a):
                    ok = True
            skips = [c for c, _ in find_nodes(arms[0]['body'], lambda y: y.get('k') == 'mcall' and y['method'] == 'skip')]
            ok = ok and all('start' in src(c['args'][0]) for c in skips) and bool(skips)
        r3.inst({'consumer': 'skip(start).take(end - start)'}, ok=ok)
        if not ok:
            r3.fail('_iter/Slice/take', '%s:%d' % (F, it['line']), 'the Slice consumer does not take end - start elements although slice() stores an absolute end')
        body = ''.join(src(x) for x, _ in find_nodes(sl['body'], lambda y: 's' in y and y.get('k') in ('binary', 'mcall', 'call')))
        ok2 = 'inner_start+start' in body and 'e+inner_start' in body and '.min()' in body
        r3.inst({'merge': 'Slice(inner, inner_start+start, min(inner_end, end+inner_start))'}, ok=ok2)
        if not ok2:
            r3.fail('slice/merge', '%s:%d' % (F, sl['line']), 'slice() no longer merges nested slices with absolute positions (inner_start+start, min(inner_end, end+inner_start))')
    r3.need(2)
