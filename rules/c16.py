"""C16 — generators denote fixed lazy streams.  Structural clauses:
  R16.1  re-iterability: a generator value is an immutable description (audit R15.1) and _iter(&self) never writes through
         self; every per-iteration state is created inside _iter
  R16.2  laziness: inside _iter no absorbing adaptor (collect, count, last, fold, sum, ...) is applied to an inner _iter
  R16.3  slice dimension consistency: the stored end is absolute, so the number taken depends on both end and start;
         nested slices are merged by adding the inner start
"""
import re
from .lib import mirq, astq, immut
from .lib.facts import strip_generics, find_nodes, op_local, op_place

GEN = 'builtin::generators::XGenerator'
F = 'src/builtin/generators.rs'
ABSORB = re.compile(r'^(std|core)::iter::Iterator::(collect|count|last|fold|sum|product|max|min|max_by|min_by|for_each|reduce|nth|all|any|find|position|try_fold)$|^itertools::Itertools::(collect_vec|sorted|sorted_by|counts|unique)$')


def src(n):
    return re.sub(r'\s+', '', n.get('s') or '')


def slice_dimensions(ctx, r3):
    """XGenerator::slice(base, start, end) stores Slice(inner, start', end') with an *absolute* end.  Necessary conditions,
    checked on every path of the MIR:
      merge (base is itself a Slice(inner, inner_start, inner_end)):
        start' depends on inner_start and start;
        whenever `end` may be Some, end' depends on end and inner_start (end + inner_start);
        whenever `inner_end` may be Some, end' depends on inner_end (the earlier bound still binds);
      plain: start' depends on start only, end' on end only;
      consumer (_iter, Slice arm): the count handed to take() depends on both the stored end and the stored start, the count
        handed to skip() on the stored start."""
    from .lib.pathdeps import PathDeps
    mir = ctx.mir
    bs = mir.find(GEN + '::slice')
    if len(bs) != 1:
        r3.fail('anchor/slice', F, 'XGenerator::slice not found in the MIR')
        return
    b = bs[0]
    dbg = {v['name']: v['val'] for v in b.dbg if 'l' in v['val']}
    pstart = dbg.get('start', {}).get('l')
    pend = dbg.get('end', {}).get('l')
    if b.d['argc'] != 3 or pstart is None or pend is None:
        # parameters by position: (base, start, end)
        pstart, pend = 2, 3

    def source_of(p):
        fields = [e for e in p['p'] if isinstance(e, dict)]
        for i, e in enumerate(fields):
            if e.get('dc') == 'Slice' and i + 1 < len(fields) and 'f' in fields[i + 1]:
                return {0: 'inner', 1: 'inner_start', 2: 'inner_end'}.get(fields[i + 1]['f'])
        if p['l'] == pstart:
            return 'start'
        if p['l'] == pend:
            return 'end'
        return None

    pd = PathDeps(b, source_of)
    aggs = [(i, j, s) for i, j, s in b.stmts() if s['k'] == 'assign' and s['rv']['k'] == 'agg' and s['rv'].get('ak') == 'adt'
            and s['rv']['adt'].endswith('generators::XGenerator') and s['rv']['v'] == 'Slice']
    n_merge = n_plain = 0
    for i, j, s in aggs:
        paths, trunc = pd.run(i, 'stmt', j)
        if trunc or not paths:
            r3.fail('slice/paths', mirq.site(b, i, j), 'could not enumerate the paths to this Slice construction')
            continue
        merged = any('inner' in pth['deps'][0] for pth in paths)
        for pth in paths:
            d0, d1, d2 = pth['deps'][:3]
            kn = pth['known']
            probs = []
            if merged:
                if not {'inner_start', 'start'} <= d1:
                    probs.append(('start', 'the merged start does not depend on both the inner start and the new start (%s)' % sorted(d1)))
                if kn.get('end') != 0 and not {'end', 'inner_start'} <= d2:
                    probs.append(('end-new', 'on a path where the new end may be present, the merged end does not depend on it and on the inner start (%s)' % sorted(d2)))
                if kn.get('inner_end') != 0 and 'inner_end' not in d2:
                    probs.append(('end-inner', 'on a path where the inner slice may already be bounded, the merged end does not depend on that bound (%s): a later take() re-opens the stream past the earlier one' % sorted(d2)))
            else:
                if 'start' not in d1:
                    probs.append(('plain-start', 'the stored start does not depend on the start argument'))
                if kn.get('end') != 0 and 'end' not in d2:
                    probs.append(('plain-end', 'the stored end does not depend on the end argument'))
            r3.inst({'site': mirq.site(b, i, j), 'kind': 'merge' if merged else 'plain', 'known_on_path': kn, 'start_from': sorted(d1), 'end_from': sorted(d2)}, ok=not probs, kind=('merge' if merged else 'plain', tuple(sorted(kn.items()))))
            for key, msg in probs:
                r3.fail('slice/%s' % key, mirq.site(b, i, j), 'XGenerator::slice: ' + msg)
        if merged:
            n_merge += 1
        else:
            n_plain += 1
    if n_merge < 1 or n_plain < 1:
        r3.fail('anchor/slice-sites', mirq.site(b, 0), 'expected one merging and one plain construction of Slice in XGenerator::slice (found %d / %d)' % (n_merge, n_plain))
    # consumer
    fam = [x for x in mir.bodies if x.nid == GEN + '::_iter' or x.nid.startswith(GEN + '::_iter::{closure')]

    def src2(p):
        fields = [e for e in p['p'] if isinstance(e, dict)]
        for i2, e in enumerate(fields):
            if e.get('dc') == 'Slice' and i2 + 1 < len(fields) and 'f' in fields[i2 + 1]:
                return {0: 'gen', 1: 'stored_start', 2: 'stored_end'}.get(fields[i2 + 1]['f'])
        return None
    n_take = n_skip = 0
    for x in fam:
        pdx = None
        for bb, tm in x.calls():
            nm = strip_generics(tm.get('decl') or tm.get('callee') or '')
            if nm not in ('std::iter::Iterator::take', 'std::iter::Iterator::skip', 'std::iter::Iterator::skip_while') or len(tm['args']) < 2:
                continue
            pdx = pdx or PathDeps(x, src2)
            paths, trunc = pdx.run(bb, 'call')
            rel = [pth for pth in paths if pth['deps'][1] & {'stored_start', 'stored_end'} or 'gen' in pth['deps'][0]]
            if not rel:
                continue
            for pth in rel:
                d = pth['deps'][1]
                if nm.endswith('take'):
                    n_take += 1
                    ok = {'stored_start', 'stored_end'} <= d
                    r3.inst({'consumer': 'take', 'site': mirq.site(x, bb), 'count_from': sorted(d)}, ok=ok, kind=('take', x.nid, bb))
                    if not ok:
                        r3.fail('_iter/Slice/take', mirq.site(x, bb), 'the Slice consumer takes a count computed from %s: the stored end is absolute, so the count must be end - start' % sorted(d))
                else:
                    n_skip += 1
                    ok = 'stored_start' in d and 'stored_end' not in d
                    r3.inst({'consumer': 'skip', 'site': mirq.site(x, bb), 'count_from': sorted(d)}, ok=ok, kind=('skip', x.nid, bb))
                    if not ok:
                        r3.fail('_iter/Slice/skip', mirq.site(x, bb), 'the Slice consumer skips a count computed from %s instead of the stored start' % sorted(d))
    if n_take < 1 or n_skip < 1:
        r3.fail('anchor/consumer', F, 'the Slice arm of _iter (skip(start) / take(end - start)) was not found (%d take, %d skip)' % (n_take, n_skip))
    r3.need(4)


def run(ctx):
    mir = ctx.mir
    ast = ctx.ast
    ctx.explanation = ('Re-iterability from immutability plus the absence of writes through self in _iter; laziness as the absence of absorbing '
                       'adaptors on inner iterators inside _iter; consistency of the slice dimensions between the merging constructor and the consumer.')
    ctx.trusted = ['rustc MIR', 'syn parse', 'std iterator adaptor laziness']
    ctx.assumptions = ['element-wise agreement with list pipelines is NOT decided (value level)']
    r1 = ctx.rule('R16.1', 'generator values are immutable descriptions; _iter never writes through self')
    immut.audit(ctx, r1)
    fam = [b for b in mir.bodies if b.nid == GEN + '::_iter' or b.nid.startswith(GEN + '::_iter::{closure')]
    if not fam:
        r1.fail('anchor/_iter', F, '_iter not found')
    top = [b for b in fam if b.nid == GEN + '::_iter']
    if top:
        ty1 = top[0].local_ty(1)
        ok = ty1.startswith('&') and not ty1.startswith('&mut')
        r1.inst({'_iter receiver': ty1[:60]}, ok=ok)
        if not ok:
            r1.fail('_iter/receiver', mirq.site(top[0], 0), '_iter does not take &self')
        for i, j, s in top[0].stmts():
            for mode, p in mirq.places_in_stmt(s):
                if mode in ('w', 'm') and p['l'] == 1 and p['p']:
                    r1.fail('_iter/self-write', mirq.site(top[0], i, j), '_iter writes through self')
    # ---------------- R16.2
    r2 = ctx.rule('R16.2', 'no absorbing adaptor is applied to an inner iterator inside _iter')
    for b in fam:
        for bb, t in b.calls():
            nms = [strip_generics(x) for x in (t.get('decl'), t.get('callee')) if x]
            hit = [n for n in nms if ABSORB.match(n)]
            if not hit:
                continue
            nm = hit[0]
            # receiver derives from an inner _iter (a boxed / impl iterator of generator items)?
            aty = (t.get('argtys') or [''])[0]
            base = aty[5:] if aty.startswith('&mut ') else aty
            # the MultiEither / Either wrappers returned by _iter itself
            inner = base.startswith('itertools::Either<') and 'xvalue::ManagedXValue' in base and t.get('callee') != t.get('decl') or base.startswith('std::boxed::Box<dyn std::iter::Iterator<Item = std::result::Result<std::result::Result<std::rc::Rc<xvalue::ManagedXValue') or base.startswith('impl Iterator<Item = std::result::Result<std::result::Result<std::rc::Rc<xvalue::ManagedXValue')
            sl = mirq.backslice(b, [op_local(t['args'][0])] if t['args'] and op_local(t['args'][0]) is not None else [])
            from_iter = any(strip_generics(t2.get('callee') or '') in (GEN + '::_iter', GEN + '::iter') and not t2['dest']['p'] and t2['dest']['l'] in sl for _, t2 in b.calls())
            bad = inner or from_iter
            r2.inst({'body': b.id, 'site': mirq.site(b, bb), 'adaptor': nm.split('::')[-1], 'on_inner_iterator': bad}, ok=not bad, kind=(b.id, bb))
            if bad:
                r2.fail('%s/%s' % (b.nid, nm.split('::')[-1]), mirq.site(b, bb), '`%s` consumes an inner generator inside _iter: an infinite source is never yielded from (not lazy, unbounded work)' % nm.split('::')[-1])
    n_inner = sum(1 for b in fam for _, t in b.calls() if strip_generics(t.get('callee') or '') == GEN + '::_iter')
    r2.inst({'inner _iter calls scanned': n_inner}, kind='scan')
    if n_inner < 10:
        r2.fail('anchor/inner-iters', F, 'fewer recursive _iter calls than confirmed by hand')
    r2.need(2)

    # ---------------- R16.3 (path-sensitive dependences on the MIR; independent of how the merge / the consumer are written)
    r3 = ctx.rule('R16.3', 'slice: absolute end stored, end-start taken, nested slices merged by adding the inner start')
    slice_dimensions(ctx, r3)

    # ---------------- R16.5
    lazy_library(ctx)

    # ---------------- R16.6
    product_rewind(ctx)
    chain_keeps_both(ctx)


def lazy_library(ctx):
    """R16.5: library functions written in the language that take a generator and return a generator stay lazy in it: their body
    applies no *consuming* function (one that, by the book, maps a Generator to something that is not a Generator: len, reduce,
    to_array, last, ...) to the generator parameter.  Lexical rule over the stdlib text (the language's own source)."""
    import os
    r5 = ctx.rule('R16.5', 'generator-to-generator library functions apply no consuming function to their generator parameter')
    path = os.path.join(ctx.repo, 'src/builtin/include.rs')
    inc = open(path).read() if os.path.exists(path) else ''
    bookp = os.path.join(ctx.repo, 'book/src/std/generator.md')
    book = open(bookp).read() if os.path.exists(bookp) else ''
    consuming = set()

    def signatures(text, head):
        """(name, parameter text, result text) of every `fn name<..>(params) -> result` after `head`, by parenthesis matching"""
        for m in re.finditer(head + r'(\w+)\s*(?:<[^>(]*>)?\s*\(', text):
            i, d = m.end(), 1
            while d and i < len(text):
                d += {'(': 1, ')': -1}.get(text[i], 0)
                i += 1
            params = text[m.end():i - 1]
            r = re.match(r'\s*->\s*([\w<]+)', text[i:])
            yield m.group(1), params, (r.group(1) if r else ''), m.start(), i
    for name, params, res, _, _ in signatures(book, r'^## fn `'.replace('^', '(?m)^')):
        if re.match(r'\s*\w+\s*:\s*Generator<', params) and not res.startswith('Generator'):
            consuming.add(name)
    # consumers defined in the library text itself (sum, mean, join, ...): Generator in, non-Generator out
    for name, params, res, _, _ in signatures(inc, r'fn\s+'):
        if re.match(r'\s*\w+\s*:\s*Generator<', params) and res and not res.startswith('Generator'):
            consuming.add(name)
    if len(consuming) < 8:
        r5.fail('anchor/consuming-functions', 'book/src/std/generator.md', 'expected the documented consuming generator functions (len, reduce, to_array, ...), found %s' % sorted(consuming))
    n = 0
    for name, params, res, start, end in signatures(inc, r'fn\s+'):
        if not res.startswith('Generator'):
            continue
        gens = [p.split(':')[0].strip() for p in re.split(r',(?![^<(]*[>)])', params) if re.match(r'\s*\w+\s*:\s*Generator<', p)]
        if not gens:
            continue
        i = inc.index('{', end)
        s, d = i + 1, 1
        i += 1
        while d and i < len(inc):
            d += {'{': 1, '}': -1}.get(inc[i], 0)
            i += 1
        body = inc[s:i - 1]
        line = inc.count('\n', 0, start) + 1
        hits = []
        for g in gens:
            for c in sorted(consuming):
                if re.search(r'(?<![\w.])%s\s*\.\s*%s\s*\(' % (re.escape(g), c), body) or re.search(r'(?<![\w.])%s\s*\(\s*%s\s*[,)]' % (c, re.escape(g)), body):
                    hits.append((g, c))
        n += 1
        ok = not hits
        r5.inst({'fn': name, 'generator_parameters': gens, 'consumed_by': ['%s.%s()' % h for h in hits]}, ok=ok, kind=(name, params))
        for g, c in hits:
            r5.fail('include/%s/%s' % (name, c), 'src/builtin/include.rs:%d' % line, 'the library function %s returns a generator but applies %s() to its generator parameter `%s`: the whole source is consumed when the result is built, so an infinite (or long) source is never lazy' % (name, c, g))
    r5.need(4)


def product_rewind(ctx):
    """R16.6 (cartesian product and every other place where a vector of part iterators is advanced in a loop): when a part's
    iterator runs out (`iters[i].next()` is None) inside the loop over the parts, that part is rewound -- `iters[i]` is assigned a
    fresh iterator -- before the loop goes on to the next part.  A deferred rewind is lost as soon as two parts run out in the
    same step (three or more parts), and the stream then skips and repeats elements."""
    mir = ctx.mir
    r6 = ctx.rule('R16.6', 'a part iterator that runs out inside the loop over the parts is rewound before the loop continues')
    for b in mir.bodies:
        if b.file != 'src/builtin/generators.rs':
            continue
        idxmut = {t['dest']['l']: (bb, t) for bb, t in b.calls() if strip_generics(t.get('callee') or t.get('decl') or '').endswith('IndexMut>::index_mut') and not t['dest']['p']}
        if not idxmut:
            continue

        def vec_of(local):
            """the vector an index_mut result points into (the place of the receiver)"""
            bb, t = idxmut[local]
            p = op_place(t['args'][0])
            k, v = mirq.chase(b, p['l']) if p is not None and not p['p'] else (None, None)
            if k == 'rv':
                pl = v[2]['rv'].get('place')
                return mirq._place_key(pl) if pl else None
            return None
        stores = {}
        for i, j, s in b.stmts():
            if s['k'] == 'assign' and s['place']['p'] == ['*'] and s['place']['l'] in idxmut:
                stores.setdefault(vec_of(s['place']['l']), set()).add(i)
        for bb, t in b.calls():
            nm = strip_generics(t.get('callee') or t.get('decl') or '')
            if not nm.endswith('::next') or 'Box' not in nm or t.get('target') is None:
                continue
            rp = op_place(t['args'][0]) if t['args'] else None
            root = None
            cur = rp['l'] if rp is not None else None
            for _ in range(4):
                ds = b.defs().get(cur, []) if cur is not None else []
                if cur in idxmut:
                    root = cur
                    break
                if len(ds) == 1 and ds[0][0] == 'stmt' and ds[0][3]['rv']['k'] in ('ref', 'use'):
                    pl = ds[0][3]['rv'].get('place') or op_place(ds[0][3]['rv']['op'])
                    cur = pl['l'] if pl is not None else None
                else:
                    break
            if root is None:
                continue
            # only inside a loop: the call block lies on a cycle
            if bb not in b.reachable(t['target']):
                continue
            vec = vec_of(root)
            # the switch on the Option returned by next(): the None edge
            sw = t['target']
            tm = b.term(sw)
            if tm['k'] != 'switch':
                continue
            none_t = [x for v, x in tm['targets'] if v == '0']
            if not none_t:
                continue
            # loop headers: blocks that dominate the call and can be reached again from it
            heads = [h for h in b.dominators().get(bb, ()) if h != bb and h in b.reachable(t['target']) and b.term(h)['k'] == 'call' and strip_generics(b.term(h).get('callee') or b.term(h).get('decl') or '').endswith('::next')]
            if not heads:
                continue
            avoid = stores.get(vec, set())
            seen = set()
            todo = [none_t[0]]
            while todo:
                x = todo.pop()
                if x in seen or x in avoid or b.is_cleanup(x):
                    continue
                seen.add(x)
                todo.extend(b.succ(x))
            bad = [h for h in heads if h in seen]
            # a None that ends the whole stream (the first part running out) returns instead of looping: fine
            ok = not bad
            r6.inst({'fn': b.nid, 'site': mirq.site(b, bb), 'rewound_before_the_loop_continues': ok}, ok=ok, kind=(b.nid, bb))
            if not ok:
                r6.fail('%s/deferred-rewind' % strip_generics(mir.enclosing_fn(b)), mirq.site(b, bb), 'when this part iterator runs out the loop over the parts can continue without the part having been given a fresh iterator: with three or more parts two of them run out in the same step and only one rewind survives')
    r6.need(1)


def _deps_fs(body, local, seen=None):
    """backward data dependences of a local, field-sensitive through tuples built in this body (`match (a, b)` scrutinees):
    returns the set of parameter locals reached"""
    from .lib.facts import op_place
    defs = body.defs()
    seen = seen if seen is not None else set()
    params = set()
    todo = [(local, None)]
    # writes through a pointer derived from a local (`vec![a, b]` fills a box through a raw pointer cast from it) define that local
    writes = {}
    for i, j, s in body.stmts():
        if s['k'] == 'assign' and s['place']['p']:
            root = s['place']['l']
            for _ in range(6):
                writes.setdefault(root, []).append(s)
                d0 = defs.get(root, [])
                if len(d0) == 1 and d0[0][0] == 'stmt' and d0[0][3]['rv']['k'] in ('cast', 'use') and op_place(d0[0][3]['rv']['op']) is not None:
                    root = op_place(d0[0][3]['rv']['op'])['l']
                else:
                    break
    while todo:
        l, fld = todo.pop()
        if (l, fld) in seen:
            continue
        seen.add((l, fld))
        ds = defs.get(l, [])
        for s in writes.get(l, []):
            for o in [s['rv'].get(k) for k in ('op', 'a', 'b') if isinstance(s['rv'].get(k), dict)] + list(s['rv'].get('ops', [])):
                q = op_place(o)
                if q is not None:
                    todo.append((q['l'], None))
        # calls that receive `&mut l` (parts.extend_from_slice(..), parts.push(..)) fill it from their other arguments
        for bb, t in body.calls():
            for a in t['args']:
                q = op_place(a)
                if q is None or q['p']:
                    continue
                d0 = defs.get(q['l'], [])
                if len(d0) == 1 and d0[0][0] == 'stmt' and d0[0][3]['rv']['k'] == 'ref' and d0[0][3]['rv'].get('mut') and d0[0][3]['rv']['place']['l'] == l and not [e for e in d0[0][3]['rv']['place']['p'] if e != '*']:
                    for a2 in t['args']:
                        q2 = op_place(a2)
                        if q2 is not None and q2['l'] != q['l']:
                            todo.append((q2['l'], None))
        if not ds and 1 <= l <= body.d['argc']:
            params.add(l)
            continue

        def place(p):
            f0 = None
            for e in p['p']:
                if e == '*':
                    continue
                if isinstance(e, dict) and 'f' in e and 'dc' not in e:
                    f0 = e['f']
                break
            todo.append((p['l'], f0))
        for kind, bb, idx, x in ds:
            if kind == 'call':
                for a in x['args']:
                    p = op_place(a)
                    if p is not None:
                        place(p)
                continue
            rv = x['rv']
            if rv['k'] == 'agg' and rv.get('ak') == 'tuple' and fld is not None and fld < len(rv['ops']):
                p = op_place(rv['ops'][fld])
                if p is not None:
                    place(p)
                continue
            for key in ('op', 'a', 'b'):
                if isinstance(rv.get(key), dict):
                    p = op_place(rv[key])
                    if p is not None:
                        # a plain move keeps the field selection (`_104 = _60.0` then `(*_104)`)
                        if rv['k'] in ('use', 'copyderef') and not [e for e in p['p'] if e != '*']:
                            todo.append((p['l'], fld))
                        else:
                            place(p)
            if 'place' in rv:
                place(rv['place'])
            for o in rv.get('ops', []):
                p = op_place(o)
                if p is not None:
                    place(p)
    return params


def chain_keeps_both(ctx):
    """R16.7: the stream of add(g0, g1) is the elements of g0 followed by those of g1.  XGenerator::chain flattens nested chains into
    one list of parts; whatever the shapes of the operands, every list of parts it builds is computed from both of them."""
    from .lib.facts import op_place
    mir = ctx.mir
    r7 = ctx.rule('R16.7', 'every part list built by the generator chain is computed from both operands')
    bs = [b for b in mir.bodies if re.match(r'builtin::generators::XGenerator(::<[^>]*>)?::chain$', b.nid)]
    if not bs:
        r7.fail('anchor/chain', 'src/builtin/generators.rs', 'XGenerator::chain not found')
        r7.need(1)
        return
    b = bs[0]
    n = 0
    for i, j, s in b.stmts():
        if not (s['k'] == 'assign' and s['rv']['k'] == 'agg' and s['rv'].get('v') == 'Chain' and s['rv']['ops']):
            continue
        p = op_place(s['rv']['ops'][0])
        if p is None:
            continue
        # the definitions of the part list (one per arm), through plain moves
        cur = p['l']
        for _ in range(6):
            ds = b.defs().get(cur, [])
            if len(ds) == 1 and ds[0][0] == 'stmt' and ds[0][3]['rv']['k'] == 'use' and op_place(ds[0][3]['rv']['op']) is not None and not op_place(ds[0][3]['rv']['op'])['p']:
                cur = op_place(ds[0][3]['rv']['op'])['l']
            else:
                break
        for kind, bb, idx, x in b.defs().get(cur, []):
            ops = x['args'] if kind == 'call' else ([x['rv'].get(k) for k in ('op', 'a', 'b') if isinstance(x['rv'].get(k), dict)] + list(x['rv'].get('ops', [])))
            reached = set()
            for o in ops:
                q = op_place(o)
                if q is not None:
                    f0 = next((e['f'] for e in q['p'] if isinstance(e, dict) and 'f' in e and 'dc' not in e), None)
                    reached |= _deps_fs(b, q['l']) if f0 is None else _deps_fs_field(b, q['l'], f0)
            ok = {1, 2} <= reached
            n += 1
            r7.inst({'part_list_built_at': mirq.site(b, bb, idx if kind != 'call' else None), 'computed_from_operands': sorted(reached)}, ok=ok, kind=(bb,))
            if not ok:
                r7.fail('chain/part-list-omits-operand-%s' % ('-'.join(str(k) for k in sorted({1, 2} - reached))), mirq.site(b, bb, idx if kind != 'call' else None), 'a part list of the chained generator is built without operand %s: its elements are missing from the stream (add(repeat(empty), g) yields nothing instead of the elements of g)' % sorted({1, 2} - reached))
    r7.need(1)


def _deps_fs_field(body, local, fld):
    seen = set()
    return _deps_fs_start(body, local, fld, seen)


def _deps_fs_start(body, local, fld, seen):
    # start the walk at a field of a tuple local
    from .lib.facts import op_place
    ds = body.defs().get(local, [])
    out = set()
    for kind, bb, idx, x in ds:
        if kind == 'stmt' and x['rv']['k'] == 'agg' and x['rv'].get('ak') == 'tuple' and fld < len(x['rv']['ops']):
            p = op_place(x['rv']['ops'][fld])
            if p is not None:
                out |= _deps_fs(body, p['l'], seen)
        else:
            out |= _deps_fs(body, local, seen)
    return out
