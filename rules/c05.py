"""C05 — overload resolution is ranked, unambiguous and stable.  Order-independence and ambiguity detection as
dataflow facts about CompilationScope::resolve_overload (syntax tree):
  R05.1  the candidate loop carries state across iterations only by pushing to the bucket vectors / the failure list
  R05.2  the only return inside the loop is under the candidate's own short_circuit_overloads flag
  R05.3  after the loop a bucket element is taken only when the bucket has exactly one element; more than one is an
         ambiguity error; buckets are consulted exact first, then generic; otherwise NoOverload
  R05.4  bucket choice is a function of (is_generic, is_unknown) only; is_unknown depends on the argument types only
  R05.5  candidate collection (get_item) appends own overloads before the parent's and nothing indexes candidates by position
  R05.6  three tiers: dynamic (factory) candidates must rank below generic static candidates
"""
import re
from .lib import astq
from .lib.facts import find_nodes, walk

F = 'src/compilation_scope.rs'


def src(n):
    return re.sub(r'\s+', '', n.get('s') or '')


def run(ctx):
    ast = ctx.ast
    ctx.explanation = ('The outcome of resolve_overload is shown to depend only on the multiset of matching candidates: loop-carried state is '
                       'push-only, no early return except the documented short-circuit stubs, singleton test before taking, ambiguity otherwise, fixed tier order.')
    ctx.trusted = ['syn parse', 'that spec.bind matches exactly the right candidates is C04\'s concern']
    fns = [fn for f, fn, im in astq.all_fns(ast) if f == F and fn['name'] == 'resolve_overload']
    r1 = ctx.rule('R05.1', 'candidate loop carries state only through push on buckets / failures')
    if len(fns) != 1:
        r1.fail('anchor/resolve_overload', F, 'resolve_overload not found')
        return
    fn = fns[0]
    loops = [n for n, ps in find_nodes(fn['body'], lambda y: y.get('k') == 'for') if not any(p.get('k') in ('fn', 'closure') for p in ps)]
    loops = [l for l in loops if 'overloads' in src(l['iter'])]
    if len(loops) != 1:
        r1.fail('anchor/loop', '%s:%d' % (F, fn['line']), 'candidate loop not found')
        return
    loop = loops[0]
    # names declared before the loop at function level
    outer = set()
    outer_mut = set()
    for st in fn['body']:
        if st is loop:
            break
        if st.get('k') == 'let':
            for p, _ in find_nodes(st['pat'], lambda y: y.get('k') == 'pident'):
                outer.add(p['name'])
                if p.get('mut'):
                    outer_mut.add(p['name'])
    buckets = {n for n in outer if n.endswith('_matches')}
    pushes = []
    for n, ps in find_nodes(loop['body'], lambda y: y.get('k') == 'mcall'):
        base = n['recv']
        while base.get('k') in ('paren', 'ref', 'field'):
            base = base.get('expr') or base.get('base')
        if n['method'] in ('push', 'insert', 'extend', 'clear', 'remove', 'swap_remove', 'pop', 'truncate', 'retain', 'sort', 'append', 'drain'):
            tgt = None
            names = [x['path'] for x, _ in find_nodes(n['recv'], lambda y: y.get('k') == 'path')]
            tgt = [x for x in names if x in outer_mut]
            if tgt:
                pushes.append((n['method'], tuple(tgt), n['line']))
    for meth, tgt, line in pushes:
        ok = meth == 'push' and all(t in buckets or t == 'dynamic_failures' for t in tgt)
        r1.inst({'mutation': meth, 'targets': tgt}, ok=ok, kind=(meth, tgt))
        if not ok:
            r1.fail('loop/%s-%s' % (meth, '-'.join(tgt)), '%s:%d' % (F, line), 'the candidate loop mutates %s with %s: the outcome could depend on the order in which candidates are visited' % (tgt, meth))
    for n, ps in find_nodes(loop['body'], lambda y: y.get('k') == 'assign' or (y.get('k') == 'binary' and y['op'].endswith('=') and y['op'] not in ('==', '!=', '<=', '>='))):
        names = [x['path'] for x, _ in find_nodes(n['left'], lambda y: y.get('k') == 'path')]
        tgt = [x for x in names if x in outer]
        if tgt:
            r1.inst({'assignment': src(n)[:60]}, ok=False)
            r1.fail('loop/assign-%s' % '-'.join(tgt), '%s:%d' % (F, n['line']), 'the candidate loop assigns to %s declared outside the loop (order-dependent state)' % tgt)
    r1.need(2)

    # ---------------- R05.2
    r2 = ctx.rule('R05.2', 'the only return inside the loop is under spec.short_circuit_overloads')
    for n, ps in find_nodes(loop['body'], lambda y: y.get('k') in ('return', 'break')):
        if any(p.get('k') == 'closure' for p in ps):
            continue
        conds = [src(p['cond']) for p in ps if p.get('k') == 'if']
        ok = any(c == 'spec.short_circuit_overloads' for c in conds)
        r2.inst({'exit': n['k'], 'line': n['line'], 'conditions': conds}, ok=ok, kind=n['line'] - loop['line'])
        if not ok:
            r2.fail('loop/early-%s' % n['k'], '%s:%d' % (F, n['line']), 'the candidate loop is left early under %s: later candidates are never considered (declaration-order dependence)' % (conds or 'no condition'))
    # `?` inside the loop can only abort with an error; `continue` skips a candidate on a per-candidate condition
    r2.need(1)

    # ---------------- R05.3
    r3 = ctx.rule('R05.3', 'take only from singleton buckets; >1 is ambiguity; exact before generic; else NoOverload')
    after = []
    seen = False
    for st in fn['body']:
        if st is loop:
            seen = True
            continue
        if seen:
            after.append(st)
    seq = []
    for st in after:
        if st.get('k') == 'if':
            c = src(st['cond'])
            m = re.match(r'^(\w+)\.len\(\)(==|>|>=|!=|<)(\d+)$', c)
            body = st['then']
            rets = [x for x, _ in find_nodes(body, lambda y: y.get('k') == 'return')]
            kind = None
            if rets:
                e = src(rets[0]['expr'])
                if 'prepare_return' in e:
                    kind = 'take'
                    taken = re.search(r'(\w+)\.(swap_remove|remove)\((\d+)\)|(\w+)\.pop\(\)|(\w+)\[(\d+)\]', e)
                    src_bucket = (taken.group(1) or taken.group(4) or taken.group(5)) if taken else None
                elif 'AmbiguousOverload' in e or find_nodes(rets[0], lambda y: y.get('k') == 'struct' and y['path'].endswith('AmbiguousOverload')):
                    kind = 'ambiguous'
                    src_bucket = None
                else:
                    kind = 'other'
                    src_bucket = None
            seq.append((m.group(1) if m else None, (m.group(2) + m.group(3)) if m else c, kind, src_bucket if rets else None, st['line']))
        else:
            last = st
    shape_ok = True
    expected = []
    order = [b for b in ('exact_matches', 'generic_matches', 'dynamic_matches') if b in buckets]
    for b in order:
        expected += [(b, '==1', 'take', b), (b, '>1', 'ambiguous', None)]
    got = [(a, b, c, d) for a, b, c, d, _ in seq]
    for e in expected:
        ok = e in got
        r3.inst({'expected_step': e}, ok=ok, kind=e)
        if not ok:
            r3.fail('post/%s%s' % (e[0], e[1]), '%s:%d' % (F, fn['line']), 'after the loop, step %s is missing (found %s): a bucket could be used without a singleton test or an ambiguity could be resolved silently' % (e, got))
    if all(e in got for e in expected):
        idx = [got.index(e) for e in expected]
        ok = idx == sorted(idx)
        r3.inst({'tier_order': [e[0] for e in expected][::2]}, ok=ok)
        if not ok:
            r3.fail('post/order', '%s:%d' % (F, fn['line']), 'buckets are not consulted in rank order')
    extra = [g for g in got if g not in expected]
    for g in extra:
        r3.inst({'unexpected_step': g}, ok=False)
        r3.fail('post/extra-%s' % (g[0] or 'cond'), '%s:%d' % (F, fn['line']), 'unexpected selection step %s after the loop' % (g,))
    tail = after[-1] if after else None
    ok = tail is not None and 'NoOverload' in (tail.get('s') or src(tail) or '') or bool(find_nodes(tail, lambda y: y.get('k') == 'struct' and y['path'].endswith('NoOverload')))
    r3.inst({'final': 'Err(NoOverload)'}, ok=ok)
    if not ok:
        r3.fail('post/no-overload', '%s:%d' % (F, fn['line']), 'the function does not end in NoOverload when no bucket has a candidate')
    r3.need(5)

    # ---------------- R05.4
    r4 = ctx.rule('R05.4', 'bucket choice depends on (is_generic, is_unknown) only')
    def is_bucket_ref(stmts):
        if len(stmts) != 1:
            return False
        e = stmts[0]
        return e.get('k') == 'ref' and e.get('mut') and e['expr'].get('k') == 'path' and e['expr']['path'] in buckets
    sel = []
    for n, ps in find_nodes(loop['body'], lambda y: y.get('k') == 'if'):
        el = n.get('else')
        if el and el.get('k') == 'block' and is_bucket_ref(n['then']) and is_bucket_ref(el['stmts']):
            sel.append(n)
    if not sel:
        r4.fail('loop/bucket-choice', '%s:%d' % (F, loop['line']), 'bucket selection expression not found')
    for n in sel[:1]:
        names = {x['path'] for x, _ in find_nodes(n['cond'], lambda y: y.get('k') == 'path')}
        ok = names <= {'is_generic', 'is_unknown'} and names
        r4.inst({'bucket_choice_condition': src(n['cond'])}, ok=bool(ok))
        if not ok:
            r4.fail('loop/bucket-condition', '%s:%d' % (F, n['line']), 'the bucket is chosen by %s, not by (is_generic, is_unknown) alone' % sorted(names))
    for st in fn['body']:
        if st.get('k') == 'let' and st['pat'].get('k') == 'pident' and st['pat']['name'] == 'is_unknown':
            names = {x['path'] for x, _ in find_nodes(st['init'], lambda y: y.get('k') == 'path')}
            ok = names <= {'arg_types', 't'}
            r4.inst({'is_unknown_depends_on': sorted(names)}, ok=ok)
            if not ok:
                r4.fail('is_unknown/deps', '%s:%d' % (F, st['line']), 'is_unknown depends on %s besides the argument types' % sorted(names - {'arg_types', 't'}))
    r4.need(2)

    # ---------------- R05.5
    r5 = ctx.rule('R05.5', 'own overloads before parent overloads; candidates never indexed by position')
    gi = [f2 for f, f2, im in astq.all_fns(ast) if f == F and f2['name'] == 'get_item']
    if gi:
        body = gi[0]['body']
        ext = [n for n, ps in find_nodes(body, lambda y: y.get('k') == 'mcall' and y['method'] in ('extend', 'push') and src(y['recv']) == 'ret')]
        ins = [n for n, ps in find_nodes(body, lambda y: y.get('k') == 'mcall' and y['method'] in ('insert', 'splice', 'rotate_left', 'rotate_right', 'reverse', 'sort', 'sort_by') and src(y['recv']) == 'ret')]
        ok = bool(ext) and not ins
        r5.inst({'get_item merges parent overloads by': [n['method'] for n in ext]}, ok=ok)
        if not ok:
            r5.fail('get_item/merge', '%s:%d' % (F, gi[0]['line']), 'parent overloads are not simply appended after the scope\'s own')
    idx = [n for n, ps in find_nodes(loop['body'], lambda y: y.get('k') == 'index' and src(y['base']) in ('overloads',))]
    r5.inst({'positional_indexing_of_candidates': len(idx)}, ok=not idx)
    if idx:
        r5.fail('loop/indexing', '%s:%d' % (F, idx[0]['line']), 'candidates are indexed by position')
    r5.need(2)

    # ---------------- R05.6
    r6 = ctx.rule('R05.6', 'dynamic candidates rank below generic static candidates')
    # the Factory arm of the candidate match yields the triple (spec, considered, is_generic): its last component
    arms = []
    for m, ps in find_nodes(loop['body'], lambda y: y.get('k') == 'match' and 'overload' in src(y['expr'])):
        for a in m['arms']:
            if 'Factory' in (a['pat'].get('s') or ''):
                arms.append(a)
    third_bucket = 'dynamic_matches' in buckets
    for a in arms[:1]:
        tuples = [x for x, _ in find_nodes(a['body'], lambda y: y.get('k') == 'tuple' and len(y['elems']) >= 3)]
        last = src(tuples[0]['elems'][2]) if tuples else None
        ok = third_bucket or (last not in ('true', None))
        r6.inst({'factory_candidates_marked_generic': last, 'separate_dynamic_bucket': third_bucket}, ok=ok)
        if not ok:
            r6.fail('resolve_overload/dynamic-shares-generic-tier', '%s:%d' % (F, a['line']), 'dynamic (factory) candidates are pushed as is_generic=true into the generic tier: a matching generic overload and a matching dynamic overload are an ambiguity instead of preferring the generic one')
    r6.need(1)
