"""C05 — overload resolution is ranked, unambiguous and stable.  Order-independence and ambiguity detection as
dataflow facts about CompilationScope::resolve_overload (syntax tree):
  R05.1  the candidate loop carries state across iterations only by pushing to the bucket vectors / the failure list
  R05.2  the only return inside the loop is under the candidate's own short_circuit_overloads flag
  R05.3  after the loop a bucket element is taken only when the bucket has exactly one element; more than one is an
         ambiguity error; buckets are consulted exact first, then generic; otherwise NoOverload
  R05.4  bucket choice is a function of (is_generic, is_unknown) only; is_unknown depends on the argument types only
  R05.5  candidate collection (get_item) appends own overloads before the parent's and nothing indexes candidates by position
  R05.6  three tiers: dynamic (factory) candidates must rank below generic static candidates
  R05.7  the own generic-parameter list of a declaration (which decides its tier) does not depend on inherited generic names
  R05.8  get_item hides a parent overload of the recursing name only while one of its forward requirements is unfulfilled
"""
import re
from .lib import astq
from .lib.facts import find_nodes, walk, strip_generics

F = 'src/compilation_scope.rs'


def src(n):
    return re.sub(r'\s+', '', n.get('s') or '')


def natural_loops(b):
    """[(header, set(blocks))] from back edges u->h with h dominating u (normal edges)"""
    dom = b.dominators()
    loops = {}
    preds = b.preds()
    for u, ss in enumerate(b.succs()):
        if u not in dom:
            continue
        for h in ss:
            if h in dom[u]:
                body = {h, u}
                st = [u]
                while st:
                    x = st.pop()
                    if x == h:
                        continue
                    for q in preds[x]:
                        if q not in body and q in dom:
                            body.add(q)
                            st.append(q)
                loops.setdefault(h, set()).update(body)
    return sorted(loops.items())


def decision_table(ctx, r3, bucket_names):
    """R05.3: abstractly evaluate the code after the candidate loop for every (|exact|, |generic|) in {0,1,2,3}^2 and compare
    the reachable decision with the documented one.  Works on MIR, so an if-chain, a match on a tuple of lengths or early
    returns are all the same to it."""
    from .lib import absint
    from .lib.facts import callee_name, op_place
    bs = ctx.mir.find('compilation_scope::CompilationScope::resolve_overload')
    if len(bs) != 1:
        r3.fail('anchor/resolve_overload-mir', F, 'MIR body of resolve_overload not found (%d)' % len(bs))
        return
    b = bs[0]
    dbg = {v['name']: v['val']['l'] for v in b.dbg if 'l' in v['val'] and not v['val']['p']}
    tiers = [n for n in ('exact_matches', 'generic_matches', 'dynamic_matches') if n in dbg and n in bucket_names]
    if tiers[:2] != ['exact_matches', 'generic_matches']:
        r3.fail('anchor/buckets', F, 'bucket locals exact_matches / generic_matches not found in the MIR debug info (%s)' % sorted(dbg)[:8])
        return
    key_of = {n: '_%d' % dbg[n] for n in tiers}
    name_of = {v: k for k, v in key_of.items()}
    # the candidate loop: the natural loop that contains a push on a bucket
    push_blocks = [i for i, t in b.calls() if (callee_name(t) or '').endswith('Vec::<T, A>::push')]
    loops = [(h, body) for h, body in natural_loops(b) if any(pb in body for pb in push_blocks)]
    if not loops:
        r3.fail('anchor/loop-mir', F, 'candidate loop not found in the MIR')
        return
    h, body = max(loops, key=lambda x: len(x[1]))
    # the normal exit: the edge taken when the candidate iterator is exhausted (a switch on the discriminant of the value
    # returned by Iterator::next); the other exits are `?` error returns and the short-circuit return judged by R05.2
    exits = set()
    defs = b.defs()
    for u in body:
        tm = b.blocks[u]['term']
        if tm['k'] != 'switch':
            continue
        outs = [s for s in b.succs()[u] if s not in body]
        dl = op_place(tm['discr'])
        if not outs or dl is None:
            continue
        for kind, bb_, idx_, x in defs.get(dl['l'], []):
            if kind == 'stmt' and x['rv']['k'] == 'discr':
                src_l = x['rv']['place']['l']
                for k2, bb2, idx2, x2 in defs.get(src_l, []):
                    if k2 == 'call' and re.search(r'(^|::)next$', strip_generics(callee_name(x2) or '')):
                        exits.update(outs)
    exits = sorted(exits)
    if not exits:
        r3.fail('anchor/loop-exit', F, 'the exhausted-iterator exit of the candidate loop was not found in the MIR')
        return

    def ref_target(v):
        return v[1] if isinstance(v, tuple) and v and v[0] == 'ref' else None

    def run_for(lens):
        def oracle(t, vals, env):
            cn = callee_name(t) or ''
            tgt = ref_target(vals[0]) if vals else None
            # a reference to a reference local (&mut *_r)
            while tgt is not None and tgt.endswith('/*') and isinstance(env.get(tgt[:-2]), tuple) and env[tgt[:-2]][0] == 'ref':
                tgt = env[tgt[:-2]][1]
            if tgt in lens:
                if cn.endswith('Vec::<T, A>::len'):
                    return lens[tgt]
                if cn.endswith('Vec::<T, A>::is_empty'):
                    return lens[tgt] == 0
                if cn.endswith('Vec::<T, A>::swap_remove') or cn.endswith('Vec::<T, A>::remove'):
                    return ('tuple', ('taken', tgt, vals[1] if len(vals) > 1 else None))
                if cn.endswith('Vec::<T, A>::pop'):
                    return ('tuple', ('taken', tgt, lens[tgt] - 1))
            return absint.UNKNOWN

        def event(kind, bb, idx, node, env, R):
            if kind == 'term' and node['k'] == 'call' and (callee_name(node) or '').endswith('resolve_overload::prepare_return'):
                v = R.opval(env, node['args'][1]) if len(node['args']) > 1 else None
                if isinstance(v, tuple) and v[0] == 'tuple' and v[1] and v[1][0] == 'taken':
                    _, tgt, ix = v[1]
                    if isinstance(ix, int) and 0 <= ix < lens[tgt]:
                        return 'take:' + name_of[tgt]
                    return 'take-out-of-range:' + name_of[tgt]
                return 'take:unrecognised-source'
            if kind == 'stmt' and node['k'] == 'assign' and node['rv']['k'] == 'agg' and node['rv'].get('ak') == 'adt' \
                    and node['rv']['adt'].endswith('CompilationError'):
                if node['rv']['v'] == 'AmbiguousOverload':
                    return 'ambiguous'
                if node['rv']['v'] == 'NoOverload':
                    return 'no-overload'
            return None

        R = absint.Region(b, oracle, event)
        evs = set()
        over = False
        for x in exits:
            e, silent, o = R.run(x, {})
            evs |= e
            over = over or o
        return evs, over

    n_dec = 0
    for e in (0, 1, 2, 3):
        for g in (0, 1, 2, 3):
            lens = {key_of['exact_matches']: e, key_of['generic_matches']: g}
            for extra in tiers[2:]:
                lens[key_of[extra]] = 0
            want = 'take:exact_matches' if e == 1 else 'ambiguous' if e > 1 else 'take:generic_matches' if g == 1 else 'ambiguous' if g > 1 else 'no-overload'
            if len(tiers) > 2 and e == 0 and g == 0:
                want = 'no-overload'
            evs, over = run_for(lens)
            ok = evs == {want} and not over
            n_dec += 1
            r3.inst({'exact_matches': e, 'generic_matches': g, 'documented': want, 'reachable_decisions': sorted(evs)}, ok=ok, kind=(e, g))
            if not ok:
                r3.fail('decision/exact=%s,generic=%s' % (e if e < 2 else '2+' if e == 2 else '3+', g if g < 2 else '2+' if g == 2 else '3+'),
                        '%s:%s' % (F, b.span.split(':')[1] if ':' in b.span else ''),
                        'with %d exact and %d generic matching candidates the code after the candidate loop can decide %s; documented: %s%s'
                        % (e, g, sorted(evs) or ['nothing (returns without taking a candidate or reporting)'], want, ' (state bound hit)' if over else ''))
    r3.need(16)


def candidate_loop(b):
    """(header, body blocks, bucket locals) of the loop of resolve_overload that pushes candidates into the tier vectors"""
    from .lib.facts import callee_name, op_place
    from .lib import mirq
    pushes = []
    for i, tm in b.calls():
        if (callee_name(tm) or '').endswith('Vec::<T, A>::push') and tm['args']:
            pushes.append((i, tm))
    loops = [(h, body) for h, body in natural_loops(b) if any(pb in body for pb, _ in pushes)]
    if not loops:
        return None
    h, body = max(loops, key=lambda x: len(x[1]))
    return h, body, [(i, tm) for i, tm in pushes if i in body]


def mut_targets(b, local, depth=8):
    """the locals a `&mut` reference local may point to (through re-borrows and branches that pick one of several)"""
    from .lib.facts import op_place
    out = set()
    seen = set()
    todo = [local]
    while todo:
        l = todo.pop()
        if l in seen:
            continue
        seen.add(l)
        for kind, bb, idx, x in b.defs().get(l, []):
            if kind != 'stmt':
                continue
            rv = x['rv']
            if rv['k'] == 'ref':
                pl = rv['place']
                if not pl['p']:
                    out.add(pl['l'])
                elif pl['p'] == ['*']:
                    todo.append(pl['l'])
                else:
                    out.add(pl['l'])
            elif rv['k'] == 'use' and op_place(rv['op']) is not None:
                todo.append(op_place(rv['op'])['l'])
    return out


def loop_discipline(ctx, r1, r2, r4):
    """R05.1 / R05.2 / R05.4 on the MIR of resolve_overload.
    R05.1: state that survives an iteration of the candidate loop is written only by Vec::push (tier vectors, failure list)
           and by the loop's own iterator;
    R05.2: the loop is left only when the iterator is exhausted, by error propagation, or under a branch that reads
           spec.short_circuit_overloads;
    R05.4: no branch inside the loop is computed from the tier vectors / failure list (what earlier candidates left)."""
    from .lib.facts import callee_name, op_place, op_local
    from .lib import mirq
    bs = ctx.mir.find('compilation_scope::CompilationScope::resolve_overload')
    if len(bs) != 1:
        r1.fail('anchor/resolve_overload-mir', F, 'MIR body of resolve_overload not found (%d)' % len(bs))
        return None
    b = bs[0]
    cl = candidate_loop(b)
    if cl is None:
        r1.fail('anchor/loop-mir', F, 'candidate loop not found in the MIR')
        return None
    h, body, pushes = cl
    dbg = {}
    for v in b.dbg:
        if 'l' in v['val'] and not v['val']['p']:
            dbg.setdefault(v['val']['l'], v['name'])

    def nm(l):
        return dbg.get(l) or '_%d' % l
    # locals that exist outside the loop: defined or used in a block outside the loop body
    outside = set()
    for i, bl in enumerate(b.blocks):
        if i in body or bl.get('cleanup'):
            continue
        for s in bl['stmts']:
            for mode, pl in mirq.places_in_stmt(s):
                outside.add(pl['l'])
        for mode, pl in mirq.places_in_term(bl['term']):
            outside.add(pl['l'])
    flags = {l for l, ds in b.defs().items() if b.local_ty(l) == 'bool' and all(k == 'stmt' and x['rv']['k'] == 'use' and 'const' in x['rv']['op'] for k, _, _, x in ds)}
    carried = set()
    # (a) mutable borrows of outside locals taken inside the loop: what receives them?
    n1 = 0
    for i in sorted(body):
        bl = b.blocks[i]
        for j, s in enumerate(bl['stmts']):
            if s['k'] == 'assign' and s['rv']['k'] == 'ref' and s['rv'].get('mut'):
                tgt = s['rv']['place']['l']
                tgts = {tgt} if not s['rv']['place']['p'] or s['rv']['place']['p'] != ['*'] else mut_targets(b, tgt)
                tgts = {x for x in tgts if x in outside and x not in flags and x > b.d['argc']}
                if not tgts:
                    continue
                ref_local = s['place']['l']
                cons = mirq.consumers(ctx.mir, b, ref_local, depth=0)
                cons = {c for c in cons if not c.startswith('<discriminant')}
                ok = all(c.endswith('Vec::push') or c.endswith('Iterator>::next') or c.endswith('::next') or c.endswith('::deref_mut') or c.endswith('::as_mut') for c in cons) and bool(cons)
                pushy = any(c.endswith('Vec::push') for c in cons)
                if pushy:
                    carried |= tgts
                n1 += 1
                r1.inst({'mutable_borrow_of': sorted(nm(x) for x in tgts), 'handed_to': sorted(c.split('::')[-1] for c in cons)}, ok=ok, kind=('borrow', i, j))
                if not ok:
                    r1.fail('loop/mutation/%s' % '-'.join(sorted(nm(x) for x in tgts)), mirq.site(b, i, j), 'inside the candidate loop %s is mutably borrowed for %s: state other than pushing a candidate survives an iteration, so the outcome can depend on the order in which candidates are visited' % (sorted(nm(x) for x in tgts), sorted(c.split('::')[-1] for c in cons) or 'an unrecognised use'))
            # (b) direct assignments to outside locals
            if s['k'] == 'assign' and not s['place']['p']:
                l = s['place']['l']
                if l in outside and l not in flags and l > b.d['argc'] and b.name_of_local(l):
                    # a named variable declared outside the loop and assigned inside it
                    first_def_outside = any(bb not in body for k, bb, idx, x in b.defs().get(l, []))
                    if first_def_outside:
                        n1 += 1
                        r1.inst({'assignment_to': nm(l)}, ok=False, kind=('assign', l))
                        r1.fail('loop/assign-%s' % nm(l), mirq.site(b, i, j), 'the candidate loop assigns to `%s`, which is declared outside the loop (order-dependent state)' % nm(l))
    r1.need(2)
    # R05.2 exits
    defs = b.defs()
    exits = []
    for u in sorted(body):
        for x in b.succs()[u]:
            if x not in body and b.blocks[x]['term']['k'] not in ('unreachable',):
                exits.append((u, x))
    for u, x in exits:
        tm = b.blocks[u]['term']
        kind = None
        if tm['k'] == 'switch':
            dl = op_local(tm['discr'])
            for k0, bb0, i0, st in defs.get(dl, []) if dl is not None else []:
                if k0 == 'stmt' and st['rv']['k'] == 'discr':
                    for k2, bb2, i2, x2 in defs.get(st['rv']['place']['l'], []):
                        if k2 == 'call' and re.search(r'(^|::)next$', strip_generics(callee_name(x2) or '')):
                            kind = 'iterator exhausted'
        if kind is None:
            # error propagation: the exit path goes through FromResidual::from_residual before returning
            reach = b.reachable(x, avoid=body)
            if any((callee_name(t2) or '').endswith('from_residual') for bb2, t2 in b.calls() if bb2 in reach or bb2 == u) and not any((callee_name(t2) or '').endswith('prepare_return') for bb2, t2 in b.calls() if bb2 in reach or bb2 == u):
                kind = 'error propagation (?)'
        if kind is None:
            # a value is returned from inside the loop: only under spec.short_circuit_overloads
            guards = []
            for d in sorted(b.dominators().get(u, ())) + [u]:
                if d not in body:
                    continue
                tmd = b.blocks[d]['term']
                if tmd['k'] != 'switch':
                    continue
                dl = op_local(tmd['discr'])
                if dl is None:
                    continue
                names = set()
                todo = [dl]
                seen = set()
                while todo:
                    l = todo.pop()
                    if l in seen:
                        continue
                    seen.add(l)
                    for k0, bb0, i0, st in defs.get(l, []):
                        if k0 != 'stmt':
                            continue
                        for mode, pl in mirq.places_in_stmt(st):
                            if mode == 'r':
                                names |= {e.get('n') for e in pl['p'] if isinstance(e, dict) and 'n' in e}
                                todo.append(pl['l'])
                if 'short_circuit_overloads' in names:
                    guards.append(d)
            if guards:
                # the exit must be reachable only through the TRUE edge of such a branch: cut those edges and see whether the
                # exit block can still be reached from the loop header inside the loop
                cut = set()
                for g in guards:
                    tg = b.blocks[g]['term']
                    zero = [xx for v, xx in tg['targets'] if int(v) == 0]
                    true_targets = {tg['otherwise']} | {xx for v, xx in tg['targets'] if int(v) != 0}
                    if not zero:
                        true_targets = {xx for v, xx in tg['targets'] if int(v) != 0}
                    for tt in true_targets:
                        cut.add((g, tt))
                seen_b = set()
                todo_b = [h]
                while todo_b:
                    cur = todo_b.pop()
                    if cur in seen_b:
                        continue
                    seen_b.add(cur)
                    for nx in b.succs()[cur]:
                        if nx in body and (cur, nx) not in cut:
                            todo_b.append(nx)
                kind = 'short-circuit stub' if ((u, x) in cut or u not in seen_b) else None
            else:
                kind = None
        r2.inst({'exit_from': mirq.site(b, u), 'kind': kind or 'unconditional / other condition'}, ok=kind is not None, kind=('exit', u, x))
        if kind is None:
            r2.fail('loop/early-return', mirq.site(b, u), 'the candidate loop can be left with a result before all candidates were considered, under a condition that is not spec.short_circuit_overloads: later candidates are never looked at (declaration-order dependence)')
    r2.need(2)
    # R05.4
    n4 = 0
    for d in sorted(body):
        tmd = b.blocks[d]['term']
        if tmd['k'] != 'switch':
            continue
        dl = op_local(tmd['discr'])
        if dl is None:
            continue
        sl = mirq.backslice(b, [dl])
        hit = sorted(nm(x) for x in sl & carried)
        n4 += 1
        r4.inst({'branch': mirq.site(b, d), 'depends_on_collected_candidates': hit}, ok=not hit, kind=('switch', d))
        if hit:
            r4.fail('loop/branch-on-%s' % '-'.join(hit), mirq.site(b, d), 'a branch inside the candidate loop is computed from %s, i.e. from what earlier candidates left behind: the treatment of a candidate depends on the candidates visited before it' % hit)
    r4.need(3)
    return {nm(x) for x in carried}


def run(ctx):
    ast = ctx.ast
    ctx.explanation = ('The outcome of resolve_overload is shown to depend only on the multiset of matching candidates: loop-carried state is '
                       'push-only, no early return except the documented short-circuit stubs, singleton test before taking, ambiguity otherwise, fixed tier order.')
    ctx.trusted = ['syn parse', 'that spec.bind matches exactly the right candidates is C04\'s concern']
    r1 = ctx.rule('R05.1', 'candidate loop carries state only through push on buckets / failures')
    r2 = ctx.rule('R05.2', 'the only return inside the loop is under spec.short_circuit_overloads')
    r4 = ctx.rule('R05.4', 'no branch inside the candidate loop depends on what earlier candidates left in the buckets')
    buckets = loop_discipline(ctx, r1, r2, r4)
    if buckets is None:
        return
    fns = [fn for f, fn, im in astq.all_fns(ast) if f == F and fn['name'] == 'resolve_overload']
    if len(fns) != 1:
        r1.fail('anchor/resolve_overload', F, 'resolve_overload not found')
        return
    fn = fns[0]
    loops = [n for n, ps in find_nodes(fn['body'], lambda y: y.get('k') == 'for') if not any(p.get('k') in ('fn', 'closure') for p in ps)]
    loops = [l for l in loops if 'overloads' in src(l['iter'])]
    loop = loops[0] if len(loops) == 1 else None

    # ---------------- R05.3 (decision table over the MIR; independent of the syntactic form of the selection code)
    r3 = ctx.rule('R05.3', 'take only from singleton buckets; >1 is ambiguity; exact before generic; else NoOverload')
    decision_table(ctx, r3, buckets)

    # ---------------- R05.5
    r5 = ctx.rule('R05.5', 'own overloads before parent overloads; candidates never indexed by position')
    gi = [f2 for f, f2, im in astq.all_fns(ast) if f == F and f2['name'] == 'get_item']
    if gi:
        body = gi[0]['body']
        ext = [n for n, ps in find_nodes(body, lambda y: y.get('k') == 'mcall' and y['method'] in ('extend', 'push') and src(y['recv']) == 'ret')]
        ins = [n for n, ps in find_nodes(body, lambda y: y.get('k') == 'mcall' and y['method'] in ('insert', 'splice', 'rotate_left', 'rotate_right', 'reverse', 'sort', 'sort_by') and src(y['recv']) == 'ret')]
        ok = bool(ext) and not ins
        r5.inst({'get_item merges parent overloads by': [n['method'] for n in ext]}, ok=ok)
        if not ok:
            r5.fail('get_item/merge', '%s:%d' % (F, gi[0]['line']), 'parent overloads are not simply appended after the scope\'s own')
    idx = [n for n, ps in find_nodes(loop['body'], lambda y: y.get('k') == 'index' and src(y['base']) in ('overloads',))]
    r5.inst({'positional_indexing_of_candidates': len(idx)}, ok=not idx)
    if idx:
        r5.fail('loop/indexing', '%s:%d' % (F, idx[0]['line']), 'candidates are indexed by position')
    r5.need(2)

    # ---------------- R05.6
    r6 = ctx.rule('R05.6', 'dynamic candidates rank below generic static candidates')
    # the Factory arm of the candidate match yields the triple (spec, considered, is_generic): its last component
    arms = []
    for m, ps in find_nodes(loop['body'], lambda y: y.get('k') == 'match' and 'overload' in src(y['expr'])):
        for a in m['arms']:
            if 'Factory' in (a['pat'].get('s') or ''):
                arms.append(a)
    third_bucket = 'dynamic_matches' in buckets
    for a in arms[:1]:
        tuples = [x for x, _ in find_nodes(a['body'], lambda y: y.get('k') == 'tuple' and len(y['elems']) >= 3)]
        last = src(tuples[0]['elems'][2]) if tuples else None
        ok = third_bucket or (last not in ('true', None))
        r6.inst({'factory_candidates_marked_generic': last, 'separate_dynamic_bucket': third_bucket}, ok=ok)
        if not ok:
            r6.fail('resolve_overload/dynamic-shares-generic-tier', '%s:%d' % (F, a['line']), 'dynamic (factory) candidates are pushed as is_generic=true into the generic tier: a matching generic overload and a matching dynamic overload are an ambiguity instead of preferring the generic one')
    r6.need(1)

    # ---------------- R05.7
    own_generics(ctx)

    # ---------------- R05.8
    recourse_filter(ctx)

    # ---------------- R05.9
    candidate_list_integrity(ctx)


def own_generics(ctx):
    """R05.7: which tier an overload belongs to is read off its own generic-parameter list (XFuncSpec::is_generic).  That list must
    be a function of the declaration alone: computed on the MIR (data + control dependences, mutation through &mut, closures by
    summary), the value stored in XFuncSpec.generic_params by parse_function_header is not influenced by the set of generic names
    inherited from the enclosing functions.  Otherwise renaming a generic parameter changes the tier of a nested overload."""
    from .lib import cdeps, mirq
    from .lib.facts import op_place
    mir = ctx.mir
    r7 = ctx.rule('R05.7', 'the own generic-parameter list of a declared function does not depend on the inherited generic names')
    bs = [b for b in mir.bodies if b.nid.endswith('::parse_function_header')]
    if len(bs) != 1:
        r7.fail('anchor/parse_function_header', 'src/parser.rs', 'parse_function_header not found')
    else:
        b = bs[0]
        inherited = [l for l in range(1, b.d['argc'] + 1) if 'HashSet<std::string::String>' in (b.local_ty(l) or '')]
        specs = [(i, j, s) for i, j, s in b.stmts() if s['k'] == 'assign' and s['rv']['k'] == 'agg' and (s['rv'].get('adt') or '').endswith('xtype::XFuncSpec') and 'generic_params' in (s['rv'].get('fields') or [])]
        if len(inherited) != 1 or not specs:
            r7.fail('anchor/parse_function_header/shape', mirq.site(b, 0), 'expected one inherited-names parameter and the construction of the XFuncSpec')
        for i, j, s in specs:
            op = s['rv']['ops'][s['rv']['fields'].index('generic_params')]
            pl = op_place(op)
            if pl is None:
                r7.inst({'generic_params': 'constant'}, kind=(i, j))
                continue
            N, U = cdeps.deep_influence(mir, b, [(pl['l'], None, i)])
            ok = not any((l, None) in N for l in inherited)
            r7.inst({'fn': b.nid, 'site': mirq.site(b, i, j), 'locals_influencing_generic_params': len(N), 'inherited_names_among_them': not ok}, ok=ok, kind=(i, j))
            if not ok:
                r7.fail('parse_function_header/own-generics-depend-on-inherited', mirq.site(b, i, j), 'the list of a function\'s own generic parameters is computed from the generic names inherited from the enclosing functions as well: a nested generic function whose parameter names coincide with the enclosing ones gets a different list, hence a different rank in overload resolution, than its alpha-renamed twin')
    r7.need(1)


def recourse_filter(ctx):
    """R05.8: while the body of a function f is compiled, get_item hides from the candidates of the name f exactly those parent
    overloads of the same type that still wait for a forward declaration (the declaration this very definition fulfils).  Decided as
    a table: the closure handed to any / all is evaluated abstractly on a fulfilled and on an unfulfilled requirement, the side of
    the test on which the overload is not pushed is read off the CFG, and the four abstract requirement lists [], [fulfilled],
    [unfulfilled], [fulfilled, unfulfilled] must give: keep, keep, hide, hide."""
    from .lib import absint, mirq
    from .lib.facts import strip_generics, callee_name, op_place, op_local
    mir = ctx.mir
    r8 = ctx.rule('R05.8', 'get_item hides a parent overload of the recursing name only if one of its forward requirements is unfulfilled')
    bs = mir.find('compilation_scope::CompilationScope::get_item')
    if len(bs) != 1:
        r8.fail('anchor/get_item', 'src/compilation_scope.rs', 'get_item not found')
        r8.need(4)
        return
    g = bs[0]
    found = 0
    # the test may sit in get_item itself or in a private predicate of the scope that get_item calls
    places = [(g, None)]
    for hbb, ht in g.calls():
        hn = strip_generics(ht.get('callee') or '')
        if hn.startswith('compilation_scope::CompilationScope::') and hn != g.nid:
            for h in mir.find(hn):
                if h.kind == 'fn' and (h, (hbb, ht)) not in places:
                    places.append((h, (hbb, ht)))
    for b, via in places:
      for bb, t in b.calls():
        nm = strip_generics(t.get('decl') or t.get('callee') or '')
        if nm not in ('std::iter::Iterator::any', 'std::iter::Iterator::all') or len(t['args']) != 2 or t.get('target') is None:
            continue
        k, v = mirq.chase_op(b, t['args'][1])
        if not (k == 'rv' and v[2]['rv']['k'] == 'agg' and v[2]['rv'].get('ak') == 'closure'):
            continue
        cb = mir.by_id.get(v[2]['rv'].get('def'))
        if cb is None or not any(any(isinstance(e, dict) and e.get('n') == 'fulfilled' for e in p['p']) for i, j, s in cb.stmts() for m_, p in mirq.places_in_stmt(s)):
            continue
        found += 1
        # (1) what the closure answers for a fulfilled / an unfulfilled requirement
        answers = {}
        for ful in (True, False):
            def foracle(p, env, ful=ful):
                if p['p'] and isinstance(p['p'][-1], dict) and p['p'][-1].get('n') == 'fulfilled':
                    return ful
                return absint.UNKNOWN
            rs = absint.returns(mir, cb, {}, lambda tm, vals, env: absint.UNKNOWN, field_oracle=foracle)
            answers[ful] = next(iter(rs)) if len(rs) == 1 and isinstance(next(iter(rs)), bool) else None
        # (2) on which value of the any / all result can the loop go on without pushing the overload?
        def hide_polarity(body, call_bb, dest_local):
            pushes = {pb for pb, pt in body.calls() if strip_generics(pt.get('callee') or pt.get('decl') or '').endswith('Vec::push')}
            tgt = body.term(call_bb).get('target')
            heads = [h for h in body.dominators().get(call_bb, ()) if h != call_bb and tgt is not None and h in body.reachable(tgt) and body.term(h)['k'] == 'call' and strip_generics(body.term(h).get('decl') or body.term(h).get('callee') or '').endswith('::next')]
            if not heads:
                return None
            h = max(heads, key=lambda x: len(body.dominators().get(x, ())))
            return mirq.bool_polarity(body, dest_local, call_bb, None, h, avoid=pushes)
        if via is None:
            hide_on = hide_polarity(b, bb, t['dest']['l'])
        else:
            # the predicate's answer for each value of the any / all result (its other conjuncts taken as true), then the
            # polarity of the predicate's result in get_item
            hbb, ht = via
            outer = hide_polarity(g, hbb, ht['dest']['l'])
            ans = {}
            for v_ in (True, False):
                def horacle(tm, vals, env, v_=v_):
                    n2 = strip_generics(tm.get('decl') or tm.get('callee') or '')
                    if n2 in ('std::iter::Iterator::any', 'std::iter::Iterator::all'):
                        return v_
                    if 'PartialEq' in n2 and n2.endswith('::eq'):
                        return True
                    if 'PartialEq' in n2 and n2.endswith('::ne'):
                        return False
                    return absint.UNKNOWN
                # what the predicate returns on the paths through the any / all test (other arms of the predicate, e.g. a
                # variant that is never a forward declaration, answer without looking at the requirements)
                got = set()

                def ev(kind, ebb, idx, node, env, R_):
                    if kind == 'term' and node['k'] == 'return':
                        got.add(repr(R_.get(env, {'l': 0, 'p': []})))
                        return 'ret'
                    return None
                R_ = absint.region_with_std_oracle(mir, b, horacle, ev)
                absint.CURRENT.append(R_)
                try:
                    R_.run(t['target'], R_.assign({}, t['dest'], v_))
                finally:
                    absint.CURRENT.pop()
                bools = {x == 'True' for x in got if x in ('True', 'False')}
                ans[v_] = next(iter(bools)) if len(bools) == 1 and len(got) == 1 else None
            hide_on = None
            if outer is not None and ans[True] is not None and ans[False] is not None and ans[True] != ans[False]:
                # hidden when predicate == outer; predicate == ans[v]
                hide_on = True if ans[True] == outer else False
        ok_all = answers[True] is not None and answers[False] is not None and hide_on is not None
        table = {}
        if ok_all:
            for label, lst in (('no requirement', []), ('a fulfilled requirement', [True]), ('an unfulfilled requirement', [False]), ('a fulfilled and an unfulfilled requirement', [True, False])):
                vals = [answers[x] for x in lst]
                res = any(vals) if nm.endswith('any') else all(vals)
                table[label] = (res == hide_on)
        want = {'no requirement': False, 'a fulfilled requirement': False, 'an unfulfilled requirement': True, 'a fulfilled and an unfulfilled requirement': True}
        for label, w in want.items():
            got = table.get(label)
            ok = ok_all and got == w
            r8.inst({'overload_with': label, 'hidden': got, 'expected': w}, ok=ok, kind=(bb, label))
            if not ok:
                r8.fail('get_item/recourse-filter/%s' % label.replace(' ', '-'), mirq.site(b, bb) if via is None else mirq.site(g, via[0]), 'inside the body of a function, a parent overload of the same name and type with %s is %s (expected %s): ordinary overloads of an enclosing scope disappear from the candidates (no ambiguity is reported, the answer depends on where the call sits) or pending declarations stay visible'
                        % (label, 'hidden' if got else 'kept' if got is not None else 'undecided', 'hidden' if w else 'kept'))
    if not found:
        r8.fail('anchor/get_item/filter', mirq.site(g, 0), 'the any / all test over the forward requirements of a parent overload was not found')
    r8.need(4)


def candidate_list_integrity(ctx):
    """R05.9: what resolve_overload ranks is the whole list of visible overloads of the name (possibly filtered by a predicate on
    each candidate): the vector handed to it is the payload of get_item's answer or the `collect` of an iterator over it, never a
    list cut down by position (vec![one of them], swap_remove, remove, truncate, first ...).  Cutting the list before ranking hides
    equally ranked candidates, i.e. ambiguities."""
    from .lib import mirq
    from .lib.facts import strip_generics, callee_name, op_place
    mir = ctx.mir
    r9 = ctx.rule('R05.9', 'the candidate list handed to resolve_overload is never cut down by position')
    POSITIONAL = re.compile(r'(Vec::swap_remove|Vec::remove|Vec::truncate|Vec::pop|Vec::split_off|Vec::drain|Vec::retain|slice.*::first|slice.*::last|box_assume_init_into_vec_unsafe|::into_vec|Iterator::take|Iterator::skip|Iterator::nth|Iterator::position|Iterator::last|Iterator::step_by|Iterator::find)$')
    for b, bb, t in mir.call_sites(lambda n: n.endswith('CompilationScope::resolve_overload')):
        p = op_place(t['args'][1]) if len(t['args']) > 1 else None
        if p is None:
            continue
        bad = []
        sl = mirq.backslice(b, [p['l']])
        for l in sl:
            if 'OverloadWithForwardReq' not in (b.local_ty(l) or '') and 'TracedOverload' not in (b.local_ty(l) or ''):
                continue
            for kind, dbb, idx, d in b.defs().get(l, []):
                if kind == 'call':
                    nm = strip_generics(callee_name(d) or d.get('decl') or '')
                    if POSITIONAL.search(nm) or POSITIONAL.search(strip_generics(d.get('decl') or '')):
                        bad.append(nm.split('::')[-1])
        # mutations of the vector through &mut (swap_remove returns an element, truncate returns nothing)
        aliases, _o = mirq.move_origins(b, p['l'])
        for cbb, ct in b.calls():
            nm = strip_generics(callee_name(ct) or ct.get('decl') or '')
            if not POSITIONAL.search(nm) or not ct['args']:
                continue
            rp = op_place(ct['args'][0])
            if rp is None:
                continue
            k, v = mirq.chase(b, rp['l'])
            root = v[2]['rv']['place']['l'] if k == 'rv' and v[2]['rv']['k'] == 'ref' else rp['l']
            if root in aliases:
                bad.append(nm.split('::')[-1])
        ok = not bad
        r9.inst({'caller': b.nid, 'site': mirq.site(b, bb), 'positional_operations_on_the_list': sorted(set(bad))}, ok=ok, kind=(b.nid, bb))
        if not ok:
            r9.fail('%s/candidate-list-cut' % b.nid.split('::')[-1], mirq.site(b, bb), 'the list of candidates is cut down by position (%s) before it is ranked: equally ranked overloads that were dropped can no longer make the call ambiguous, and which one survives depends on declaration order' % ', '.join(sorted(set(bad))))
    r9.need(3)
