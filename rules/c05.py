"""C05 — overload resolution is ranked, unambiguous and stable.  Order-independence and ambiguity detection as
dataflow facts about CompilationScope::resolve_overload (syntax tree):
  R05.1  the candidate loop carries state across iterations only by pushing to the bucket vectors / the failure list
  R05.2  the only return inside the loop is under the candidate's own short_circuit_overloads flag
  R05.3  after the loop a bucket element is taken only when the bucket has exactly one element; more than one is an
         ambiguity error; buckets are consulted exact first, then generic; otherwise NoOverload
  R05.4  bucket choice is a function of (is_generic, is_unknown) only; is_unknown depends on the argument types only
  R05.5  candidate collection (get_item) appends own overloads before the parent's and nothing indexes candidates by position
  R05.6  three tiers: dynamic (factory) candidates must rank below generic static candidates
"""
import re
from .lib import astq
from .lib.facts import find_nodes, walk, strip_generics

F = 'src/compilation_scope.rs'


def src(n):
    return re.sub(r'\s+', '', n.get('s') or '')


def natural_loops(b):
    """[(header, set(blocks))] from back edges u->h with h dominating u (normal edges)"""
    dom = b.dominators()
    loops = {}
    preds = b.preds()
    for u, ss in enumerate(b.succs()):
        if u not in dom:
            continue
        for h in ss:
            if h in dom[u]:
                body = {h, u}
                st = [u]
                while st:
                    x = st.pop()
                    if x == h:
                        continue
                    for q in preds[x]:
                        if q not in body and q in dom:
                            body.add(q)
                            st.append(q)
                loops.setdefault(h, set()).update(body)
    return sorted(loops.items())


def decision_table(ctx, r3, bucket_names):
    """R05.3: abstractly evaluate the code after the candidate loop for every (|exact|, |generic|) in {0,1,2,3}^2 and compare
    the reachable decision with the documented one.  Works on MIR, so an if-chain, a match on a tuple of lengths or early
    returns are all the same to it."""
    from .lib import absint
    from .lib.facts import callee_name, op_place
    bs = ctx.mir.find('compilation_scope::CompilationScope::resolve_overload')
    if len(bs) != 1:
        r3.fail('anchor/resolve_overload-mir', F, 'MIR body of resolve_overload not found (%d)' % len(bs))
        return
    b = bs[0]
    dbg = {v['name']: v['val']['l'] for v in b.dbg if 'l' in v['val'] and not v['val']['p']}
    tiers = [n for n in ('exact_matches', 'generic_matches', 'dynamic_matches') if n in dbg and n in bucket_names]
    if tiers[:2] != ['exact_matches', 'generic_matches']:
        r3.fail('anchor/buckets', F, 'bucket locals exact_matches / generic_matches not found in the MIR debug info (%s)' % sorted(dbg)[:8])
        return
    key_of = {n: '_%d' % dbg[n] for n in tiers}
    name_of = {v: k for k, v in key_of.items()}
    # the candidate loop: the natural loop that contains a push on a bucket
    push_blocks = [i for i, t in b.calls() if (callee_name(t) or '').endswith('Vec::<T, A>::push')]
    loops = [(h, body) for h, body in natural_loops(b) if any(pb in body for pb in push_blocks)]
    if not loops:
        r3.fail('anchor/loop-mir', F, 'candidate loop not found in the MIR')
        return
    h, body = max(loops, key=lambda x: len(x[1]))
    # the normal exit: the edge taken when the candidate iterator is exhausted (a switch on the discriminant of the value
    # returned by Iterator::next); the other exits are `?` error returns and the short-circuit return judged by R05.2
    exits = set()
    defs = b.defs()
    for u in body:
        tm = b.blocks[u]['term']
        if tm['k'] != 'switch':
            continue
        outs = [s for s in b.succs()[u] if s not in body]
        dl = op_place(tm['discr'])
        if not outs or dl is None:
            continue
        for kind, bb_, idx_, x in defs.get(dl['l'], []):
            if kind == 'stmt' and x['rv']['k'] == 'discr':
                src_l = x['rv']['place']['l']
                for k2, bb2, idx2, x2 in defs.get(src_l, []):
                    if k2 == 'call' and re.search(r'(^|::)next$', strip_generics(callee_name(x2) or '')):
                        exits.update(outs)
    exits = sorted(exits)
    if not exits:
        r3.fail('anchor/loop-exit', F, 'the exhausted-iterator exit of the candidate loop was not found in the MIR')
        return

    def ref_target(v):
        return v[1] if isinstance(v, tuple) and v and v[0] == 'ref' else None

    def run_for(lens):
        def oracle(t, vals, env):
            cn = callee_name(t) or ''
            tgt = ref_target(vals[0]) if vals else None
            # a reference to a reference local (&mut *_r)
            while tgt is not None and tgt.endswith('/*') and isinstance(env.get(tgt[:-2]), tuple) and env[tgt[:-2]][0] == 'ref':
                tgt = env[tgt[:-2]][1]
            if tgt in lens:
                if cn.endswith('Vec::<T, A>::len'):
                    return lens[tgt]
                if cn.endswith('Vec::<T, A>::is_empty'):
                    return lens[tgt] == 0
                if cn.endswith('Vec::<T, A>::swap_remove') or cn.endswith('Vec::<T, A>::remove'):
                    return ('tuple', ('taken', tgt, vals[1] if len(vals) > 1 else None))
                if cn.endswith('Vec::<T, A>::pop'):
                    return ('tuple', ('taken', tgt, lens[tgt] - 1))
            return absint.UNKNOWN

        def event(kind, bb, idx, node, env, R):
            if kind == 'term' and node['k'] == 'call' and (callee_name(node) or '').endswith('resolve_overload::prepare_return'):
                v = R.opval(env, node['args'][1]) if len(node['args']) > 1 else None
                if isinstance(v, tuple) and v[0] == 'tuple' and v[1] and v[1][0] == 'taken':
                    _, tgt, ix = v[1]
                    if isinstance(ix, int) and 0 <= ix < lens[tgt]:
                        return 'take:' + name_of[tgt]
                    return 'take-out-of-range:' + name_of[tgt]
                return 'take:unrecognised-source'
            if kind == 'stmt' and node['k'] == 'assign' and node['rv']['k'] == 'agg' and node['rv'].get('ak') == 'adt' \
                    and node['rv']['adt'].endswith('CompilationError'):
                if node['rv']['v'] == 'AmbiguousOverload':
                    return 'ambiguous'
                if node['rv']['v'] == 'NoOverload':
                    return 'no-overload'
            return None

        R = absint.Region(b, oracle, event)
        evs = set()
        over = False
        for x in exits:
            e, silent, o = R.run(x, {})
            evs |= e
            over = over or o
        return evs, over

    n_dec = 0
    for e in (0, 1, 2, 3):
        for g in (0, 1, 2, 3):
            lens = {key_of['exact_matches']: e, key_of['generic_matches']: g}
            for extra in tiers[2:]:
                lens[key_of[extra]] = 0
            want = 'take:exact_matches' if e == 1 else 'ambiguous' if e > 1 else 'take:generic_matches' if g == 1 else 'ambiguous' if g > 1 else 'no-overload'
            if len(tiers) > 2 and e == 0 and g == 0:
                want = 'no-overload'
            evs, over = run_for(lens)
            ok = evs == {want} and not over
            n_dec += 1
            r3.inst({'exact_matches': e, 'generic_matches': g, 'documented': want, 'reachable_decisions': sorted(evs)}, ok=ok, kind=(e, g))
            if not ok:
                r3.fail('decision/exact=%s,generic=%s' % (e if e < 2 else '2+' if e == 2 else '3+', g if g < 2 else '2+' if g == 2 else '3+'),
                        '%s:%s' % (F, b.span.split(':')[1] if ':' in b.span else ''),
                        'with %d exact and %d generic matching candidates the code after the candidate loop can decide %s; documented: %s%s'
                        % (e, g, sorted(evs) or ['nothing (returns without taking a candidate or reporting)'], want, ' (state bound hit)' if over else ''))
    r3.need(16)


def run(ctx):
    ast = ctx.ast
    ctx.explanation = ('The outcome of resolve_overload is shown to depend only on the multiset of matching candidates: loop-carried state is '
                       'push-only, no early return except the documented short-circuit stubs, singleton test before taking, ambiguity otherwise, fixed tier order.')
    ctx.trusted = ['syn parse', 'that spec.bind matches exactly the right candidates is C04\'s concern']
    fns = [fn for f, fn, im in astq.all_fns(ast) if f == F and fn['name'] == 'resolve_overload']
    r1 = ctx.rule('R05.1', 'candidate loop carries state only through push on buckets / failures')
    if len(fns) != 1:
        r1.fail('anchor/resolve_overload', F, 'resolve_overload not found')
        return
    fn = fns[0]
    loops = [n for n, ps in find_nodes(fn['body'], lambda y: y.get('k') == 'for') if not any(p.get('k') in ('fn', 'closure') for p in ps)]
    loops = [l for l in loops if 'overloads' in src(l['iter'])]
    if len(loops) != 1:
        r1.fail('anchor/loop', '%s:%d' % (F, fn['line']), 'candidate loop not found')
        return
    loop = loops[0]
    # names declared before the loop at function level
    outer = set()
    outer_mut = set()
    for st in fn['body']:
        if st is loop:
            break
        if st.get('k') == 'let':
            for p, _ in find_nodes(st['pat'], lambda y: y.get('k') == 'pident'):
                outer.add(p['name'])
                if p.get('mut'):
                    outer_mut.add(p['name'])
    buckets = {n for n in outer if n.endswith('_matches')}
    pushes = []
    for n, ps in find_nodes(loop['body'], lambda y: y.get('k') == 'mcall'):
        base = n['recv']
        while base.get('k') in ('paren', 'ref', 'field'):
            base = base.get('expr') or base.get('base')
        if n['method'] in ('push', 'insert', 'extend', 'clear', 'remove', 'swap_remove', 'pop', 'truncate', 'retain', 'sort', 'append', 'drain'):
            tgt = None
            names = [x['path'] for x, _ in find_nodes(n['recv'], lambda y: y.get('k') == 'path')]
            tgt = [x for x in names if x in outer_mut]
            if tgt:
                pushes.append((n['method'], tuple(tgt), n['line']))
    for meth, tgt, line in pushes:
        ok = meth == 'push' and all(t in buckets or t == 'dynamic_failures' for t in tgt)
        r1.inst({'mutation': meth, 'targets': tgt}, ok=ok, kind=(meth, tgt))
        if not ok:
            r1.fail('loop/%s-%s' % (meth, '-'.join(tgt)), '%s:%d' % (F, line), 'the candidate loop mutates %s with %s: the outcome could depend on the order in which candidates are visited' % (tgt, meth))
    for n, ps in find_nodes(loop['body'], lambda y: y.get('k') == 'assign' or (y.get('k') == 'binary' and y['op'].endswith('=') and y['op'] not in ('==', '!=', '<=', '>='))):
        names = [x['path'] for x, _ in find_nodes(n['left'], lambda y: y.get('k') == 'path')]
        tgt = [x for x in names if x in outer]
        if tgt:
            r1.inst({'assignment': src(n)[:60]}, ok=False)
            r1.fail('loop/assign-%s' % '-'.join(tgt), '%s:%d' % (F, n['line']), 'the candidate loop assigns to %s declared outside the loop (order-dependent state)' % tgt)
    r1.need(2)

    # ---------------- R05.2
    r2 = ctx.rule('R05.2', 'the only return inside the loop is under spec.short_circuit_overloads')
    for n, ps in find_nodes(loop['body'], lambda y: y.get('k') in ('return', 'break')):
        if any(p.get('k') == 'closure' for p in ps):
            continue
        conds = [src(p['cond']) for p in ps if p.get('k') == 'if']
        ok = any(c == 'spec.short_circuit_overloads' for c in conds)
        r2.inst({'exit': n['k'], 'line': n['line'], 'conditions': conds}, ok=ok, kind=n['line'] - loop['line'])
        if not ok:
            r2.fail('loop/early-%s' % n['k'], '%s:%d' % (F, n['line']), 'the candidate loop is left early under %s: later candidates are never considered (declaration-order dependence)' % (conds or 'no condition'))
    # `?` inside the loop can only abort with an error; `continue` skips a candidate on a per-candidate condition
    r2.need(1)

    # ---------------- R05.3 (decision table over the MIR; independent of the syntactic form of the selection code)
    r3 = ctx.rule('R05.3', 'take only from singleton buckets; >1 is ambiguity; exact before generic; else NoOverload')
    decision_table(ctx, r3, buckets)

    # ---------------- R05.4
    r4 = ctx.rule('R05.4', 'bucket choice depends on (is_generic, is_unknown) only')
    def is_bucket_ref(stmts):
        if len(stmts) != 1:
            return False
        e = stmts[0]
        return e.get('k') == 'ref' and e.get('mut') and e['expr'].get('k') == 'path' and e['expr']['path'] in buckets
    sel = []
    for n, ps in find_nodes(loop['body'], lambda y: y.get('k') == 'if'):
        el = n.get('else')
        if el and el.get('k') == 'block' and is_bucket_ref(n['then']) and is_bucket_ref(el['stmts']):
            sel.append(n)
    if not sel:
        r4.fail('loop/bucket-choice', '%s:%d' % (F, loop['line']), 'bucket selection expression not found')
    for n in sel[:1]:
        names = {x['path'] for x, _ in find_nodes(n['cond'], lambda y: y.get('k') == 'path')}
        ok = names <= {'is_generic', 'is_unknown'} and names
        r4.inst({'bucket_choice_condition': src(n['cond'])}, ok=bool(ok))
        if not ok:
            r4.fail('loop/bucket-condition', '%s:%d' % (F, n['line']), 'the bucket is chosen by %s, not by (is_generic, is_unknown) alone' % sorted(names))
    for st in fn['body']:
        if st.get('k') == 'let' and st['pat'].get('k') == 'pident' and st['pat']['name'] == 'is_unknown':
            names = {x['path'] for x, _ in find_nodes(st['init'], lambda y: y.get('k') == 'path')}
            ok = names <= {'arg_types', 't'}
            r4.inst({'is_unknown_depends_on': sorted(names)}, ok=ok)
            if not ok:
                r4.fail('is_unknown/deps', '%s:%d' % (F, st['line']), 'is_unknown depends on %s besides the argument types' % sorted(names - {'arg_types', 't'}))
    r4.need(2)

    # ---------------- R05.5
    r5 = ctx.rule('R05.5', 'own overloads before parent overloads; candidates never indexed by position')
    gi = [f2 for f, f2, im in astq.all_fns(ast) if f == F and f2['name'] == 'get_item']
    if gi:
        body = gi[0]['body']
        ext = [n for n, ps in find_nodes(body, lambda y: y.get('k') == 'mcall' and y['method'] in ('extend', 'push') and src(y['recv']) == 'ret')]
        ins = [n for n, ps in find_nodes(body, lambda y: y.get('k') == 'mcall' and y['method'] in ('insert', 'splice', 'rotate_left', 'rotate_right', 'reverse', 'sort', 'sort_by') and src(y['recv']) == 'ret')]
        ok = bool(ext) and not ins
        r5.inst({'get_item merges parent overloads by': [n['method'] for n in ext]}, ok=ok)
        if not ok:
            r5.fail('get_item/merge', '%s:%d' % (F, gi[0]['line']), 'parent overloads are not simply appended after the scope\'s own')
    idx = [n for n, ps in find_nodes(loop['body'], lambda y: y.get('k') == 'index' and src(y['base']) in ('overloads',))]
    r5.inst({'positional_indexing_of_candidates': len(idx)}, ok=not idx)
    if idx:
        r5.fail('loop/indexing', '%s:%d' % (F, idx[0]['line']), 'candidates are indexed by position')
    r5.need(2)

    # ---------------- R05.6
    r6 = ctx.rule('R05.6', 'dynamic candidates rank below generic static candidates')
    # the Factory arm of the candidate match yields the triple (spec, considered, is_generic): its last component
    arms = []
    for m, ps in find_nodes(loop['body'], lambda y: y.get('k') == 'match' and 'overload' in src(y['expr'])):
        for a in m['arms']:
            if 'Factory' in (a['pat'].get('s') or ''):
                arms.append(a)
    third_bucket = 'dynamic_matches' in buckets
    for a in arms[:1]:
        tuples = [x for x, _ in find_nodes(a['body'], lambda y: y.get('k') == 'tuple' and len(y['elems']) >= 3)]
        last = src(tuples[0]['elems'][2]) if tuples else None
        ok = third_bucket or (last not in ('true', None))
        r6.inst({'factory_candidates_marked_generic': last, 'separate_dynamic_bucket': third_bucket}, ok=ok)
        if not ok:
            r6.fail('resolve_overload/dynamic-shares-generic-tier', '%s:%d' % (F, a['line']), 'dynamic (factory) candidates are pushed as is_generic=true into the generic tier: a matching generic overload and a matching dynamic overload are an ambiguity instead of preferring the generic one')
    r6.need(1)
