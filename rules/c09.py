"""C09 — size limit enforced, memory accounting balances.

Conservation as a structural theorem; each rule is one line of the argument:
  R09.1  RuntimeStats.size is mutated only in Runtime::allocate (+=) and Runtime::deallocate (-=)
  R09.2  allocate is called only from Managed{XValue,XError}::new; deallocate only from their Drop impls with self.size
  R09.3  Managed* struct literals occur only in `new`, with size = the value allocate returned; size/runtime never reassigned
  R09.4  failure balance: on every path of allocate that returns Err the net change of stats.size is zero
  R09.5  no leak primitive (mem::forget, ManuallyDrop, Box::leak, Rc::into_raw, ptr::read/write ..) outside util::{trysort,try_heap}
  R09.7  the size model reads every collection-typed payload field (no variant falls into `_ => 0` with a runtime-sized payload)
  R09.8  enforcement: allocate compares the post-add total with size_limit using `>` and returns AllocationLimitReached;
         size_limit is read only in allocate and the pre-flight can_allocate_by (monotonicity in L)
"""
import re
from .lib import mirq
from .lib.facts import strip_generics, op_local, op_place

ALLOC = 'runtime::Runtime::allocate'
DEALLOC = 'runtime::Runtime::deallocate'
MANAGED = ('xvalue::ManagedXValue', 'xvalue::ManagedXError')

COLLECTION_RX = re.compile(r'\b(std::vec::Vec|std::collections::VecDeque|std::collections::HashMap|std::collections::HashSet|std::collections::BTreeMap|std::string::String|util::fenced_string::FencedString|util::lazy_bigint::LazyBigint|num_bigint::BigInt)\b|Box<\[')

LEAK_RX = re.compile(r'^(std|core|alloc)::(mem::forget|mem::ManuallyDrop::new|mem::MaybeUninit|boxed::Box::leak|boxed::Box::into_raw|rc::Rc::into_raw|rc::Rc::from_raw|rc::Rc::increment_strong_count|rc::Rc::decrement_strong_count|ptr::read|ptr::write|ptr::copy|ptr::copy_nonoverlapping|ptr::drop_in_place|mem::transmute|mem::zeroed|mem::uninitialized|intrinsics::)')
LEAK_OK_PREFIX = ('util::trysort::', 'util::try_heap::', '<util::try_heap::', '<util::trysort::')

# payload fields that are accounted by other means (one line of reason each)
SIZE_MODEL_EXEMPT = {
    ('builtin::sequence::XSequence', 'Chain', 'midpoint_lengths'): 'accounted through parts: dyn_size adds (parts.len()-1)*size_of::<usize>() and XSequence::chain builds exactly parts.len()-1 midpoints',
    ('builtin::stack::XStack', '-', 'head'): 'linked nodes are counted by the strong-count walk in dyn_size',
}


def fields_read(body):
    out = set()
    for _, _, s in body.stmts():
        for mode, p in mirq.places_in_stmt(s):
            cur_v = None
            for e in p['p']:
                if isinstance(e, dict) and 'dc' in e:
                    cur_v = e['dc']
                if isinstance(e, dict) and 'n' in e:
                    out.add((e.get('adt'), e.get('v') or cur_v or '-', e['n']))
    for i, bl in enumerate(body.blocks):
        for mode, p in mirq.places_in_term(bl['term']):
            for e in p['p']:
                if isinstance(e, dict) and 'n' in e:
                    out.add((e.get('adt'), e.get('v') or '-', e['n']))
    return out


def run(ctx):
    mir = ctx.mir
    ctx.explanation = ('Conservation of the accounted byte total proved as a structural theorem over all MIR bodies (who-writes the counter, '
                       'who-calls allocate/deallocate, where Managed* values are built, failure balance, no leak primitives), plus the size-model '
                       'coverage and limit-enforcement clauses.')
    ctx.trusted = ['rustc MIR and drop elaboration (every Managed* value is dropped exactly once unless leaked through a listed primitive)',
                   'Rc reference cycles through managed values are impossible because values are immutable after construction (R15.1)']
    # ---------------- R09.1
    r1 = ctx.rule('R09.1', 'RuntimeStats.size mutated only in allocate (+=) and deallocate (-=)')
    for b, bb, j, mode, p in mirq.field_accesses(mir, 'runtime::RuntimeStats', 'size'):
        if mode == 'r':
            r1.inst({'body': b.id, 'mode': 'read', 'site': mirq.site(b, bb, j) if j is not None else mirq.site(b, bb)}, kind=(b.id, 'r'))
            continue
        ok = b.nid in (ALLOC, DEALLOC)
        how = None
        if ok and j is not None:
            # the &mut must be consumed by AddAssign (allocate) / SubAssign (deallocate) only
            s = b.blocks[bb]['stmts'][j]
            tgt = s['place']['l'] if s['k'] == 'assign' else None
            t = b.term(bb)
            if t['k'] == 'call' and op_local(t['args'][0]) == tgt:
                how = strip_generics(t.get('callee') or '')
            ADD = '<units::AllocatedMemory as std::ops::AddAssign>::add_assign'
            SUB = '<units::AllocatedMemory as std::ops::SubAssign>::sub_assign'
            # (a roll-back subtraction inside allocate is allowed; R09.4 decides the per-path balance)
            ok = how in ((ADD, SUB) if b.nid == ALLOC else (SUB,))
        r1.inst({'body': b.id, 'mode': 'write', 'via': how, 'site': mirq.site(b, bb, j) if j is not None else mirq.site(b, bb)}, ok=ok, kind=(b.id, 'w'))
        if not ok:
            r1.fail('%s/size-write' % b.nid, mirq.site(b, bb), 'RuntimeStats.size is mutated here (%s); only allocate may add and deallocate may subtract' % (how or mode))
    r1.need(5)
    # AllocatedMemory add/sub must be the derived plain usize +/- (derive_more): its body contains exactly one Add/Sub binop on usize
    for tr, opn in (('AddAssign', ('Add', 'AddWithOverflow')), ('SubAssign', ('Sub', 'SubWithOverflow'))):
        bs = mir.find('<units::AllocatedMemory as std::ops::%s>::%s' % (tr, {'AddAssign': 'add_assign', 'SubAssign': 'sub_assign'}[tr]))
        ok = False
        if len(bs) == 1:
            ops = [s['rv']['op'] for _, _, s in bs[0].stmts() if s['k'] == 'assign' and s['rv']['k'] == 'bin']
            calls = [strip_generics(t.get('callee') or '') for _, t in bs[0].calls()]
            ok = (len(ops) == 1 and ops[0] in opn) or any(c in ('<usize as std::ops::%s>::%s' % (tr, 'add_assign' if tr == 'AddAssign' else 'sub_assign'), 'std::ops::arith::<impl std::ops::%s for usize>::%s' % (tr, 'add_assign' if tr == 'AddAssign' else 'sub_assign')) for c in calls)
            r1.inst({'impl': bs[0].id, 'binops': ops, 'calls': calls}, ok=ok)
        if not ok:
            r1.fail('units::AllocatedMemory/%s' % tr, 'src/units.rs', 'AllocatedMemory %s is not the plain usize operation' % tr)

    # ---------------- R09.2
    r2 = ctx.rule('R09.2', 'allocate called only by Managed*::new; deallocate only by their Drop impls with self.size')
    for b, bb, t in mir.call_sites(lambda n: n == ALLOC):
        ok = b.nid in ('xvalue::ManagedXValue::new', 'xvalue::ManagedXError::new')
        r2.inst({'caller': b.id, 'site': mirq.site(b, bb)}, ok=ok)
        if not ok:
            r2.fail('%s/allocate' % b.nid, mirq.site(b, bb), 'Runtime::allocate called outside Managed*::new: bytes are added that no Drop will return')
    for b, bb, t in mir.call_sites(lambda n: n == DEALLOC):
        ok = b.nid in ('<xvalue::ManagedXValue as std::ops::Drop>::drop', '<xvalue::ManagedXError as std::ops::Drop>::drop')
        arg_ok = False
        if ok:
            k, v = mirq.chase_op(b, t['args'][1])
            # the operand must be a copy of (*self).size
            src = None
            if k == 'rv':
                rv = v[2]['rv']
                if rv['k'] == 'use':
                    src = op_place(rv['op'])
            elif k == 'place':
                src = v
            if src and src['l'] == 1 and [e.get('n') for e in src['p'] if isinstance(e, dict) and 'n' in e] == ['size']:
                arg_ok = True
        r2.inst({'caller': b.id, 'site': mirq.site(b, bb), 'arg_is_self_size': arg_ok}, ok=ok and arg_ok)
        if not ok:
            r2.fail('%s/deallocate' % b.nid, mirq.site(b, bb), 'Runtime::deallocate called outside the Managed* Drop impls')
        elif not arg_ok:
            r2.fail('%s/deallocate-arg' % b.nid, mirq.site(b, bb), 'deallocate is not passed self.size (the amount recorded at construction)')
    r2.need(4)
    # both Managed types implement Drop
    for adt in MANAGED:
        if not mir.find('<%s as std::ops::Drop>::drop' % adt):
            r2.fail('%s/no-drop' % adt, 'src/xvalue.rs', '%s has no Drop impl returning its bytes' % adt)

    # ---------------- R09.3
    r3 = ctx.rule('R09.3', 'Managed* literals only in new, size = allocate result; size/runtime never reassigned')
    for adt in MANAGED:
        n = 0
        for b, bb, j, s in mirq.aggregates(mir, adt):
            n += 1
            ok = b.nid == adt + '::new'
            size_ok = False
            if ok:
                rv = s['rv']
                ops = dict(zip(rv['fields'], rv['ops']))
                so = ops.get('size')
                # size operand: every origin is the success payload of the allocate call of this body -- `(allocate(..)?)`, i.e.
                # the Continue payload of Try::branch(allocate(..)), or the Ok payload of the call result matched explicitly
                from .lib.facts import callee_name as _cn
                pl_so = op_place(so) if so else None
                origins = mirq.move_origins(b, pl_so['l'])[1] if pl_so is not None and not pl_so['p'] else []
                good = 0
                for obb, oidx, okind, payload in origins:
                    if okind != 'proj':
                        good = -99
                        continue
                    names = [e.get('dc') for e in payload['p'] if isinstance(e, dict) and 'dc' in e]
                    k2, v2 = mirq.chase(b, payload['l'])
                    src_call = v2[1] if k2 == 'call' else None
                    if src_call is not None and names[:1] == ['Continue'] and strip_generics(_cn(src_call) or '').endswith('::branch'):
                        k3, v3 = mirq.chase_op(b, src_call['args'][0])
                        src_call = v3[1] if k3 == 'call' else None
                        names = ['Ok']
                    if src_call is not None and names[:1] == ['Ok'] and strip_generics(_cn(src_call) or '') == ALLOC:
                        good += 1
                    else:
                        good = -99
                size_ok = good >= 1
            r3.inst({'body': b.id, 'site': mirq.site(b, bb, j), 'size_from_allocate': size_ok}, ok=ok and size_ok)
            if not ok:
                r3.fail('%s/literal/%s' % (b.nid, adt), mirq.site(b, bb, j), '%s constructed outside its `new` (bypasses allocate)' % adt)
            elif not size_ok:
                r3.fail('%s/literal-size' % b.nid, mirq.site(b, bb, j), 'the size field is not the value returned by allocate(..)?')
        if n == 0:
            r3.fail('%s/anchor' % adt, '-', 'no construction site of %s found' % adt)
        for fld in ('size', 'runtime'):
            for b, bb, j, mode, p in mirq.field_accesses(mir, adt, fld):
                if mode in ('w', 'm'):
                    r3.inst({'body': b.id, 'field': fld}, ok=False)
                    r3.fail('%s/%s-write' % (b.nid, fld), mirq.site(b, bb), '%s.%s is written/mutably borrowed after construction' % (adt, fld))
                else:
                    r3.inst({'body': b.id, 'field': fld, 'mode': 'read'}, kind=(b.id, fld))

    # ---------------- R09.4 per-path balance of allocate
    r4 = ctx.rule('R09.4', 'allocate: every path is balanced (Ok: +size once, returns that size; Err: net zero)')
    al = mir.find(ALLOC)
    if len(al) != 1:
        r4.fail('anchor/allocate', '-', 'Runtime::allocate not found')
    else:
        b = al[0]
        ADD = '<units::AllocatedMemory as std::ops::AddAssign>::add_assign'
        SUB = '<units::AllocatedMemory as std::ops::SubAssign>::sub_assign'

        def events(bb):
            ev = []
            for j, s2 in enumerate(b.blocks[bb]['stmts']):
                if s2['k'] == 'assign' and s2['place']['l'] == 0 and not s2['place']['p'] and s2['rv']['k'] == 'agg' and s2['rv'].get('adt') == 'std::result::Result':
                    ev.append(('ret', s2['rv']['v'], mirq.chase_op(b, s2['rv']['ops'][0])))
            t = b.term(bb)
            if t['k'] == 'call':
                nm = strip_generics(t.get('callee') or t.get('decl') or '')
                if nm == ADD:
                    ev.append(('add', mirq.chase_op(b, t['args'][1])))
                elif nm == SUB:
                    ev.append(('sub', mirq.chase_op(b, t['args'][1])))
                elif nm.endswith('FromResidual>::from_residual') and t['dest']['l'] == 0:
                    ev.append(('ret', 'Err', None))
            return ev
        paths = []

        def dfs(bb, seen, evs):
            if len(paths) > 5000:
                return
            evs = evs + events(bb)
            t = b.term(bb)
            if t['k'] == 'return':
                paths.append(evs)
                return
            for nb in b.succs()[bb]:
                if nb in seen:
                    evs2 = evs + [('loop',)]
                    paths.append(evs2)
                    continue
                dfs(nb, seen | {nb}, evs)
        dfs(0, {0}, [])
        if not paths or len(paths) > 5000:
            r4.fail('allocate/paths', mirq.site(b, 0), 'could not enumerate the paths of allocate (%d)' % len(paths))
        saw_add = False
        for evs in paths:
            adds = [e[1] for e in evs if e[0] == 'add']
            subs = [e[1] for e in evs if e[0] == 'sub']
            rets = [e for e in evs if e[0] == 'ret']
            loop = any(e[0] == 'loop' for e in evs)
            ok = True
            why = ''
            if loop or len(rets) != 1:
                ok, why = False, 'unrecognised path shape (loop or no unique return value)'
            elif rets[0][1] == 'Err':
                if sorted(map(str, adds)) != sorted(map(str, subs)):
                    ok, why = False, 'a failed allocation leaves its bytes in RuntimeStats.size (added %d time(s), subtracted %d): the value is never built, so no Drop returns them' % (len(adds), len(subs))
            else:
                if subs:
                    ok, why = False, 'a successful allocation subtracts from the counter'
                elif len(adds) > 1:
                    ok, why = False, 'a successful allocation adds more than once'
                elif len(adds) == 1:
                    saw_add = True
                    if str(adds[0]) != str(rets[0][2]):
                        ok, why = False, 'the size returned to the caller (later given back by Drop) is not the amount that was added'
                else:
                    # no accounting on this path: must be the no-limit branch returning zero
                    k = rets[0][2]
                    if not (k and k[0] == 'call' and 'Into' in (k[1][1].get('decl') or '') and k[1][1]['args'][0].get('const', {}).get('int') == '0'):
                        ok, why = False, 'a path returns Ok(size) without adding, and the size is not the constant 0'
            r4.inst({'events': [e[0] if e[0] != 'ret' else 'ret ' + e[1] for e in evs]}, ok=ok, kind=str(evs))
            if not ok:
                r4.fail('allocate/unbalanced-path', mirq.site(b, 0), why, {'events': [str(e) for e in evs]})
        if not saw_add:
            r4.fail('allocate/no-add', mirq.site(b, 0), 'no path of allocate adds to the counter')
        r4.need(3)

    # ---------------- R09.5 leak primitives
    r5 = ctx.rule('R09.5', 'no leak / raw-duplication primitive outside util::{trysort,try_heap}')
    n_ok = 0
    for b in mir.bodies:
        for bb, t in b.calls():
            nm = strip_generics(t.get('callee') or t.get('decl') or '')
            if not LEAK_RX.match(nm):
                continue
            if t.get('exp') and 'fmt' in nm:
                continue
            allowed = b.nid.startswith(LEAK_OK_PREFIX)
            r5.inst({'body': b.id, 'prim': nm, 'site': mirq.site(b, bb)}, ok=allowed, kind=(b.id, nm))
            if not allowed:
                r5.fail('%s/%s' % (b.nid, nm), mirq.site(b, bb), 'leak / raw duplication primitive %s used on a path that can hold managed values' % nm)
    r5.need(3)   # positive control: the trysort/try_heap uses must keep matching

    # ---------------- R09.7 size model coverage
    r7 = ctx.rule('R09.7', 'size model reads every runtime-sized payload field')
    impls = [im for im in mir.impls if im.get('trait') == 'native_types::XNativeValue']
    if len(impls) < 9:
        r7.fail('anchor/impls', '-', 'fewer XNativeValue implementors than the 9 confirmed by hand')
    targets = []
    for im in impls:
        adt = strip_generics(im['self'])
        ds = [x for x in im['items'] if x.endswith('::dyn_size')]
        targets.append((adt, ds[0] if ds else None))
    targets.append(('xvalue::XValue', 'xvalue::XValue::<W, R, T>::size'))
    for adt, fn in targets:
        a = mir.adts.get(adt)
        body = mir.by_id.get(fn) if fn else None
        if a is None or body is None:
            r7.fail('anchor/%s' % adt, '-', 'ADT or its size function not found')
            continue
        read = fields_read(body)
        # the per-variant part may live in a private helper the size function calls on the same value (methods of the same type)
        own = strip_generics(body.nid).rsplit('::', 1)[0]
        for cbb, ct in body.calls():
            cn = strip_generics(ct.get('callee') or '')
            if cn.rsplit('::', 1)[0] == own and cn != body.nid:
                for h in mir.find(cn):
                    read |= fields_read(h)
        is_enum = a['kind'] == 'Enum'
        for v in a['variants']:
            for f in v['fields']:
                if not COLLECTION_RX.search(f['ty']):
                    continue
                vn = v['name'] if is_enum else '-'
                key = (adt, vn, f['name'])
                if key in SIZE_MODEL_EXEMPT:
                    r7.exempted('%s::%s.%s' % key, SIZE_MODEL_EXEMPT[key])
                    continue
                ok = any(r[0] == adt and r[2] == f['name'] and (not is_enum or r[1] == v['name']) for r in read)
                r7.inst({'adt': adt, 'variant': vn, 'field': f['name'], 'ty': f['ty'][:80], 'read_in_size_fn': ok}, ok=ok, kind=key)
                if not ok:
                    r7.fail('%s/%s.%s' % (adt, vn, f['name']), body.span.rsplit(':', 3)[0] if False else mirq.site(body, 0),
                            'payload field %s of %s%s (type %s) is not read by the size model: values of this shape are accounted 0 dynamic bytes' % (f['name'], adt, '::' + vn if is_enum else '', f['ty'][:60]))
    r7.need(8)

    # ---------------- R09.8 enforcement
    r8 = ctx.rule('R09.8', 'allocate enforces total > limit => AllocationLimitReached; limit read only in allocate / pre-flight')
    if len(al) == 1:
        b = al[0]
        cmp_ok = False
        for i, j, s in b.stmts():
            if s['k'] == 'assign' and s['rv']['k'] == 'bin' and s['rv']['op'] in ('Gt', 'Ge', 'Lt', 'Le'):
                # operands: usize::from(stats.size) and the limit payload
                ka = mirq.chase_op(b, s['rv']['a'])
                kb = mirq.chase_op(b, s['rv']['b'])
                def is_total(k):
                    return k[0] == 'call' and 'From' in (k[1][1].get('decl') or '') and 'AllocatedMemory' in ' '.join(k[1][1].get('substs') or [])
                def is_limit(k):
                    if k[0] == 'rv':
                        rv = k[1][2]['rv']
                        p = op_place(rv['op']) if rv['k'] == 'use' else None
                        return bool(p) and any(isinstance(e, dict) and e.get('n') == 'size_limit' for e in p['p'])
                    return False
                op = s['rv']['op']
                MIRROR = {'Ge': 'Le', 'Gt': 'Lt', 'Le': 'Ge', 'Lt': 'Gt'}
                NEG = {'Ge': 'Lt', 'Gt': 'Le', 'Le': 'Gt', 'Lt': 'Ge'}
                if is_total(ka) and is_limit(kb):
                    op_tl = op
                elif is_limit(ka) and is_total(kb):
                    op_tl = MIRROR[op]
                else:
                    continue
                # which edge of the test leads to the violation?  follow plain moves / Not to the switch on the result
                viol_bbs = [bb2 for bb2, j2, x in b.stmts() if x['k'] == 'assign' and x['rv']['k'] == 'agg' and x['rv'].get('adt') == 'runtime_violation::RuntimeViolation' and x['rv']['v'] == 'AllocationLimitReached']
                cur = s['place']['l']
                negs = 0
                for _ in range(6):
                    sws = [i2 for i2 in range(len(b.blocks)) if b.term(i2)['k'] == 'switch' and op_local(b.term(i2)['discr']) == cur]
                    if sws:
                        t2 = b.term(sws[0])
                        false_t = [x for v, x in t2['targets'] if v == '0']
                        true_t = t2['otherwise']
                        on_true = any(mirq.dominates(b, true_t, vb) for vb in viol_bbs) and true_t not in false_t
                        on_false = bool(false_t) and any(mirq.dominates(b, false_t[0], vb) for vb in viol_bbs) and false_t[0] != true_t
                        if on_true != on_false:
                            pol = on_true if negs % 2 == 0 else not on_true
                            eff = op_tl if pol else NEG[op_tl]
                            cmp_ok = eff in ('Gt', 'Ge')
                        break
                    nxt = None
                    for i2, j2, s2 in b.stmts():
                        if s2['k'] == 'assign' and not s2['place']['p']:
                            if s2['rv']['k'] == 'un' and s2['rv']['op'] == 'Not' and op_local(s2['rv']['a']) == cur:
                                nxt = s2['place']['l']
                                negs += 1
                            elif s2['rv']['k'] == 'use' and op_local(s2['rv']['op']) == cur:
                                nxt = s2['place']['l']
                    if nxt is None:
                        break
                    cur = nxt
        # the total that is compared must already contain the new bytes: the comparison is dominated by the `size +=` of this call
        adds = [i2 for i2, j2, s2 in b.stmts() if s2['k'] == 'assign' and any(isinstance(e, dict) and e.get('n') == 'size' for e in s2['place']['p'])] + \
               [bb2 for bb2, t2 in b.calls() if strip_generics(t2.get('callee') or t2.get('decl') or '').endswith('AddAssign>::add_assign')]
        cmps_ = [i2 for i2, j2, s2 in b.stmts() if s2['k'] == 'assign' and s2['rv']['k'] == 'bin' and s2['rv']['op'] in ('Gt', 'Ge', 'Lt', 'Le')
                 and any(mirq.chase_op(b, o)[0] == 'call' and 'AllocatedMemory' in ' '.join(mirq.chase_op(b, o)[1][1].get('substs') or []) for o in (s2['rv']['a'], s2['rv']['b']))]
        after_add = bool(cmps_) and all(any(mirq.dominates(b, a_, c_) for a_ in adds) for c_ in cmps_)
        r8.inst({'fn': b.id, 'limit_test_sees_the_total_after_adding': after_add}, ok=after_add, kind='after-add')
        if not after_add:
            r8.fail('allocate/compare-before-add', mirq.site(b, cmps_[0] if cmps_ else 0), 'allocate compares the total from before the new bytes are added: an allocation that crosses the limit is granted, so more than L bytes can be accounted for live values without a violation')
        r8.inst({'fn': b.id, 'shape': 'usize::from(stats.size) > size_limit => Err(AllocationLimitReached)'}, ok=cmp_ok)
        if not cmp_ok:
            r8.fail('allocate/compare', mirq.site(b, 0), 'allocate no longer compares the accounted total (after adding) against size_limit with the violation on the exceeding side')
    for b, bb, j, mode, p in mirq.field_accesses(mir, 'runtime::RuntimeLimits', 'size_limit'):
        ok = b.nid in (ALLOC, 'runtime::Runtime::can_allocate_by') or b.get('impl_trait') in ('std::fmt::Debug', 'std::default::Default')
        r8.inst({'body': b.id, 'site': mirq.site(b, bb)}, ok=ok, kind=(b.id, 'size_limit'))
        if not ok:
            r8.fail('%s/size_limit-read' % b.nid, mirq.site(b, bb), 'size_limit is consulted outside allocate / can_allocate_by: results may depend on L')
    r8.need(3)

    # ---------------- R09.6 no reference cycles (values immutable after construction)
    from .lib import immut
    r6 = ctx.rule('R09.6', 'values are immutable after construction (no Rc cycles can be formed) — shared audit R15.1')
    immut.audit(ctx, r6)

    # ---------------- R09.9 the size of a big integer is counted in bytes
    big_integer_units(ctx)


def big_integer_units(ctx):
    """R09.9: unit analysis of the byte counts derived from a big integer's magnitude (LazyBigint::additional_size, the size
    model of Int values, and ProspectiveSize for LazyBigint, the pre-flight estimate).  The sources have units -- bits(),
    64-bit digits (iter_u64_digits().count()), 32-bit digits, bytes (size_of, to_bytes_*().len()) -- and the conversions are
    x8 / x4 (digits -> bytes), /8 (bits -> bytes), /64 and /32 (bits -> digits).  What the function returns must be bytes."""
    mir = ctx.mir
    r9 = ctx.rule('R09.9', 'byte counts derived from a big integer are in bytes (unit analysis: bits, 64-bit digits, bytes)')
    targets = [b for b in mir.bodies if b.nid == 'util::lazy_bigint::LazyBigint::additional_size'
               or (b.nid.endswith('::prospective_size') and 'LazyBigint' in (b.get('impl_self') or b.id))]
    if not any(b.nid.endswith('additional_size') for b in targets):
        r9.fail('anchor/additional_size', 'src/util/lazy_bigint.rs', 'LazyBigint::additional_size not found')

    def const_int(op):
        c = op.get('const') if isinstance(op, dict) else None
        if c and 'int' in c and c['int'].lstrip('-').isdigit():
            return int(c['int'])
        if c and 'uneval' in c and 'promoted' not in c:
            # a named constant item: the value its initialiser assigns
            cb = mir.by_id.get(c['uneval']) or next(iter(mir.find(strip_generics(c['uneval']))), None)
            if cb is not None:
                for i, j, s in cb.stmts():
                    if s['k'] == 'assign' and s['place']['l'] == 0 and s['rv']['k'] == 'use' and 'const' in s['rv']['op']:
                        return const_int(s['rv']['op'])
        return None

    def evaluate(b, param_units, depth=2):
        memo = {}
        for k_, u_ in param_units.items():
            memo[k_] = u_

        def unit_op(op):
            if 'const' in op:
                return 'const'
            p = op_place(op)
            return unit(p['l']) if p is not None else 'unknown'

        def unit(l, depth_=0):
            if l in memo:
                return memo[l]
            memo[l] = 'unknown'
            us = set()
            for kind, dbb, idx, d in b.defs().get(l, []):
                if kind == 'call':
                    nm = strip_generics(d.get('callee') or d.get('decl') or '')
                    last = nm.split('::')[-1]
                    if last == 'count':
                        src_calls = set()
                        rl = op_local(d['args'][0]) if d['args'] else None
                        for x in (mirq.backslice(b, [rl]) if rl is not None else ()):
                            for k2, b2, i2, d2 in b.defs().get(x, []):
                                if k2 == 'call':
                                    src_calls.add(strip_generics(d2.get('callee') or '').split('::')[-1])
                        us.add('digits64' if 'iter_u64_digits' in src_calls else 'digits32' if 'iter_u32_digits' in src_calls else 'unknown')
                    elif last == 'bits':
                        us.add('bits')
                    elif last in ('size_of', 'size_of_val'):
                        us.add('bytes')
                    elif last == 'len' and any('to_bytes' in strip_generics(d2.get('callee') or '') for x in mirq.backslice(b, [op_local(d['args'][0])] if d['args'] and op_local(d['args'][0]) is not None else []) for k2, b2, i2, d2 in b.defs().get(x, []) if k2 == 'call'):
                        us.add('bytes')
                    elif last in ('div_ceil', 'div_floor', 'div', 'checked_div', 'div_euclid') and len(d['args']) == 2:
                        us.add(divide(unit_op(d['args'][0]), const_int(d['args'][1])))
                    elif last in ('to_usize', 'unwrap', 'unwrap_or', 'unwrap_or_default', 'try_into', 'try_from', 'from', 'into', 'expect', 'clone', 'saturating_add', 'max', 'min') and d['args']:
                        us.add(unit_op(d['args'][0]))
                    else:
                        # a small function of the crate: its result unit for these argument units
                        hs = mir.find(nm)
                        if len(hs) == 1 and hs[0].kind == 'fn' and depth > 0 and len(hs[0].blocks) <= 30:
                            pu = {}
                            for ai, a_ in enumerate(d['args']):
                                pu[ai + 1] = unit_op(a_)
                            hr = evaluate(hs[0], pu, depth - 1)
                            us.add(next(iter(hr)) if len(hr) == 1 else 'mixed(%s)' % ', '.join(sorted(hr)) if hr else 'unknown')
                        else:
                            us.add('unknown')
                    continue
                rv = d['rv']
                if rv['k'] in ('use', 'cast'):
                    us.add(unit_op(rv['op']))
                elif rv['k'] in ('bin', 'checkedbin'):
                    ua, ub = unit_op(rv['a']), unit_op(rv['b'])
                    op = rv['op'].replace('WithOverflow', '').replace('Unchecked', '')
                    if op == 'Mul':
                        c = const_int(rv['b']) if ub == 'const' else const_int(rv['a']) if ua == 'const' else None
                        x = ua if ub == 'const' else ub
                        us.add({('digits64', 8): 'bytes', ('digits32', 4): 'bytes'}.get((x, c), x if x in ('bytes', 'bits') else 'unknown' if c is None else '%s x %d' % (x, c)))
                    elif op in ('Div', 'Shr'):
                        c = const_int(rv['b'])
                        if op == 'Shr' and c is not None:
                            c = 1 << c
                        us.add(divide(ua, c))
                    elif op in ('Add', 'Sub'):
                        if ua == 'const':
                            us.add(ub)
                        elif ub == 'const':
                            us.add(ua)
                        else:
                            us.add(ua if ua == ub else 'mixed(%s, %s)' % (ua, ub))
                    else:
                        us.add('unknown')
                elif rv['k'] == 'copyderef' or rv['k'] == 'ref':
                    us.add(unit(rv['place']['l']))
                else:
                    us.add('unknown')
            # a local written through a projection (checked-arithmetic tuples are read back as `.0`)
            if not us:
                us.add('unknown')
            memo[l] = next(iter(us)) if len(us) == 1 else 'mixed(%s)' % ', '.join(sorted(us))
            return memo[l]

        def divide(u, c):
            return {('bits', 8): 'bytes', ('bits', 64): 'digits64', ('bits', 32): 'digits32'}.get((u, c), '%s / %s' % (u, c))
        rets = set()
        for i, j, s in b.stmts():
            if s['k'] == 'assign' and s['place']['l'] == 0 and not s['place']['p']:
                rv = s['rv']
                if rv['k'] in ('use', 'cast'):
                    rets.add(unit_op(rv['op']))
                else:
                    memo.pop(0, None)
                    rets.add(unit(0))
        for kind, dbb, idx, d in b.defs().get(0, []):
            if kind == 'call':
                memo.pop(0, None)
                rets.add(unit(0))
        return rets
    for b in targets:
        rets = evaluate(b, {})
        ok = bool(rets) and rets <= {'bytes', 'const'}
        r9.inst({'fn': b.nid, 'returns': sorted(rets)}, ok=ok, kind=b.id)
        if not ok:
            r9.fail('%s/unit' % b.nid, mirq.site(b, 0), 'a byte count is computed in the wrong unit: the function returns %s where bytes are expected (64-bit digits need x8, bits need /8): big integers are accounted for a fraction of their payload, so the size limit is not enforced for them' % sorted(rets - {'bytes', 'const'}))
    r9.need(2)
