"""C09 — size limit enforced, memory accounting balances.

Conservation as a structural theorem; each rule is one line of the argument:
  R09.1  RuntimeStats.size is mutated only in Runtime::allocate (+=) and Runtime::deallocate (-=)
  R09.2  allocate is called only from Managed{XValue,XError}::new; deallocate only from their Drop impls with self.size
  R09.3  Managed* struct literals occur only in `new`, with size = the value allocate returned; size/runtime never reassigned
  R09.4  failure balance: on every path of allocate that returns Err the net change of stats.size is zero
  R09.5  no leak primitive (mem::forget, ManuallyDrop, Box::leak, Rc::into_raw, ptr::read/write ..) outside util::{trysort,try_heap}
  R09.7  the size model reads every collection-typed payload field (no variant falls into `_ => 0` with a runtime-sized payload)
  R09.8  enforcement: allocate compares the post-add total with size_limit using `>` and returns AllocationLimitReached;
         size_limit is read only in allocate and the pre-flight can_allocate_by (monotonicity in L)
"""
import re
from .lib import mirq
from .lib.facts import strip_generics, op_local, op_place

ALLOC = 'runtime::Runtime::allocate'
DEALLOC = 'runtime::Runtime::deallocate'
MANAGED = ('xvalue::ManagedXValue', 'xvalue::ManagedXError')

COLLECTION_RX = re.compile(r'\b(std::vec::Vec|std::collections::VecDeque|std::collections::HashMap|std::collections::HashSet|std::collections::BTreeMap|std::string::String|util::fenced_string::FencedString|util::lazy_bigint::LazyBigint|num_bigint::BigInt)\b|Box<\[')

LEAK_RX = re.compile(r'^(std|core|alloc)::(mem::forget|mem::ManuallyDrop::new|mem::MaybeUninit|boxed::Box::leak|boxed::Box::into_raw|rc::Rc::into_raw|rc::Rc::from_raw|rc::Rc::increment_strong_count|rc::Rc::decrement_strong_count|ptr::read|ptr::write|ptr::copy|ptr::copy_nonoverlapping|ptr::drop_in_place|mem::transmute|mem::zeroed|mem::uninitialized|intrinsics::)')
LEAK_OK_PREFIX = ('util::trysort::', 'util::try_heap::', '<util::try_heap::', '<util::trysort::')

# payload fields that are accounted by other means (one line of reason each)
SIZE_MODEL_EXEMPT = {
    ('builtin::sequence::XSequence', 'Chain', 'midpoint_lengths'): 'accounted through parts: dyn_size adds (parts.len()-1)*size_of::<usize>() and XSequence::chain builds exactly parts.len()-1 midpoints',
    ('builtin::stack::XStack', '-', 'head'): 'linked nodes are counted by the strong-count walk in dyn_size',
}


def fields_read(body):
    out = set()
    for _, _, s in body.stmts():
        for mode, p in mirq.places_in_stmt(s):
            cur_v = None
            for e in p['p']:
                if isinstance(e, dict) and 'dc' in e:
                    cur_v = e['dc']
                if isinstance(e, dict) and 'n' in e:
                    out.add((e.get('adt'), e.get('v') or cur_v or '-', e['n']))
    for i, bl in enumerate(body.blocks):
        for mode, p in mirq.places_in_term(bl['term']):
            for e in p['p']:
                if isinstance(e, dict) and 'n' in e:
                    out.add((e.get('adt'), e.get('v') or '-', e['n']))
    return out


def run(ctx):
    mir = ctx.mir
    ctx.explanation = ('Conservation of the accounted byte total proved as a structural theorem over all MIR bodies (who-writes the counter, '
                       'who-calls allocate/deallocate, where Managed* values are built, failure balance, no leak primitives), plus the size-model '
                       'coverage and limit-enforcement clauses.')
    ctx.trusted = ['rustc MIR and drop elaboration (every Managed* value is dropped exactly once unless leaked through a listed primitive)',
                   'Rc reference cycles through managed values are impossible because values are immutable after construction (R15.1)']
    # ---------------- R09.1
    r1 = ctx.rule('R09.1', 'RuntimeStats.size mutated only in allocate (+=) and deallocate (-=)')
    for b, bb, j, mode, p in mirq.field_accesses(mir, 'runtime::RuntimeStats', 'size'):
        if mode == 'r':
            r1.inst({'body': b.id, 'mode': 'read', 'site': mirq.site(b, bb, j) if j is not None else mirq.site(b, bb)}, kind=(b.id, 'r'))
            continue
        ok = b.nid in (ALLOC, DEALLOC)
        how = None
        if ok and j is not None:
            # the &mut must be consumed by AddAssign (allocate) / SubAssign (deallocate) only
            s = b.blocks[bb]['stmts'][j]
            tgt = s['place']['l'] if s['k'] == 'assign' else None
            t = b.term(bb)
            if t['k'] == 'call' and op_local(t['args'][0]) == tgt:
                how = strip_generics(t.get('callee') or '')
            ADD = '<units::AllocatedMemory as std::ops::AddAssign>::add_assign'
            SUB = '<units::AllocatedMemory as std::ops::SubAssign>::sub_assign'
            # (a roll-back subtraction inside allocate is allowed; R09.4 decides the per-path balance)
            ok = how in ((ADD, SUB) if b.nid == ALLOC else (SUB,))
            # a plain store `stats.size = total` inside allocate: what it stores is decided by the outcome table of R09.4
            if not ok and b.nid == ALLOC and how is None and s['k'] == 'assign' and any(isinstance(e, dict) and e.get('n') == 'size' for e in s['place']['p']):
                ok, how = True, 'plain store (value decided by R09.4)'
        r1.inst({'body': b.id, 'mode': 'write', 'via': how, 'site': mirq.site(b, bb, j) if j is not None else mirq.site(b, bb)}, ok=ok, kind=(b.id, 'w'))
        if not ok:
            r1.fail('%s/size-write' % b.nid, mirq.site(b, bb), 'RuntimeStats.size is mutated here (%s); only allocate may add and deallocate may subtract' % (how or mode))
    r1.need(5)
    # AllocatedMemory add/sub must be the derived plain usize +/- (derive_more): its body contains exactly one Add/Sub binop on usize
    for tr, opn in (('AddAssign', ('Add', 'AddWithOverflow')), ('SubAssign', ('Sub', 'SubWithOverflow'))):
        bs = mir.find('<units::AllocatedMemory as std::ops::%s>::%s' % (tr, {'AddAssign': 'add_assign', 'SubAssign': 'sub_assign'}[tr]))
        ok = False
        if len(bs) == 1:
            ops = [s['rv']['op'] for _, _, s in bs[0].stmts() if s['k'] == 'assign' and s['rv']['k'] == 'bin']
            calls = [strip_generics(t.get('callee') or '') for _, t in bs[0].calls()]
            ok = (len(ops) == 1 and ops[0] in opn) or any(c in ('<usize as std::ops::%s>::%s' % (tr, 'add_assign' if tr == 'AddAssign' else 'sub_assign'), 'std::ops::arith::<impl std::ops::%s for usize>::%s' % (tr, 'add_assign' if tr == 'AddAssign' else 'sub_assign')) for c in calls)
            r1.inst({'impl': bs[0].id, 'binops': ops, 'calls': calls}, ok=ok)
        if not ok:
            r1.fail('units::AllocatedMemory/%s' % tr, 'src/units.rs', 'AllocatedMemory %s is not the plain usize operation' % tr)

    # ---------------- R09.2
    r2 = ctx.rule('R09.2', 'allocate called only by Managed*::new; deallocate only by their Drop impls with self.size')
    for b, bb, t in mir.call_sites(lambda n: n == ALLOC):
        ok = b.nid in ('xvalue::ManagedXValue::new', 'xvalue::ManagedXError::new')
        r2.inst({'caller': b.id, 'site': mirq.site(b, bb)}, ok=ok)
        if not ok:
            r2.fail('%s/allocate' % b.nid, mirq.site(b, bb), 'Runtime::allocate called outside Managed*::new: bytes are added that no Drop will return')
    for b, bb, t in mir.call_sites(lambda n: n == DEALLOC):
        ok = b.nid in ('<xvalue::ManagedXValue as std::ops::Drop>::drop', '<xvalue::ManagedXError as std::ops::Drop>::drop')
        arg_ok = False
        if ok:
            k, v = mirq.chase_op(b, t['args'][1])
            # the operand must be a copy of (*self).size
            src = None
            if k == 'rv':
                rv = v[2]['rv']
                if rv['k'] == 'use':
                    src = op_place(rv['op'])
            elif k == 'place':
                src = v
            if src and src['l'] == 1 and [e.get('n') for e in src['p'] if isinstance(e, dict) and 'n' in e] == ['size']:
                arg_ok = True
        r2.inst({'caller': b.id, 'site': mirq.site(b, bb), 'arg_is_self_size': arg_ok}, ok=ok and arg_ok)
        if not ok:
            r2.fail('%s/deallocate' % b.nid, mirq.site(b, bb), 'Runtime::deallocate called outside the Managed* Drop impls')
        elif not arg_ok:
            r2.fail('%s/deallocate-arg' % b.nid, mirq.site(b, bb), 'deallocate is not passed self.size (the amount recorded at construction)')
    r2.need(4)
    # both Managed types implement Drop
    for adt in MANAGED:
        if not mir.find('<%s as std::ops::Drop>::drop' % adt):
            r2.fail('%s/no-drop' % adt, 'src/xvalue.rs', '%s has no Drop impl returning its bytes' % adt)

    # ---------------- R09.3
    r3 = ctx.rule('R09.3', 'Managed* literals only in new, size = allocate result; size/runtime never reassigned')
    for adt in MANAGED:
        n = 0
        for b, bb, j, s in mirq.aggregates(mir, adt):
            n += 1
            ok = b.nid == adt + '::new'
            size_ok = False
            if ok:
                rv = s['rv']
                ops = dict(zip(rv['fields'], rv['ops']))
                so = ops.get('size')
                # size operand: every origin is the success payload of the allocate call of this body -- `(allocate(..)?)`, i.e.
                # the Continue payload of Try::branch(allocate(..)), or the Ok payload of the call result matched explicitly
                from .lib.facts import callee_name as _cn
                pl_so = op_place(so) if so else None
                origins = mirq.move_origins(b, pl_so['l'])[1] if pl_so is not None and not pl_so['p'] else []
                good = 0
                for obb, oidx, okind, payload in origins:
                    if okind != 'proj':
                        good = -99
                        continue
                    names = [e.get('dc') for e in payload['p'] if isinstance(e, dict) and 'dc' in e]
                    k2, v2 = mirq.chase(b, payload['l'])
                    src_call = v2[1] if k2 == 'call' else None
                    if src_call is not None and names[:1] == ['Continue'] and strip_generics(_cn(src_call) or '').endswith('::branch'):
                        k3, v3 = mirq.chase_op(b, src_call['args'][0])
                        src_call = v3[1] if k3 == 'call' else None
                        names = ['Ok']
                    if src_call is not None and names[:1] == ['Ok'] and strip_generics(_cn(src_call) or '') == ALLOC:
                        good += 1
                    else:
                        good = -99
                size_ok = good >= 1
            r3.inst({'body': b.id, 'site': mirq.site(b, bb, j), 'size_from_allocate': size_ok}, ok=ok and size_ok)
            if not ok:
                r3.fail('%s/literal/%s' % (b.nid, adt), mirq.site(b, bb, j), '%s constructed outside its `new` (bypasses allocate)' % adt)
            elif not size_ok:
                r3.fail('%s/literal-size' % b.nid, mirq.site(b, bb, j), 'the size field is not the value returned by allocate(..)?')
        if n == 0:
            r3.fail('%s/anchor' % adt, '-', 'no construction site of %s found' % adt)
        for fld in ('size', 'runtime'):
            for b, bb, j, mode, p in mirq.field_accesses(mir, adt, fld):
                if mode in ('w', 'm'):
                    r3.inst({'body': b.id, 'field': fld}, ok=False)
                    r3.fail('%s/%s-write' % (b.nid, fld), mirq.site(b, bb), '%s.%s is written/mutably borrowed after construction' % (adt, fld))
                else:
                    r3.inst({'body': b.id, 'field': fld, 'mode': 'read'}, kind=(b.id, fld))

    # ---------------- R09.4 per-path balance of allocate
    r4 = ctx.rule('R09.4', 'allocate: every outcome is balanced (Ok: the counter grows by exactly the size that is returned; Err: net zero)')
    al = mir.find(ALLOC)
    if len(al) != 1:
        r4.fail('anchor/allocate', '-', 'Runtime::allocate not found')
    else:
        table = allocate_table(ctx, al[0])
        for scen, want, got in table:
            ok = got == {want}
            r4.inst({'scenario': scen, 'expected (result, counter)': str(want), 'outcomes': sorted(map(str, got))}, ok=ok, kind=scen)
            if not ok and not (want[0] == 'err' and {g[0] for g in got} == {'ok'}) and not (want[0] != 'err' and {g[0] for g in got} == {'err'}):
                # (a wrong decision -- Ok where Err is due or the reverse -- is R09.8's finding; this one is about the bytes)
                if want[0] == 'err':
                    why = 'a failed allocation leaves its bytes in RuntimeStats.size: the value is never built, so no Drop returns them'
                elif any(g[0] != want[0] for g in got):
                    why = 'the size returned to the caller (later given back by Drop) is not the amount that was added'
                else:
                    why = 'a successful allocation does not add exactly its size to the counter'
                r4.fail('allocate/unbalanced-path', mirq.site(al[0], 0), '%s (%s: expected %s, found %s)' % (why, scen, want, sorted(map(str, got))))
        r4.need(4)

    # ---------------- R09.5 leak primitives
    r5 = ctx.rule('R09.5', 'no leak / raw-duplication primitive outside util::{trysort,try_heap}')
    n_ok = 0
    for b in mir.bodies:
        for bb, t in b.calls():
            nm = strip_generics(t.get('callee') or t.get('decl') or '')
            if not LEAK_RX.match(nm):
                continue
            if t.get('exp') and 'fmt' in nm:
                continue
            allowed = b.nid.startswith(LEAK_OK_PREFIX)
            r5.inst({'body': b.id, 'prim': nm, 'site': mirq.site(b, bb)}, ok=allowed, kind=(b.id, nm))
            if not allowed:
                r5.fail('%s/%s' % (b.nid, nm), mirq.site(b, bb), 'leak / raw duplication primitive %s used on a path that can hold managed values' % nm)
    r5.need(3)   # positive control: the trysort/try_heap uses must keep matching

    # ---------------- R09.7 size model coverage
    r7 = ctx.rule('R09.7', 'size model reads every runtime-sized payload field')
    impls = [im for im in mir.impls if im.get('trait') == 'native_types::XNativeValue']
    if len(impls) < 9:
        r7.fail('anchor/impls', '-', 'fewer XNativeValue implementors than the 9 confirmed by hand')
    targets = []
    for im in impls:
        adt = strip_generics(im['self'])
        ds = [x for x in im['items'] if x.endswith('::dyn_size')]
        targets.append((adt, ds[0] if ds else None))
    targets.append(('xvalue::XValue', 'xvalue::XValue::<W, R, T>::size'))
    for adt, fn in targets:
        a = mir.adts.get(adt)
        body = mir.by_id.get(fn) if fn else None
        if a is None or body is None:
            r7.fail('anchor/%s' % adt, '-', 'ADT or its size function not found')
            continue
        read = fields_read(body)
        # the per-variant part may live in a private helper the size function calls on the same value (methods of the same type)
        own = strip_generics(body.nid).rsplit('::', 1)[0]
        for cbb, ct in body.calls():
            cn = strip_generics(ct.get('callee') or '')
            if cn.rsplit('::', 1)[0] == own and cn != body.nid:
                for h in mir.find(cn):
                    read |= fields_read(h)
        is_enum = a['kind'] == 'Enum'
        for v in a['variants']:
            for f in v['fields']:
                if not COLLECTION_RX.search(f['ty']):
                    continue
                vn = v['name'] if is_enum else '-'
                key = (adt, vn, f['name'])
                if key in SIZE_MODEL_EXEMPT:
                    r7.exempted('%s::%s.%s' % key, SIZE_MODEL_EXEMPT[key])
                    continue
                ok = any(r[0] == adt and r[2] == f['name'] and (not is_enum or r[1] == v['name']) for r in read)
                r7.inst({'adt': adt, 'variant': vn, 'field': f['name'], 'ty': f['ty'][:80], 'read_in_size_fn': ok}, ok=ok, kind=key)
                if not ok:
                    r7.fail('%s/%s.%s' % (adt, vn, f['name']), body.span.rsplit(':', 3)[0] if False else mirq.site(body, 0),
                            'payload field %s of %s%s (type %s) is not read by the size model: values of this shape are accounted 0 dynamic bytes' % (f['name'], adt, '::' + vn if is_enum else '', f['ty'][:60]))
    r7.need(8)

    # ---------------- R09.8 enforcement
    r8 = ctx.rule('R09.8', 'allocate enforces total > limit => AllocationLimitReached; limit read only in allocate / pre-flight')
    if len(al) == 1:
        b = al[0]
        table = allocate_table(ctx, b)
        for scen, want, got in table:
            decided = {g[0] if g[0] in ('ok', 'err') else 'unrecognised' for g in got}
            ok = decided == {want[0]}
            r8.inst({'fn': b.id, 'scenario': scen, 'expected': want[0], 'decisions': sorted(decided)}, ok=ok, kind=('decision', scen))
            if not ok:
                if scen == 'the new total exceeds the limit' and decided == {'ok'} and all(t[2] and {g[0] for g in t[2]} == {t[1][0]} for t in table if t[0] != scen):
                    r8.fail('allocate/compare-before-add', mirq.site(b, 0), 'allocate compares the total from before the new bytes are added: an allocation that crosses the limit is granted, so more than L bytes can be accounted for live values without a violation')
                else:
                    r8.fail('allocate/compare', mirq.site(b, 0), 'allocate no longer compares the accounted total (after adding) against size_limit with the violation on the exceeding side (%s: expected %s, found %s)' % (scen, want[0], sorted(decided)))
    for b, bb, j, mode, p in mirq.field_accesses(mir, 'runtime::RuntimeLimits', 'size_limit'):
        ok = b.nid in (ALLOC, 'runtime::Runtime::can_allocate_by') or b.get('impl_trait') in ('std::fmt::Debug', 'std::default::Default')
        r8.inst({'body': b.id, 'site': mirq.site(b, bb)}, ok=ok, kind=(b.id, 'size_limit'))
        if not ok:
            r8.fail('%s/size_limit-read' % b.nid, mirq.site(b, bb), 'size_limit is consulted outside allocate / can_allocate_by: results may depend on L')
    r8.need(3)

    # ---------------- R09.6 no reference cycles (values immutable after construction)
    from .lib import immut
    r6 = ctx.rule('R09.6', 'values are immutable after construction (no Rc cycles can be formed) — shared audit R15.1')
    immut.audit(ctx, r6)

    # ---------------- R09.9 the size of a big integer is counted in bytes
    big_integer_units(ctx)
    native_object_size(ctx)
    size_independent_of_sharing(ctx)


def big_integer_units(ctx):
    """R09.9: unit analysis of the byte counts derived from a big integer's magnitude (LazyBigint::additional_size, the size
    model of Int values, and ProspectiveSize for LazyBigint, the pre-flight estimate).  The sources have units -- bits(),
    64-bit digits (iter_u64_digits().count()), 32-bit digits, bytes (size_of, to_bytes_*().len()) -- and the conversions are
    x8 / x4 (digits -> bytes), /8 (bits -> bytes), /64 and /32 (bits -> digits).  What the function returns must be bytes."""
    mir = ctx.mir
    r9 = ctx.rule('R09.9', 'byte counts derived from a big integer are in bytes (unit analysis: bits, 64-bit digits, bytes)')
    targets = [b for b in mir.bodies if b.nid == 'util::lazy_bigint::LazyBigint::additional_size'
               or (b.nid.endswith('::prospective_size') and 'LazyBigint' in (b.get('impl_self') or b.id))]
    if not any(b.nid.endswith('additional_size') for b in targets):
        r9.fail('anchor/additional_size', 'src/util/lazy_bigint.rs', 'LazyBigint::additional_size not found')

    def const_int(op):
        c = op.get('const') if isinstance(op, dict) else None
        if c and 'int' in c and c['int'].lstrip('-').isdigit():
            return int(c['int'])
        if c and 'uneval' in c and 'promoted' not in c:
            # a named constant item: the value its initialiser assigns
            cb = mir.by_id.get(c['uneval']) or next(iter(mir.find(strip_generics(c['uneval']))), None)
            if cb is not None:
                for i, j, s in cb.stmts():
                    if s['k'] == 'assign' and s['place']['l'] == 0 and s['rv']['k'] == 'use' and 'const' in s['rv']['op']:
                        return const_int(s['rv']['op'])
        return None

    def evaluate(b, param_units, depth=2):
        memo = {}
        for k_, u_ in param_units.items():
            memo[k_] = u_

        def unit_op(op):
            if 'const' in op:
                return 'const'
            p = op_place(op)
            return unit(p['l']) if p is not None else 'unknown'

        def unit(l, depth_=0):
            if l in memo:
                return memo[l]
            memo[l] = 'unknown'
            us = set()
            for kind, dbb, idx, d in b.defs().get(l, []):
                if kind == 'call':
                    nm = strip_generics(d.get('callee') or d.get('decl') or '')
                    last = nm.split('::')[-1]
                    if last == 'count':
                        src_calls = set()
                        rl = op_local(d['args'][0]) if d['args'] else None
                        for x in (mirq.backslice(b, [rl]) if rl is not None else ()):
                            for k2, b2, i2, d2 in b.defs().get(x, []):
                                if k2 == 'call':
                                    src_calls.add(strip_generics(d2.get('callee') or '').split('::')[-1])
                        us.add('digits64' if 'iter_u64_digits' in src_calls else 'digits32' if 'iter_u32_digits' in src_calls else 'unknown')
                    elif last == 'bits':
                        us.add('bits')
                    elif last in ('size_of', 'size_of_val'):
                        us.add('bytes')
                    elif last == 'len' and any('to_bytes' in strip_generics(d2.get('callee') or '') for x in mirq.backslice(b, [op_local(d['args'][0])] if d['args'] and op_local(d['args'][0]) is not None else []) for k2, b2, i2, d2 in b.defs().get(x, []) if k2 == 'call'):
                        us.add('bytes')
                    elif last in ('div_ceil', 'div_floor', 'div', 'checked_div', 'div_euclid') and len(d['args']) == 2:
                        us.add(divide(unit_op(d['args'][0]), const_int(d['args'][1])))
                    elif last in ('to_usize', 'unwrap', 'unwrap_or', 'unwrap_or_default', 'try_into', 'try_from', 'from', 'into', 'expect', 'clone', 'saturating_add', 'max', 'min') and d['args']:
                        us.add(unit_op(d['args'][0]))
                    else:
                        # a small function of the crate: its result unit for these argument units
                        hs = mir.find(nm)
                        if len(hs) == 1 and hs[0].kind == 'fn' and depth > 0 and len(hs[0].blocks) <= 30:
                            pu = {}
                            for ai, a_ in enumerate(d['args']):
                                pu[ai + 1] = unit_op(a_)
                            hr = evaluate(hs[0], pu, depth - 1)
                            us.add(next(iter(hr)) if len(hr) == 1 else 'mixed(%s)' % ', '.join(sorted(hr)) if hr else 'unknown')
                        else:
                            us.add('unknown')
                    continue
                rv = d['rv']
                if rv['k'] in ('use', 'cast'):
                    us.add(unit_op(rv['op']))
                elif rv['k'] in ('bin', 'checkedbin'):
                    ua, ub = unit_op(rv['a']), unit_op(rv['b'])
                    op = rv['op'].replace('WithOverflow', '').replace('Unchecked', '')
                    if op == 'Mul':
                        c = const_int(rv['b']) if ub == 'const' else const_int(rv['a']) if ua == 'const' else None
                        x = ua if ub == 'const' else ub
                        us.add({('digits64', 8): 'bytes', ('digits32', 4): 'bytes'}.get((x, c), x if x in ('bytes', 'bits') else 'unknown' if c is None else '%s x %d' % (x, c)))
                    elif op in ('Div', 'Shr'):
                        c = const_int(rv['b'])
                        if op == 'Shr' and c is not None:
                            c = 1 << c
                        us.add(divide(ua, c))
                    elif op in ('Add', 'Sub'):
                        if ua == 'const':
                            us.add(ub)
                        elif ub == 'const':
                            us.add(ua)
                        else:
                            us.add(ua if ua == ub else 'mixed(%s, %s)' % (ua, ub))
                    else:
                        us.add('unknown')
                elif rv['k'] == 'copyderef' or rv['k'] == 'ref':
                    us.add(unit(rv['place']['l']))
                else:
                    us.add('unknown')
            # a local written through a projection (checked-arithmetic tuples are read back as `.0`)
            if not us:
                us.add('unknown')
            memo[l] = next(iter(us)) if len(us) == 1 else 'mixed(%s)' % ', '.join(sorted(us))
            return memo[l]

        def divide(u, c):
            return {('bits', 8): 'bytes', ('bits', 64): 'digits64', ('bits', 32): 'digits32'}.get((u, c), '%s / %s' % (u, c))
        rets = set()
        for i, j, s in b.stmts():
            if s['k'] == 'assign' and s['place']['l'] == 0 and not s['place']['p']:
                rv = s['rv']
                if rv['k'] in ('use', 'cast'):
                    rets.add(unit_op(rv['op']))
                else:
                    memo.pop(0, None)
                    rets.add(unit(0))
        for kind, dbb, idx, d in b.defs().get(0, []):
            if kind == 'call':
                memo.pop(0, None)
                rets.add(unit(0))
        return rets
    for b in targets:
        rets = evaluate(b, {})
        ok = bool(rets) and rets <= {'bytes', 'const'}
        r9.inst({'fn': b.nid, 'returns': sorted(rets)}, ok=ok, kind=b.id)
        if not ok:
            r9.fail('%s/unit' % b.nid, mirq.site(b, 0), 'a byte count is computed in the wrong unit: the function returns %s where bytes are expected (64-bit digits need x8, bits need /8): big integers are accounted for a fraction of their payload, so the size limit is not enforced for them' % sorted(rets - {'bytes', 'const'}))
    r9.need(2)


def native_object_size(ctx):
    """R09.10: a native value lives in a box; the bytes accounted for it are the size of the boxed object plus its dyn_size().
    Decided as a chain: the Native arm of XValue::size hands the boxed object to a size function that reaches
    `size_of::<the object's own type>` (through full_size -> static_size of the blanket impl, whose type argument is the impl's
    own type parameter), or measures it with size_of_val on the object -- never on the box / a reference to it."""
    mir = ctx.mir
    r10 = ctx.rule('R09.10', 'the static part of a native value is the size of the boxed object, not of a pointer to it')
    POINTERISH = re.compile(r'^(&|\*const|\*mut|std::boxed::Box<|alloc::boxed::Box<|std::rc::Rc<|std::sync::Arc<)')

    def own_size_reached(b, depth=3):
        """does body b (given the object as self) compute size_of of its own type / size_of_val of the object?"""
        for bb, t in b.calls():
            cal = strip_generics(t.get('callee') or t.get('decl') or '')
            subs = t.get('substs') or []
            if cal == 'std::mem::size_of' and subs and subs[0] in ('S', 'Self'):
                return True
            if cal == 'std::mem::size_of_val' and subs and not POINTERISH.match(subs[0].strip()):
                return True
            if depth > 0 and cal.endswith(('::static_size', '::full_size')):
                for y in mir.bodies:
                    if y.nid.endswith(cal.split('::')[-1]) and y.nid != b.nid and ('RuntimeEquatable' in y.nid or 'XNativeValue' in y.nid):
                        if own_size_reached(y, depth - 1):
                            return True
        return False
    bs = [b for b in mir.bodies if b.nid == 'xvalue::XValue::size']
    if not bs:
        r10.fail('anchor/XValue::size', 'src/xvalue.rs', 'XValue::size not found')
        r10.need(1)
        return
    # XValue::size and the same-type helpers it calls (a `heap_size(&self)` holding the match)
    cands, todo = [bs[0]], [bs[0]]
    while todo:
        x = todo.pop()
        for bb, t in x.calls():
            cal = strip_generics(t.get('callee') or '')
            if cal.startswith('xvalue::XValue::'):
                for y in mir.bodies:
                    if y.nid == cal and y not in cands:
                        cands.append(y)
                        todo.append(y)
    found = []
    for b in cands:
        native_locals = set()
        for i, j, s in b.stmts():
            if s['k'] == 'assign' and 'place' in s['rv'] and any(isinstance(e, dict) and e.get('dc') == 'Native' for e in s['rv']['place']['p']):
                native_locals.add(s['place']['l'])
        reach = set(native_locals)
        changed = True
        while changed:
            changed = False
            for i, j, s in b.stmts():
                if s['k'] == 'assign' and not s['place']['p'] and s['place']['l'] not in reach:
                    srcs = mirq.operand_locals_of_rv(s['rv'])
                    if any(x in reach for x in srcs):
                        reach.add(s['place']['l'])
                        changed = True
            for bb, t in b.calls():
                if not t['dest']['p'] and t['dest']['l'] not in reach and any(op_local(a) in reach for a in t['args']):
                    nm = strip_generics(t.get('callee') or t.get('decl') or '')
                    if nm.endswith(('::deref', '::as_ref', '::borrow')):
                        reach.add(t['dest']['l'])
                        changed = True
        for bb, t in b.calls():
            if not any(op_local(a) in reach for a in t['args']):
                continue
            cal = strip_generics(t.get('callee') or t.get('decl') or '')
            subs = t.get('substs') or []
            if cal == 'std::mem::size_of_val':
                ok = bool(subs) and not POINTERISH.match(subs[0].strip())
                found.append((mirq.site(b, bb), 'size_of_val::<%s>' % (subs[0] if subs else '?'), ok))
            elif cal.endswith(('::full_size', '::static_size')):
                ys = [y for y in mir.bodies if y.nid.endswith(cal.split('::')[-1]) and ('RuntimeEquatable' in y.nid or 'XNativeValue' in y.nid)]
                ok = any(own_size_reached(y) for y in ys)
                found.append((mirq.site(b, bb), cal.split('::')[-1], ok))
    b = bs[0]
    good = [f for f in found if f[2]]
    r10.inst({'fn': 'XValue::size', 'native_payload_measured_by': [f[1] for f in found], 'reaches_size_of_the_object': bool(good)}, ok=bool(good), kind='native-arm')
    if not good:
        r10.fail('XValue::size/native-static-part', found[0][0] if found else 'src/xvalue.rs', 'the Native arm of XValue::size does not account the size of the boxed object itself (%s): every sequence, mapping, generator, ... is accounted the size of a pointer instead of its own struct, and a limit below the live payload is not enforced' % (', '.join(f[1] for f in found) or 'no size function receives the object'))
    r10.need(1)


_ALLOC_TABLE = {}


def allocate_table(ctx, b):
    """Outcome table of Runtime::allocate by finite abstract evaluation on the MIR.  The counter, the size of the new value and the
    limit are touched only through +, - and comparisons, so five orderings of (counter + size) against the limit represent every
    run: for each, the set of (result, counter afterwards) the body can end with.  Helpers of the crate (an `over_limit(total, max)`)
    are evaluated in the same way; the newtype AllocatedMemory is its usize."""
    if b.id in _ALLOC_TABLE:
        return _ALLOC_TABLE[b.id]
    from .lib import absint
    from .lib.facts import callee_name
    mir = ctx.mir
    S0, K = 100, 7

    def is_field(p, name):
        names = [e.get('n') for e in p['p'] if isinstance(e, dict) and 'n' in e]
        tail = [e for e in p['p'] if not (isinstance(e, dict) and 'n' in e) and e != '*']
        return bool(names) and names[-1] == name and not [e for e in p['p'][max(i for i, e in enumerate(p['p']) if isinstance(e, dict) and e.get('n') == name) + 1:] if e != '*']

    class R_(absint.Region):
        def get(self, env, p):
            if p['p'] and is_field(p, 'size') and 'RuntimeStats' in (self.b.local_ty(p['l']) or '') + 'RuntimeStats':
                return env.get('#size', absint.UNKNOWN)
            return absint.Region.get(self, env, p)

        def assign(self, env, place, val):
            if isinstance(val, tuple) and val and val[0] == 'effect':
                env = dict(env)
                env[val[1]] = val[2]
                val = val[3]
            if place['p'] and is_field(place, 'size'):
                env = dict(env)
                if val is absint.UNKNOWN:
                    env.pop('#size', None)
                else:
                    env['#size'] = val
                return env
            return absint.Region.assign(self, env, place, val)

    def field_oracle(p, env):
        if is_field(p, 'size_limit'):
            return env.get('#limit', absint.UNKNOWN)
        return absint.UNKNOWN

    def num(v, env):
        v = absint.deref(None, env, v)
        return v if isinstance(v, int) and not isinstance(v, bool) else None

    def oracle(t, vals, env):
        nm = strip_generics(callee_name(t) or t.get('decl') or '')
        if nm.endswith('Allocateable::byte_size') or nm.endswith('::byte_size'):
            return K
        if re.search(r'AllocatedMemory as std::ops::(Add|Sub)Assign>::(add|sub)_assign$', nm) and len(vals) == 2:
            k = num(vals[1], env)
            cur = env.get('#size')
            # the receiver must be the counter
            rp = op_place(t['args'][0])
            if k is None or not isinstance(cur, int):
                return ('effect', '#size', absint.UNKNOWN, absint.UNKNOWN)
            return ('effect', '#size', cur + k if 'AddAssign' in nm else cur - k, ('tuple', ()))
        if re.search(r'AllocatedMemory as std::ops::(Add|Sub)>::(add|sub)$', nm) and len(vals) == 2:
            a, c = num(vals[0], env), num(vals[1], env)
            if a is None or c is None:
                return absint.UNKNOWN
            return a + c if nm.endswith('::add') else a - c
        if re.search(r'(From<[^>]*>( for \w+)?>::from|Into<[^>]*>>::into|::from|::into)$', nm) and len(vals) == 1 and ('AllocatedMemory' in (callee_name(t) or '') + ' '.join(t.get('substs') or []) or 'usize' in ' '.join(t.get('substs') or [])):
            v = num(vals[0], env)
            return v if v is not None else absint.UNKNOWN
        m = re.search(r'PartialOrd(<[^>]*>)?>::(lt|le|gt|ge)$', nm)
        if m and len(vals) == 2:
            a, c = num(vals[0], env), num(vals[1], env)
            if a is None or c is None:
                return absint.UNKNOWN
            return {'lt': a < c, 'le': a <= c, 'gt': a > c, 'ge': a >= c}[m.group(2)]
        return absint.UNKNOWN
    out = []
    scenarios = [('no limit is set', 'none', ('ok', 0, S0)),
                 ('the new total stays below the limit', ('some', S0 + K + 1), ('ok', K, S0 + K)),
                 ('the new total equals the limit', ('some', S0 + K), ('ok', K, S0 + K)),
                 ('the new total exceeds the limit', ('some', S0 + K - 1), ('err', None, S0)),
                 ('the limit was already exceeded', ('some', S0 - 1), ('err', None, S0))]
    for scen, limit, want in scenarios:
        got = set()

        def event(kind, bb, idx, node, env, R):
            if kind == 'term' and node['k'] == 'return':
                v = R.get(env, {'l': 0, 'p': []})
                size = env.get('#size', 'unknown')
                if isinstance(v, tuple) and v and v[0] == 'ok':
                    pv = absint.deref(R, env, v[1])
                    got.add(('ok', pv if isinstance(pv, int) else 'unknown', size))
                elif isinstance(v, tuple) and v and v[0] == 'err':
                    got.add(('err', None, size))
                else:
                    got.add(('unrecognised', None, size))
                return 'ret'
            return None
        R0 = absint.region_with_std_oracle(mir, b, oracle, event, field_oracle=field_oracle, cls=R_)
        absint.CURRENT.append(R0)
        try:
            evs, silent, over = R0.run(0, {'#size': S0, '#limit': limit})
        finally:
            absint.CURRENT.pop()
        if over:
            got.add(('unrecognised', None, 'state budget exceeded'))
        out.append((scen, want, got))
    _ALLOC_TABLE[b.id] = out
    return out


def size_independent_of_sharing(ctx):
    """R09.11: the bytes accounted for a value are given back by its Drop exactly as recorded (R09.2/R09.3), so the *recorded* number
    has to cover what the value keeps alive for as long as it lives.  A size model that consults a reference count
    (Rc::strong_count / weak_count) records less when a part is shared at construction time -- and nobody accounts for that part
    once the other owner is gone.  Every size-model body (dyn_size impls, XValue::size and the helpers they call in the crate) is
    free of reference-count reads."""
    mir = ctx.mir
    r11 = ctx.rule('R09.11', 'no size model reads a reference count (the accounted size does not depend on who else holds a part)')
    roots = [b for b in mir.bodies if re.search(r'XNativeValue>::dyn_size$|^xvalue::XValue::size$|XNativeValue::full_size$', b.nid)]
    seen, todo = {b.id for b in roots}, list(roots)
    fam = list(roots)
    while todo:
        x = todo.pop()
        for bb, t in x.calls():
            cal = t.get('callee')
            y = mir.by_id.get(cal) if cal else None
            if y is None and cal:
                ys = mir.by_nid.get(strip_generics(cal), [])
                y = ys[0] if len(ys) == 1 else None
            if y is not None and y.id not in seen and y.file.startswith('src/'):
                seen.add(y.id)
                fam.append(y)
                todo.append(y)
        for cb in mir.bodies:
            if cb.kind == 'closure' and cb.id not in seen and cb.nid.startswith(x.nid + '::{closure'):
                seen.add(cb.id)
                fam.append(cb)
                todo.append(cb)
    for b in fam:
        bad = [(bb, strip_generics(t.get('callee') or t.get('decl') or '')) for bb, t in b.calls()
               if re.search(r'(Rc|Arc)(<[^>]*>)?::(strong_count|weak_count)$', strip_generics(t.get('callee') or t.get('decl') or ''))]
        r11.inst({'size_model': b.nid, 'reference_count_reads': len(bad)}, ok=not bad, kind=b.id)
        for bb, nm in bad:
            r11.fail('%s/%s' % (b.nid, nm.split('::')[-1]), mirq.site(b, bb), 'this size model stops counting where a reference count is above one ("someone else already counted it"): a stack built by repeated push accounts one node per version, and when the older versions die their nodes stay alive inside the newest one with nobody accounting for them -- 100000 live nodes are accounted 240 bytes and a size limit below the live payload is not enforced')
    r11.need(10)

