"""C11 — side effects happen only with permission.

Structural theorem decided here (for every body of the crate, resolved MIR):
  R11.1  effect sites are enumerated by *capability* (the only ways to reach the injected writer, clock,
         random source, the sleeping primitive and regex compilation) and each has exactly one class.
  R11.2  every effect site is dominated by `RuntimeLimits::check_permission(&P)?` for the permission P its class
         requires, the Err edge leaving the body — in its own body, or at every call/creation site up the call graph.
  R11.3  the permission constants carry the documented defaults and PermissionSet::get falls back to them.
  R11.4  the random source is created lazily, only inside get_rng.
"""
import re
from .lib import mirq, book, astq
from .lib.facts import strip_generics, op_local, callee_name

PERM_MOD = 'builtin::builtin_permissions::'
CHECK = 'runtime::RuntimeLimits::check_permission'

# capability class -> permissions that may guard it
CLASS_PERMS = {
    'stdout': {'PRINT', 'PRINT_DEBUG'},
    'clock': {'NOW'},
    'rng': {'RANDOM'},
    'sleep': {'SLEEP'},
    'regex': {'REGEX'},
}

# real-clock reads that are not the language's clock effect: the timeout mechanism and the default provider itself
CLOCK_EXEMPT = {
    'runtime::RuntimeStats::reset_timeout::{closure#0}': 'time-limit deadline computation (C10), not observable by the program',
    'runtime::Runtime::check_timeout::{closure#0}': 'time-limit test (C10), not observable by the program',
    '<time_provider::SystemTimeProvider as time_provider::TimeProvider>::unix_now': 'the default host-side provider implementation (the injected double itself)',
}


# constructors of compiled-pattern objects in regex / regex_automata / regex_syntax (Input::new, Cache::new etc. are not compilation)
REGEX_COMPILE = re.compile(r'^(?:(?:regex|regex_automata)::(?:.*::)?(?:Regex|RegexSet|DFA|PikeVM|NFA|BoundedBacktracker|Compiler|Builder|RegexBuilder|RegexSetBuilder|OnePass)'
                           r'::(?:new|new_many|build|build_many|build_from_nfa|build_from_dfas|new_from_nfa|build_many_from_hir|build_from_hir)|regex_syntax::(?:.*::)?parse)$')


def guard_blocks(mir, perms):
    """body -> blocks K such that being dominated by K means check_permission(&P)? passed for some P in perms"""
    cache = {}

    def f(body):
        if body.id in cache:
            return cache[body.id]
        ks = []
        for i, t in body.calls():
            if strip_generics(t.get('callee') or '') != CHECK:
                continue
            pn = mirq.named_const_of(mir, body, t['args'][1])
            if pn is None or not pn.startswith(PERM_MOD):
                continue
            if pn[len(PERM_MOD):] not in perms:
                continue
            cb = mirq.try_continue_block(body, i)
            if cb is None:
                continue
            ks.append(cb[0])
        cache[body.id] = ks
        return ks
    return f


def effect_sites(mir):
    """[(class, body, bb, what)]"""
    sites = []
    seen = set()

    def add(cls, b, bb, what):
        k = (cls, b.id, bb)
        if k in seen:
            return
        seen.add(k)
        sites.append((cls, b, bb, what))
    # (a) the writer: the `stdout` field is the only path to W; plus any io::Write call
    for b, bb, j, mode, p in mirq.field_accesses(mir, 'runtime::RuntimeStats', 'stdout'):
        if b.get('impl_trait') == 'std::fmt::Debug':
            continue   # derived Debug formats the field through `&`; io::Write needs `&mut`
        add('stdout', b, bb, 'access to RuntimeStats.stdout')
    # (b) the clock
    for b, bb, j, mode, p in mirq.field_accesses(mir, 'runtime::Runtime', 'time_provider'):
        add('clock', b, bb, 'access to Runtime.time_provider')
    # (c) the random source
    for b, bb, j, mode, p in mirq.field_accesses(mir, 'runtime::RuntimeStats', 'rng'):
        if b.get('impl_trait') == 'std::fmt::Debug':
            continue   # derived Debug formats the field through `&`; drawing needs `&mut`
        add('rng-field', b, bb, 'access to RuntimeStats.rng')
    for b in mir.bodies:
        if b.kind == 'promoted':
            continue
        for bb, t in b.calls():
            names = {strip_generics(x) for x in (t.get('callee'), t.get('decl')) if x}
            substs = t.get('substs') or []
            if any(n.startswith('std::io::Write::') for n in names) and substs and substs[0] in ('W', '&mut W'):
                add('stdout', b, bb, 'io::Write call on the injected writer')
            if 'time_provider::TimeProvider::unix_now' in names and b.get('impl_trait') != 'time_provider::TimeProvider':
                # (an impl of TimeProvider delegating to another provider is itself the injected double)
                add('clock', b, bb, 'TimeProvider::unix_now')
            if any(n in ('std::time::SystemTime::now', 'std::time::Instant::now') for n in names):
                add('clock-real', b, bb, 'real clock read')
            if 'runtime::RuntimeStats::get_rng' in names:
                add('rng', b, bb, 'get_rng()')
            if any(n.endswith('::from_entropy') or n.endswith('::from_rng') or n.endswith('::seed_from_u64') or n == 'rand::thread_rng' or n.endswith('::from_seed') for n in names) and not any(n.startswith('rand_chacha') or n.startswith('rand_core::') and False for n in names):
                add('rng-create', b, bb, 'construction of a random source')
            if 'std::thread::sleep' in names or any(n.startswith('std::thread::sleep') or n == 'std::thread::park_timeout' for n in names):
                add('sleep', b, bb, 'thread::sleep')
            if any(REGEX_COMPILE.match(n) for n in names):
                add('regex', b, bb, 'regex compilation')
    return sites


def const_str_arg(mir, body, t):
    """is every argument of the call a compile-time constant?"""
    for a in t['args']:
        kind, c = mirq.chase_op(body, a)
        if kind != 'const':
            return False
    return True


def run(ctx):
    mir = ctx.mir
    ctx.explanation = ('Every effect site of the crate (enumerated by capability on resolved MIR: uses of RuntimeStats.stdout / '
                       'io::Write on W, Runtime.time_provider / TimeProvider::unix_now, RuntimeStats.rng / get_rng / rng construction, '
                       'thread::sleep, regex compilation) is checked to be dominated by check_permission(&P)? for its permission, '
                       'in its body or at every call/creation site up the call graph; permission constants and the default '
                       'fallback are compared with the book.')
    ctx.trusted = ['rustc MIR construction and trait resolution (Instance::try_resolve)',
                   'the injected W/R/T are reachable only through Runtime/RuntimeStats fields (pub fields are audited crate-wide; host code is outside the crate)',
                   'regex / regex_automata / rand API names denoting compilation and rng construction']
    ctx.assumptions = ['panics/unwinding paths are ignored for dominance', 'host code (outside crate xray) is out of scope']

    r1 = ctx.rule('R11.1', 'effect sites enumerated by capability')
    r2 = ctx.rule('R11.2', 'every effect site dominated by its permission check')
    sites = effect_sites(mir)
    reqs = book.required_permissions(ctx.repo)
    regs = astq.registrations(ctx.ast)
    regs_by_fn = {}
    for g in regs:
        regs_by_fn.setdefault((g['file'], g['fn']), []).append(g)
    classes = {}
    for cls, b, bb, what in sites:
        classes.setdefault(cls, []).append((b, bb, what))
        r1.inst({'class': cls, 'body': b.id, 'site': mirq.site(b, bb), 'what': what}, kind=(cls, b.id))
    # capability floors: each class must still have its anchors (counted on the pinned tree)
    floors = {'stdout': 4, 'clock': 1, 'rng': 4, 'sleep': 1, 'regex': 2, 'rng-field': 1, 'rng-create': 1}
    for cls, n in floors.items():
        if len(classes.get(cls, [])) < n:
            r1.fail('class/%s' % cls, '-', 'capability class %s has %d sites, fewer than the %d confirmed by hand (anchor lost; fail closed)' % (cls, len(classes.get(cls, [])), n))
    # who-may-access: the rng field only inside get_rng; rng construction only in get_rng's closure (R11.4)
    r4 = ctx.rule('R11.4', 'random source created lazily, only inside get_rng')
    for b, bb, what in classes.get('rng-field', []):
        ok = b.nid == 'runtime::RuntimeStats::get_rng'
        # RuntimeStats::new initialises the field through an aggregate, not a projection
        r4.inst({'body': b.id, 'site': mirq.site(b, bb)}, ok=ok)
        if not ok:
            r4.fail('%s/rng-field' % b.nid, mirq.site(b, bb), 'RuntimeStats.rng is accessed outside get_rng: the random source can be reached without the RANDOM guard path')
    for b, bb, what in classes.get('rng-create', []):
        ok = b.nid == 'runtime::RuntimeStats::get_rng::{closure#0}'
        r4.inst({'body': b.id, 'site': mirq.site(b, bb)}, ok=ok)
        if not ok:
            r4.fail('%s/rng-create' % b.nid, mirq.site(b, bb), 'a random source is constructed outside get_rng\'s lazy initialiser')
    # get_or_insert_with shape in get_rng
    g = mir.find('runtime::RuntimeStats::get_rng')
    if len(g) != 1:
        r4.fail('anchor/get_rng', '-', 'get_rng not found')
    else:
        names = [strip_generics(t.get('callee') or t.get('decl') or '') for _, t in g[0].calls()]
        ok = any(n.endswith('Option::get_or_insert_with') for n in names)
        r4.inst({'body': g[0].id, 'calls': names}, ok=ok)
        if not ok:
            r4.fail('runtime::RuntimeStats::get_rng/lazy', mirq.site(g[0], 0), 'get_rng no longer creates the source lazily through Option::get_or_insert_with')

    # dominance
    for cls in ('stdout', 'clock', 'rng', 'sleep', 'regex', 'clock-real'):
        for b, bb, what in classes.get(cls, []):
            t = b.term(bb)
            if cls == 'clock-real':
                exk = b.nid if b.nid in CLOCK_EXEMPT else (b.nid.split('::{closure')[0] + '::{closure#0}')
                if exk in CLOCK_EXEMPT:
                    r2.exempted(b.nid, CLOCK_EXEMPT[exk])
                    continue
                perms = CLASS_PERMS['clock']
            elif cls == 'regex':
                # the lazy_static patterns are compile-time literals: no program-controlled compilation
                if t['k'] == 'call' and const_str_arg(mir, b, t) and '__static_ref_initialize' in b.nid:
                    r2.exempted(b.nid, 'regex compiled from a compile-time literal inside lazy_static')
                    continue
                perms = CLASS_PERMS['regex']
            elif cls == 'clock' and (b.nid in CLOCK_EXEMPT or (b.nid.split('::{closure')[0] + '::{closure#0}') in CLOCK_EXEMPT):
                continue
            else:
                perms = CLASS_PERMS[cls]
            required = set(perms)

            def stdout_required(body):
                # the book names the exact permission per documented function
                top = mir.enclosing_fn(body)
                topb = mir.by_id.get(top)
                if topb is None:
                    return set()
                fnname = strip_generics(top).split('::')[-1]
                names = {g['name'] for g in regs_by_fn.get((topb.file, fnname), []) if g['name']}
                doc = set()
                for n in names:
                    doc |= reqs.get(n, set())
                return doc & CLASS_PERMS['stdout']
            if cls == 'stdout':
                required = stdout_required(b) or required
            ok, trail = mirq.guarded_interproc(mir, b, bb, guard_blocks(mir, required))
            if ok and cls == 'stdout' and len(required) > 1 and b.kind != 'closure':
                # a writing helper shared by builtins with different permissions: the permission is the
                # *calling builtin's* (the book's), so the helper is judged once per caller (seeded C11f)
                for (cb, ci, ct) in mir.callers_index().get(b.nid, []):
                    creq = stdout_required(cb) or required
                    gf = guard_blocks(mir, creq)
                    if any(mirq.dominates(b, k, bb) for k in gf(b)):
                        continue
                    okc, trc = mirq.guarded_interproc(mir, cb, ci, gf)
                    if not okc:
                        ok, required = False, creq
                        trail = ['%s <- %s at %s' % (b.id, cb.id, mirq.site(cb, ci))] + trc
                        what = '%s (through the shared helper %s, called from %s)' % (what, b.nid, cb.nid)
                        break
            r2.inst({'class': cls, 'body': b.id, 'site': mirq.site(b, bb), 'permission': sorted(required)}, ok=ok, kind=(cls, b.id, bb))
            if not ok:
                r2.fail('%s/%s' % (b.nid, cls), mirq.site(b, bb),
                        '%s is reachable without a dominating check_permission(&%s)?' % (what, '|'.join(sorted(required))),
                        {'trail': trail})
    r2.need(10)

    # every check_permission result must be propagated with `?` (a dropped result guards nothing)
    r5 = ctx.rule('R11.5', 'check_permission results are propagated, with a permission constant')
    for b, bb, t in mir.call_sites(lambda n: n == CHECK):
        pn = mirq.named_const_of(mir, b, t['args'][1])
        cb = mirq.try_continue_block(b, bb)
        ok = pn is not None and pn.startswith(PERM_MOD) and cb is not None
        r5.inst({'body': b.id, 'site': mirq.site(b, bb), 'permission': pn}, ok=ok)
        if not ok:
            r5.fail('%s/check' % b.nid, mirq.site(b, bb), 'check_permission whose argument is not a builtin permission constant or whose result is not propagated with `?`')
    r5.need(5)

    # R11.3 defaults
    r3 = ctx.rule('R11.3', 'permission constants carry the documented defaults; lookup falls back to them')
    docs = book.permission_defaults(ctx.repo)
    found = {}
    for b in mir.bodies:
        if b.kind == 'const' and b.nid.startswith(PERM_MOD):
            name = b.nid[len(PERM_MOD):]
            ctor = None
            ident = None
            for bb, t in b.calls():
                n = strip_generics(t.get('callee') or '')
                if n.startswith('permissions::Permission::new'):
                    ctor = n.split('::')[-1]
                    k, c = mirq.chase_op(b, t['args'][0])
                    if k == 'const':
                        ident = c.get('s')
            found[name] = (ctor, ident, b)
    want_ctor = {True: 'new_default_allowed', False: 'new_default_forbidden'}
    for name, dflt in sorted(docs.items()):
        if name not in found:
            r3.inst({'permission': name}, ok=False)
            r3.fail('const/%s/missing' % name, 'book/src/interop/permissions.md', 'documented permission %s has no constant in builtin_permissions' % name)
            continue
        ctor, ident, b = found[name]
        ok = ctor == want_ctor[dflt]
        r3.inst({'permission': name, 'documented_default': dflt, 'ctor': ctor, 'id': ident}, ok=ok)
        if not ok:
            r3.fail('const/%s/default' % name, mirq.site(b, 0), 'permission %s is built with %s but the book documents default=%s' % (name, ctor, dflt))
    for name in found:
        if name not in docs:
            r3.fail('const/%s/undocumented' % name, mirq.site(found[name][2], 0), 'permission constant %s is not documented in the book' % name)
    # ids must be pairwise distinct (two permissions sharing an id would alias in the PermissionSet)
    ids = [v[1] for v in found.values()]
    if len(set(ids)) != len(ids):
        r3.fail('const/ids', 'src/builtin/builtin_permissions.rs', 'two permission constants share an id: %r' % ids)
    # constructors, lookup and check decided by abstract evaluation (rules/lib/absint.py), whatever their syntactic form:
    from .lib import absint

    def nothing(tm, vals, env):
        return absint.UNKNOWN
    for fname, args, want in (('new', {'_1': 'ID', '_2': True}, ('ID', True)), ('new', {'_1': 'ID', '_2': False}, ('ID', False)),
                              ('new_default_allowed', {'_1': 'ID'}, ('ID', True)), ('new_default_forbidden', {'_1': 'ID'}, ('ID', False))):
        bs = mir.find('permissions::Permission::' + fname)
        got = None
        if len(bs) == 1:
            rs = absint.returns(mir, bs[0], dict(args), nothing)
            if len(rs) == 1:
                v = next(iter(rs))
                if isinstance(v, tuple) and v and v[0] == 'struct':
                    d = dict(v[2])
                    got = (d.get('id'), d.get('default'))
        ok = got == want
        r3.inst({'fn': 'Permission::' + fname, 'arguments': sorted(args.items()), 'builds (id, default)': got}, ok=ok, kind=(fname, str(sorted(args.items()))))
        if not ok:
            r3.fail('ctor/%s' % fname, 'src/permissions.rs', 'Permission::%s%s builds %s, expected id and default = %s' % (fname, sorted(args.items()), got, want))
    # PermissionSet::get(set, p): the stored flag when the id is present, p.default otherwise
    bs = mir.find('permissions::PermissionSet::get')
    okg = len(bs) == 1
    if len(bs) == 1:
        for stored in ('absent', True, False):
            for dflt in (True, False):
                def field_oracle(pl, env, dflt=dflt):
                    names = [e.get('n') for e in pl['p'] if isinstance(e, dict)]
                    if names and names[-1] == 'default':
                        return dflt
                    if names and names[-1] == 'id':
                        return 'ID'
                    return absint.UNKNOWN

                def oracle(tm, vals, env, stored=stored):
                    nm = strip_generics(tm.get('callee') or tm.get('decl') or '')
                    if nm.endswith('HashMap::get') and len(vals) == 2:
                        key = absint.deref(None, env, vals[1])
                        if key != 'ID':
                            return absint.UNKNOWN     # looked up under something that is not the permission's id
                        if stored == 'absent':
                            return 'none'
                        env['#stored'] = stored
                        return ('some', ('ref', '#stored'))
                    if nm.endswith('HashMap::contains_key') and len(vals) == 2:
                        return stored != 'absent'
                    return absint.UNKNOWN
                rs = absint.returns(mir, bs[0], {}, oracle, field_oracle)
                # a returned reference to the stored flag / the default counts as its value
                vals_ = set()
                for r in rs:
                    if isinstance(r, tuple) and r and r[0] == 'ref':
                        r = stored if r[1] == '#stored' else absint.UNKNOWN
                    vals_.add(r)
                want = dflt if stored == 'absent' else stored
                ok1 = vals_ == {want}
                okg = okg and ok1
                r3.inst({'fn': 'PermissionSet::get', 'stored': stored, 'default': dflt, 'returns': sorted(map(str, vals_)), 'documented': want}, ok=ok1, kind=('get', str(stored), dflt))
    if not okg:
        r3.fail('PermissionSet::get', 'src/permissions.rs', 'PermissionSet::get no longer returns the stored flag of the permission id, or the permission default when the id was never set')
    # check_permission: Ok iff permissions.get(its own argument)
    bs = mir.find(CHECK)
    okc = len(bs) == 1
    if len(bs) == 1:
        b = bs[0]
        own_arg = all(mirq.chase_op(b, tm['args'][1]) == ('arg', 2) for bb, tm in b.calls() if strip_generics(tm.get('callee') or '') == 'permissions::PermissionSet::get')
        for allowed in (True, False):
            def oracle2(tm, vals, env, allowed=allowed):
                if strip_generics(tm.get('callee') or '') == 'permissions::PermissionSet::get':
                    return allowed
                return absint.UNKNOWN
            rs = absint.returns(mir, b, {}, oracle2)
            kinds = {r[0] if isinstance(r, tuple) and r else r for r in rs}
            viol = {r[1][2] if isinstance(r, tuple) and r[0] == 'err' and isinstance(r[1], tuple) and len(r[1]) > 2 else None for r in rs if isinstance(r, tuple) and r[0] == 'err'}
            ok1 = (kinds == {'ok'}) if allowed else (kinds == {'err'} and viol == {'PermissionError'})
            okc = okc and ok1 and own_arg
            r3.inst({'fn': 'check_permission', 'permission_allowed': allowed, 'returns': sorted(map(str, kinds))}, ok=ok1 and own_arg, kind=('check', allowed))
    if not okc:
        r3.fail('check_permission/shape', 'src/runtime.rs', 'check_permission no longer returns Ok exactly when permissions.get(its argument) is true and Err(PermissionError) otherwise')
    r3.need(10)

    # ---------------- R11.6 the host's last word on a permission is what the lookup sees
    r6 = ctx.rule('R11.6', 'allow / forbid write the entry of the permission on every path, with the value their name says')
    for name, want in (('allow', True), ('forbid', False)):
        bs = mir.find('permissions::PermissionSet::' + name)
        if len(bs) != 1:
            r6.fail('anchor/PermissionSet::%s' % name, 'src/permissions.rs', 'PermissionSet::%s not found' % name)
            continue
        b = bs[0]

        def writes(body, depth=2):
            """blocks of `body` that certainly overwrite the entry: HashMap::insert / remove on the set's map, or a call of a private
            helper of PermissionSet all of whose paths do"""
            out = {}
            for bb, t in body.calls():
                nm = strip_generics(t.get('callee') or t.get('decl') or '')
                if re.search(r'HashMap::(insert|remove)$', nm):
                    val = None
                    if nm.endswith('insert') and len(t['args']) == 3:
                        k, v = mirq.chase_op(body, t['args'][2])
                        val = v.get('bool') if k == 'const' else ('arg', v) if k == 'arg' else None
                    out[bb] = ('insert', val) if nm.endswith('insert') else ('remove', None)
                elif depth > 0 and nm.startswith('permissions::PermissionSet::') and nm != body.nid:
                    hs = mir.find(nm)
                    if len(hs) == 1:
                        hw = writes(hs[0], depth - 1)
                        free = _reach_free(hs[0], set(hw))
                        if hw and not any(hs[0].term(x)['k'] == 'return' for x in free):
                            # the value the helper stores: its own parameter -> the caller's argument
                            vals = set()
                            for kind_, v_ in hw.values():
                                if isinstance(v_, tuple) and v_[0] == 'arg' and v_[1] - 1 < len(t['args']):
                                    k2, v2 = mirq.chase_op(body, t['args'][v_[1] - 1])
                                    vals.add(v2.get('bool') if k2 == 'const' else None)
                                elif kind_ == 'insert':
                                    vals.add(v_)
                            # removals fall back to the default: accepted next to an insert of the requested value
                            out[bb] = ('insert', next(iter(vals)) if len(vals) == 1 else None) if vals else ('remove', None)
            return out
        w = writes(b)
        free = _reach_free(b, set(w))
        escapes = [x for x in free if b.term(x)['k'] == 'return']
        vals = {v for k, v in w.values() if k == 'insert'}
        ok = bool(w) and not escapes and vals == {want}
        r6.inst({'fn': b.nid, 'writes': sorted(str(x) for x in w.values()), 'return_reachable_without_write': bool(escapes)}, ok=ok, kind=name)
        if not ok:
            r6.fail('PermissionSet::%s/conditional-write' % name, mirq.site(b, 0), '%s can return without overwriting the entry of the permission (or stores another value than %s): an earlier, opposite setting survives and the lookup answers with it' % (name, str(want).lower()))
    r6.need(2)


def _reach_free(b, avoid):
    seen = set()
    todo = [0]
    while todo:
        x = todo.pop()
        if x in seen or x in avoid or b.is_cleanup(x):
            continue
        seen.add(x)
        todo.extend(b.succ(x))
    return seen
