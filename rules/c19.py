"""C19 — derived equality, hash, order and text are coherent; sorting is right.  Structural clauses:
  R19.1  derived relational operators: lt/gt/le/ge apply exactly is_negative / is_positive / !is_positive / !is_negative to
         the result of cmp, ne applies `!` to the result of eq; xcmp returns -1/0/1 consistently
  R19.2  component-wise derivation for tuples: arity mismatch is a bind error before components are paired; components are
         paired by one forward zip (no reversal) and the loop stops at the first deciding component
  R19.5  the width handed to FillSpecs::fillers (format padding) derives from code-point counts, not byte lengths (unit analysis, R18.5)
  R19.4  natural-run detection of the merge sort: the reversed run extends while is_less, the kept run while !is_less
  R19.3  fail-safe sorting (typestate on MIR of util::trysort / util::try_heap): between a bitwise duplication and the
         construction of the drop guard that undoes it there is no comparator call and no return; guards implement Drop;
         no guard is forgotten
"""
import re
from .lib import astq, mirq
from .lib.facts import find_nodes, strip_generics, op_local

GEN = 'src/builtin/generic.rs'
WANT = {'lt': ('is_negative', False), 'gt': ('is_positive', False), 'le': ('is_positive', True), 'ge': ('is_negative', True)}


def src(n):
    return re.sub(r'\s+', '', n.get('s') or '')


def run(ctx):
    ast = ctx.ast
    mir = ctx.mir
    ctx.explanation = ('Table agreement of the derived relational operators with their documented meaning, component pairing of the tuple '
                       'derivations, and a typestate check of the unsafe fallible sort/heap utilities (duplication -> guard -> comparator).')
    ctx.trusted = ['syn parse', 'rustc MIR', 'num_traits Signed::is_negative/is_positive']
    ctx.assumptions = ['equivalence / total-order laws, the format-specifier semantics and that the sort sorts are NOT decided (value level)']
    r1 = ctx.rule('R19.1', 'derived relational operators apply the documented predicate to cmp / eq')
    regs = astq.registrations(ast)
    for g in regs:
        if g['file'] != GEN or g['method'] != 'add_dyn_func' or g['name'] not in ('lt', 'gt', 'le', 'ge', 'ne'):
            continue
        desc = astq.str_lit(g['args'][1]) if len(g['args']) > 1 else None
        if desc not in ('use-cmp', 'eq-inverse'):
            continue
        bools = [c for c, _ in find_nodes(g['node'], lambda y: y.get('k') == 'call' and src(y['func']) == 'XValue::Bool')]
        if len(bools) != 1:
            r1.inst({'name': g['name']}, ok=False)
            r1.fail('%s/shape' % g['name'], '%s:%d' % (GEN, g['line']), 'derived `%s`: result construction not recognised' % g['name'])
            continue
        e = bools[0]['args'][0]
        neg = False
        while e.get('k') in ('unary', 'paren'):
            if e.get('k') == 'unary' and e['op'] == '!':
                neg = not neg
            e = e['expr']
        if g['name'] == 'ne':
            # !*is_eq where is_eq is the Bool payload of the eq result
            inner_sym = [astq.str_lit(c['args'][0]) for c, _ in find_nodes(ast['files'][GEN], lambda y: y.get('k') == 'mcall' and y['method'] == 'identifier')]
            ok = neg and e.get('k') in ('path', 'unary') or (neg and 'is_eq' in src(e))
            uses_eq = bool(find_nodes([f2 for f, f2, im in astq.all_fns(ast) if f == GEN and f2['name'] == g['fn']], lambda y: y.get('k') == 'mcall' and y['method'] == 'identifier' and astq.str_lit(y['args'][0]) == 'eq'))
            ok = bool(ok) and uses_eq
            r1.inst({'name': 'ne', 'negates_eq': ok}, ok=ok, kind='ne')
            if not ok:
                r1.fail('ne/predicate', '%s:%d' % (GEN, g['line']), 'derived `ne` is not the negation of `eq`')
            continue
        meth = e['method'] if e.get('k') == 'mcall' else None
        want = WANT[g['name']]
        uses_cmp = bool(find_nodes([f2 for f, f2, im in astq.all_fns(ast) if f == GEN and f2['name'] == g['fn']], lambda y: y.get('k') == 'mcall' and y['method'] == 'identifier' and astq.str_lit(y['args'][0]) == 'cmp'))
        ok = (meth, neg) == want and uses_cmp
        r1.inst({'name': g['name'], 'predicate': ('!' if neg else '') + str(meth), 'expected': ('!' if want[1] else '') + want[0]}, ok=ok, kind=g['name'])
        if not ok:
            r1.fail('%s/predicate' % g['name'], '%s:%d' % (GEN, g['line']), 'derived `%s` applies %s%s to cmp; expected %s%s' % (g['name'], '!' if neg else '', meth, '!' if want[1] else '', want[0]))
    # xcmp
    xc = [fn for f, fn, im in astq.all_fns(ast) if f == 'src/builtin/core.rs' and fn['name'] == 'xcmp']
    if xc:
        fn = xc[0]
        p0 = fn['inputs'][0]['pat']['name']
        p1 = fn['inputs'][1]['pat']['name']
        ifs = [i for i, _ in find_nodes(fn['body'], lambda y: y.get('k') == 'if')]
        ok = False
        if ifs:
            top = ifs[0]
            c1 = src(top['cond'])
            neg_first = 'neg()' in src({'s': ' '.join(x.get('s', '') for x in top['then'])})
            el = top.get('else')
            c2 = src(el['cond']) if el and el.get('k') == 'if' else ''
            ok = c1 == '%s<%s' % (p0, p1) and neg_first and c2 == '%s>%s' % (p0, p1) and 'one()' in src({'s': ' '.join(x.get('s', '') for x in el['then'])}) and 'zero()' in src(el['else']) if el and el.get('else') else False
        r1.inst({'xcmp': 'first<second -> -1, first>second -> 1, else 0'}, ok=ok)
        if not ok:
            r1.fail('xcmp/shape', 'src/builtin/core.rs:%d' % fn['line'], 'xcmp is no longer (a<b -> -1, a>b -> 1, else 0) on its (first, second) parameters')
    else:
        r1.fail('anchor/xcmp', 'src/builtin/core.rs', 'xcmp not found')
    r1.need(6)

    # ---------------- R19.2 tuples
    r2 = ctx.rule('R19.2', 'tuple eq/cmp/hash/to_str pair components by one forward zip after an arity test')
    for f, fn, im in astq.all_fns(ast):
        if f != 'src/builtin/tuple.rs' or not fn['name'].startswith('add_tuple_dyn_'):
            continue
        zips = [z for z, _ in find_nodes(fn['body'], lambda y: y.get('k') == 'mcall' and y['method'] == 'zip')]
        revs = find_nodes(fn['body'], lambda y: y.get('k') == 'mcall' and y['method'] in ('rev', 'reverse', 'sort', 'swap'))
        two = 'subtypes1' in src({'s': ' '.join(x.get('s', '') for x, _ in find_nodes(fn['body'], lambda y: y.get('k') == 'let'))}) or bool(find_nodes(fn['body'], lambda y: y.get('k') == 'pident' and y['name'] == 'subtypes1'))
        ok = not revs
        if two:
            tests = [src(i['cond']) for i, _ in find_nodes(fn['body'], lambda y: y.get('k') == 'if')]
            ok = ok and any('subtypes0.len()!=subtypes1.len()' in t for t in tests)
        r2.inst({'fn': fn['name'], 'zips': len(zips), 'reordering': len(revs), 'binary': two}, ok=ok, kind=fn['name'])
        if not ok:
            r2.fail('%s/pairing' % fn['name'], 'src/builtin/tuple.rs:%d' % fn['line'], 'tuple derivation pairs components without an arity test or with a reordering call')
        # eq / cmp stop at the first deciding component
        if fn['name'] in ('add_tuple_dyn_eq', 'add_tuple_dyn_cmp'):
            loops = [l for l, _ in find_nodes(fn['body'], lambda y: y.get('k') == 'for')]
            brk = any(find_nodes(l['body'], lambda y: y.get('k') in ('break', 'return')) for l in loops)
            r2.inst({'fn': fn['name'], 'stops_at_first_deciding_component': brk}, ok=brk, kind=fn['name'] + '/stop')
            if not brk:
                r2.fail('%s/no-early-stop' % fn['name'], 'src/builtin/tuple.rs:%d' % fn['line'], 'the component loop does not stop at the first deciding component (lexicographic order / short-circuit equality)')
    r2.need(4)

    # ---------------- R19.3 typestate of the unsafe sort / heap
    r3 = ctx.rule('R19.3', 'no comparator call or return between a bitwise duplication and its drop guard')
    DUP = re.compile(r'^(std|core)::(ptr::read|ptr::copy_nonoverlapping|ptr::copy|intrinsics::copy_nonoverlapping|ptr::const_ptr::<impl \*const T>::read|ptr::mut_ptr::<impl \*mut T>::read)$')
    bodies = [b for b in mir.bodies if b.kind in ('fn', 'closure') and (b.nid.startswith('util::trysort::') or b.nid.startswith('util::try_heap::') or b.nid.startswith('<util::try'))]
    guard_adts = set()
    for aid, a in mir.adts.items():
        if aid.startswith('util::trysort::') or aid.startswith('util::try_heap::'):
            if any(re.search(r'\*(mut|const) |ManuallyDrop|&mut \[', f['ty']) for v in a['variants'] for f in v['fields']):
                guard_adts.add(aid)
    drop_impls = {strip_generics(im['self']) for im in mir.impls if im.get('trait') == 'std::ops::Drop'}
    for g_ in sorted(guard_adts):
        ok = g_ in drop_impls
        r3.inst({'guard_type': g_, 'implements_Drop': ok}, ok=ok, kind=g_)
        if not ok:
            r3.fail('%s/no-drop' % g_, mir.adts[g_]['span'], 'a hole/guard type holding raw duplicated state has no Drop impl: an early error return leaves the slice with a duplicated or missing element')
    if len(guard_adts) < 3:
        r3.fail('anchor/guards', '-', 'fewer guard types than the 3 confirmed by hand (InsertionHole, MergeHole, Hole)')
    n_dup = 0
    for b in bodies:
        if b.get('impl_trait') == 'std::ops::Drop':
            continue   # the guards' own drop performs the restoring copy
        gblocks = [i for i, j, s in b.stmts() if s['k'] == 'assign' and s['rv']['k'] == 'agg' and s['rv'].get('ak') == 'adt' and s['rv']['adt'] in guard_adts]
        gblocks += [bb for bb, t in b.calls() if strip_generics(t.get('callee') or '') in ('util::try_heap::Hole::new',)]
        # a body that is itself a method of a live guard (Hole::move_to ..) works under its receiver's protection
        under_guard = b.get('impl_self') and strip_generics(b.get('impl_self')) in guard_adts
        for bb, t in b.calls():
            nm = strip_generics(t.get('callee') or t.get('decl') or '')
            if not DUP.match(nm):
                continue
            n_dup += 1
            if under_guard or any(mirq.dominates(b, g, bb) for g in gblocks):
                r3.inst({'body': b.id, 'site': mirq.site(b, bb), 'dup': nm.split('::')[-1], 'state': 'guard already live'}, kind=(b.id, bb))
                continue
            # forward exploration until a guard is constructed
            seen = set()
            stack = [t['target']]
            bad = None
            while stack and bad is None:
                x = stack.pop()
                if x is None or x in seen:
                    continue
                seen.add(x)
                if x in gblocks:
                    continue
                tt = b.term(x)
                if tt['k'] == 'call':
                    c = strip_generics(tt.get('callee') or tt.get('decl') or '')
                    if c in ('std::ops::FnMut::call_mut', 'std::ops::Fn::call', 'std::ops::FnOnce::call_once') or (tt.get('callee') is None and 'call' in c):
                        bad = (x, 'comparator call')
                        break
                if tt['k'] == 'return':
                    # returning with the duplicate handed to the caller inside a guard value is fine (Hole::new); otherwise it escapes
                    rety = b.local_ty(0)
                    if not any(ga.split('::')[-1] in rety for ga in guard_adts):
                        bad = (x, 'return')
                        break
                    continue
                stack.extend(b.succs()[x])
            ok = bad is None
            r3.inst({'body': b.id, 'site': mirq.site(b, bb), 'dup': nm.split('::')[-1], 'guard_before_comparator': ok}, ok=ok, kind=(b.id, bb))
            if not ok:
                r3.fail('%s/%s-before-guard' % (b.nid, bad[1].split(' ')[0]), mirq.site(b, bad[0]), 'a %s is reachable after the bitwise duplication at %s before any drop guard exists: a failing comparator would leave an element duplicated or lost' % (bad[1], mirq.site(b, bb)))
    for b in bodies:
        for bb, t in b.calls():
            nm = strip_generics(t.get('callee') or t.get('decl') or '')
            if nm in ('std::mem::forget',) and any(ga.split('::')[-1] in ' '.join(t.get('argtys') or []) for ga in guard_adts):
                r3.fail('%s/forget-guard' % b.nid, mirq.site(b, bb), 'a drop guard is forgotten')
    if n_dup < 5:
        r3.fail('anchor/dups', '-', 'fewer duplication sites than confirmed by hand')
    r3.need(8)

    # ---------------- R19.4 run detection of the merge sort agrees with the comparator (a contradiction rule: the two
    # branches of "is the next pair descending?" must extend their run under complementary conditions)
    r4 = ctx.rule('R19.4', 'natural-run detection: a reversed run is strictly descending, a kept run is non-descending')
    TS = 'src/util/trysort.rs'
    ts = [fn for f, fn, im in astq.all_fns(ast) if f == TS and fn['name'] == 'try_sort']
    if len(ts) != 1:
        r4.fail('anchor/try_sort', TS, 'try_sort not found')
    else:
        def cmp_calls(n):
            """[(negated, operands)] for every comparator call is_less(a, b) under n"""
            out = []
            for c, ps in find_nodes(n, lambda y: y.get('k') == 'call' and src(y['func']) == 'is_less'):
                neg = False
                # negation applies when a `!` sits above the call with only macros / try / parens in between
                for p in reversed(ps):
                    k = p.get('k')
                    if k == 'unary' and p['op'] == '!':
                        neg = not neg
                    elif k in ('macro', 'try', 'paren') or k is None:
                        continue
                    else:
                        break
                out.append((neg, tuple(src(a) for a in c['args'])))
            return out
        found = 0
        for n, ps in find_nodes(ts[0]['body'], lambda y: y.get('k') == 'if' and y.get('else') is not None):
            if not cmp_calls(n['cond']):
                continue
            th_w = [w for w, _ in find_nodes(n['then'], lambda y: y.get('k') == 'while')]
            el_w = [w for w, _ in find_nodes(n['else'], lambda y: y.get('k') == 'while')]
            if not th_w or not el_w:
                continue
            rev_then = bool(find_nodes(n['then'], lambda y: y.get('k') == 'mcall' and y['method'] == 'reverse'))
            rev_else = bool(find_nodes(n['else'], lambda y: y.get('k') == 'mcall' and y['method'] == 'reverse'))
            if rev_then == rev_else:
                continue
            found += 1
            head = cmp_calls(n['cond'])[0]
            desc_w, keep_w = (th_w[0], el_w[0]) if rev_then else (el_w[0], th_w[0])
            cd, ck = cmp_calls(desc_w['cond']), cmp_calls(keep_w['cond'])
            ok = len(cd) == 1 and len(ck) == 1 and cd[0][1] == ck[0][1] and cd[0][0] != ck[0][0]
            # the branch that reverses is entered when the head comparison says "descending" (same polarity as its loop)
            ok_dir = ok and (cd[0][0] == (head[0] if rev_then else not head[0]))
            r4.inst({'if': '%s:%d' % (TS, n['line']), 'reversed_run_continues_while': ('!' if cd and cd[0][0] else '') + 'is_less' + str(cd[0][1] if cd else ''),
                     'kept_run_continues_while': ('!' if ck and ck[0][0] else '') + 'is_less' + str(ck[0][1] if ck else '')}, ok=ok and ok_dir)
            if not ok:
                r4.fail('try_sort/run-detection/same-condition', '%s:%d' % (TS, keep_w['line']),
                        'the descending-run loop and the non-descending-run loop extend their run under the same condition (%s / %s): one of them is wrong -- a kept run is not sorted, so merging produces unsorted output for inputs longer than the insertion-sort cutoff'
                        % (('!' if cd and cd[0][0] else '') + 'is_less', ('!' if ck and ck[0][0] else '') + 'is_less'))
            elif not ok_dir:
                r4.fail('try_sort/run-detection/polarity', '%s:%d' % (TS, n['line']), 'the run that gets reversed is not the one detected as descending')
        if not found:
            r4.fail('anchor/run-detection', TS, 'the run-detection branch (if descending {extend; reverse} else {extend}) was not found in try_sort')
    r4.need(1)

    # ---------------- R19.5 padding / width arithmetic counts code points (shared unit analysis of R18.5)
    from . import c18
    r5 = ctx.rule('R19.5', 'format padding (fillers) is computed from code-point counts, never from byte lengths')
    c18.unit_discipline(ctx, r5, only_sinks=('fillers',))
    r5.need(3)


    # ---------------- R19.6
    hash_range(ctx)

def hash_range(ctx):
    """R19.6: a hash is an integer in [0, 2^64).  Every integer a hash native builds itself comes from a u64 (a Hasher's finish,
    a wrapping u64 computation) or is a constant; an inner hash is forwarded unchanged.  Unbounded big-integer arithmetic on hash
    values (hash + 1, hash * 31, ...) leaves the range and makes the containers that re-hash the value fail."""
    from .lib.facts import callee_name, op_place
    mir = ctx.mir
    r6 = ctx.rule('R19.6', 'hash natives build their integers from u64 values or constants, never by big-integer arithmetic')
    ARITH = re.compile(r'LazyBigint.*as std::ops::(Add|Sub|Mul|Shl|BitXor|BitOr|BitAnd|Neg)|LazyBigint as num_traits::Pow|BigInt as std::ops::(Add|Sub|Mul|Shl)')
    for b in mir.bodies:
        top = strip_generics(mir.enclosing_fn(b)) if b.kind == 'closure' else b.nid
        if not re.search(r'::add_\w*hash\w*$', top) or not b.file.startswith('src/builtin/'):
            continue
        for i, j, s in b.stmts():
            if not (s['k'] == 'assign' and s['rv']['k'] == 'agg' and (s['rv'].get('adt') or '').endswith('xvalue::XValue') and s['rv'].get('v') == 'Int'):
                continue
            ol = op_local(s['rv']['ops'][0]) if s['rv']['ops'] else None
            arith = []
            from_u64 = False
            for l in (mirq.backslice(b, [ol]) if ol is not None else ()):
                for kind, dbb, idx, d in b.defs().get(l, []):
                    if kind != 'call':
                        continue
                    full = callee_name(d) or ''
                    if ARITH.search(full):
                        arith.append(strip_generics(full).split('::')[-1])
                    if re.search(r'From<u(64|32|8|size)>|from_u64|Hasher>::finish|::zero$|Zero>::zero', full):
                        from_u64 = True
            ok = not arith
            r6.inst({'fn': top, 'site': mirq.site(b, i, j), 'from_u64_or_constant': from_u64, 'big_integer_arithmetic': arith}, ok=ok, kind=(b.nid, i, j))
            if not ok:
                r6.fail('%s/hash-arithmetic' % top, mirq.site(b, i, j), 'a hash value is computed with unbounded integer arithmetic (%s): the result can leave [0, 2^64) (e.g. for an inner hash of 2^64-1), and every container that re-hashes the value then fails with "hash out of bounds"' % ', '.join(sorted(set(arith))))
    r6.need(4)
