"""C18 — strings are code-point sequences; literals mean what they say.  Structural clauses:
  R18.1  code-point table integrity: a FencedString literal outside from_string reuses an existing table only together
         with a buffer derived from the same text; the case-mapping siblings agree
  R18.2  slice bounds: every native that calls substring/substr with an argument-derived start tests it against len first
  R18.3  escape table agrees with the book
  R18.4  literal handlers: raw strings bypass apply_escapes; quoted strings go through it; f-string text parts through
         apply_escapes then apply_brace_escape
"""
import re
from .lib import astq
from .lib.facts import find_nodes

FS = 'src/util/fenced_string.rs'
STR = 'src/builtin/str.rs'


def src(n):
    return re.sub(r'\s+', '', n.get('s') or '')


def unit_discipline(ctx, r5, only_sinks=None):
    """Every position the language sees is a code-point count; every position a &str / regex-automata API sees is a byte
    offset.  For each *sink* in the builtins (substring/substr indices, padding widths, integers handed back to the program
    by the str and regex natives; and in the other direction &str slicing and regex Input ranges) the origins of the operand
    are computed backwards through the MIR (through closures one level up and down) and must not contain the other unit."""
    from .lib import units, mirq
    from .lib.facts import op_place
    mir = ctx.mir
    n = 0
    for b in mir.bodies:
        if not b.file.startswith('src/builtin/') or '::tests::' in b.nid:
            continue
        found = []
        for bb, tm, o, needs, what in units.sinks_of(b):
            found.append((mirq.site(b, bb), o, needs, what))
        if b.file in ('src/builtin/str.rs', 'src/builtin/regex.rs'):
            for i, j, s in b.stmts():
                if s['k'] == 'assign' and s['rv']['k'] == 'agg' and s['rv'].get('adt') == 'xvalue::XValue' and s['rv']['v'] == 'Int' and s['rv']['ops']:
                    found.append((mirq.site(b, i, j), s['rv']['ops'][0], 'cp', 'XValue::Int returned to the program'))
        for site, o, needs, what in found:
            if only_sinks and not any(x in what for x in only_sinks):
                continue
            p = op_place(o)
            og = units.origins_ip(mir, b, p['l']) if p is not None else set()
            us = {u for u, _, _ in og}
            bad = sorted({w for u, w, _ in og if (needs == 'cp' and u == 'byte') or (needs == 'byte' and u in ('cp', 'program-int'))})
            n += 1
            r5.inst({'body': b.nid, 'site': site, 'sink': what, 'needs': needs, 'origins': sorted({'%s:%s' % (u, w.split('::')[-1]) for u, w, _ in og})}, ok=not bad, kind=(b.nid, what))
            if bad:
                wrong = 'a byte offset' if needs == 'cp' else 'a code-point index supplied by the program'
                r5.fail('%s/%s/%s' % (b.nid, re.sub(r'[^A-Za-z0-9]+', '-', what).strip('-'), 'byte-as-cp' if needs == 'cp' else 'cp-as-byte'), site,
                        '%s (%s) reaches %s, which counts in %s, without conversion: wrong positions (or a panic on a char boundary / out-of-range span) for non-ASCII text'
                        % (wrong, ', '.join(x.split('::')[-1] for x in bad), what, 'code points' if needs == 'cp' else 'bytes'))
    return n


def run(ctx):
    ast = ctx.ast
    ctx.explanation = ('Integrity of the dual representation (buffer + code-point table) at every construction site, bounds tests before every '
                       'slicing call in the string builtins, agreement of the escape table with the book, and the literal-form handlers.')
    ctx.trusted = ['syn parse', 'the book (lang/string_literals.md)']
    ctx.assumptions = ['agreement of find/split/replace/... with code-point semantics (value level) is NOT decided']
    r1 = ctx.rule('R18.1', 'FencedString literals keep buffer and code-point table consistent')
    fns = [(f, fn, im) for f, fn, im in astq.all_fns(ast) if f == FS]
    for f, fn, im in fns:
        if any('test' in a for a in fn.get('attrs', [])):
            continue
        for st, ps in find_nodes(fn['body'], lambda y: y.get('k') == 'struct' and y['path'] in ('Self', 'FencedString')):
            if any(p.get('k') == 'mod' for p in ps):
                continue
            flds = {x['member']: x['expr'] for x in st['fields']}
            if 'buffer' not in flds or 'char_starts' not in flds:
                continue
            b, c = src(flds['buffer']), src(flds['char_starts'])
            if fn['name'] == 'from_string':
                r1.inst({'fn': fn['name'], 'class': 'constructor'}, kind=(fn['name'], st['line'] - fn['line']))
                continue
            # accepted shapes: empty table for an all-ASCII slice (guarded by self.char_starts.is_empty()), a table computed in the same
            # function from the same indices, or a clone of self's table together with a clone of self's buffer
            fresh = c in ('Vec::new()', 'Default::default()', 'vec![]')
            same_text = 'self.char_starts.clone()' in c and b in ('self.buffer.clone()',)
            derived = not ('self.char_starts.clone()' == c) and ('char_starts' in c or 'collect' in c or 'map(' in c)
            local = flds['char_starts'].get('k') == 'path' and flds['char_starts']['path'] not in ('self.char_starts',)
            # a table produced by a call (a helper that re-bases the entries): not the original table itself
            derived = derived or (flds['char_starts'].get('k') in ('call', 'mcall') and c != 'self.char_starts.clone()')
            ok = fresh or same_text or derived or local
            r1.inst({'fn': fn['name'], 'buffer': b[:50], 'table': c[:50], 'ok': ok}, ok=ok, kind=(fn['name'], st['line'] - fn['line']))
            if not ok:
                r1.fail('%s/stale-table' % fn['name'], '%s:%d' % (FS, st['line']), 'a FencedString is built with buffer `%s` but reuses the code-point table of the original text: indices point into the wrong bytes when the text changed length' % b[:60])
    # case mapping siblings agree
    cm = {fn['name']: fn for f, fn, im in fns if fn['name'] in ('to_lowercase', 'to_uppercase')}
    if len(cm) == 2:
        def shape(fn):
            return sorted(set(x['func']['path'].split('::')[-1] for x, _ in find_nodes(fn['body'], lambda y: y.get('k') == 'call' and y['func'].get('k') == 'path' and y['func']['path'].startswith('Self::'))))
        a, b = shape(cm['to_lowercase']), shape(cm['to_uppercase'])
        ok = a == b and a != []
        r1.inst({'to_lowercase_builds_with': a, 'to_uppercase_builds_with': b}, ok=ok)
        if not ok:
            r1.fail('case-mapping/siblings', FS, 'to_lowercase and to_uppercase construct their result differently (%s vs %s)' % (a, b))
    else:
        r1.fail('anchor/case-mapping', FS, 'to_lowercase / to_uppercase not found')
    r1.need(3)

    # ---------------- R18.2 (MIR: comparison facts dominating the call, whatever their spelling)
    r2 = ctx.rule('R18.2', 'substring/substr are called only after a bounds test on the start index')
    from .lib import guards, mirq as _mq
    from .lib.facts import strip_generics as _sg, op_place as _opp
    for b in ctx.mir.bodies:
        if not b.file.startswith('src/builtin/'):
            continue
        for bb, t_ in b.calls():
            nm = _sg(t_.get('callee') or '')
            if nm not in ('util::fenced_string::FencedString::substring', 'util::fenced_string::FencedString::substr') or len(t_['args']) < 2:
                continue
            fn = _sg(ctx.mir.enclosing_fn(b)) if b.kind == 'closure' else b.nid
            start = guards.origin_key(b, t_['args'][1])
            if start[0] == 'const':
                r2.inst({'fn': fn, 'call': nm.split('::')[-1], 'start': start[1], 'class': 'constant'}, kind=(b.nid, bb))
                continue
            recv = guards.origin_key(b, t_['args'][0])
            facts = guards.dominating_facts(b, bb)
            ok = guards.implies_ge(facts, ('len', recv), start)
            if not ok:
                # the receiver may be re-borrowed: compare against any len() fact whose receiver denotes the same local
                rp = _opp(t_['args'][0])
                root = guards.root_local(b, rp['l']) if rp is not None and not rp['p'] else None
                for op_, a_, b_ in facts:
                    for x_, y_ in ((a_, b_), (b_, a_)):
                        if x_[0] == 'len' and y_ == start and root is not None:
                            ok = ok or guards.implies_ge(facts, x_, start)
            r2.inst({'fn': fn, 'call': nm.split('::')[-1], 'start_le_len_established': ok}, ok=ok, kind=(b.nid, bb))
            if not ok:
                r2.fail('%s/%s/unchecked-start' % (fn.split('::')[-1], nm.split('::')[-1]), _mq.site(b, bb), '%s(start, ..) is not dominated by a comparison establishing start <= len of the same string: an out-of-range index slices past the buffer and crashes' % nm.split('::')[-1])
    r2.need(3)

    # ---------------- R18.5 byte offsets are never used as code-point indices (and vice versa): unit analysis on the MIR
    r5 = ctx.rule('R18.5', 'byte offsets of &str / regex searches are converted to code-point counts before being used or returned (and program indices before byte APIs)')
    unit_discipline(ctx, r5)
    r5.need(12)

    # ---------------- R18.3 escapes
    r3 = ctx.rule('R18.3', 'escape table agrees with the book')
    doc = ctx.book('lang/string_literals.md')
    documented = set(re.findall(r'`\\(.)`', doc)) | set(re.findall(r'\\\\(.)', doc))
    ae = [fn for f, fn, im in astq.all_fns(ast) if f == 'src/util/str_escapes.rs' and fn['name'] == 'apply_escapes']
    if not ae:
        r3.fail('anchor/apply_escapes', 'src/util/str_escapes.rs', 'apply_escapes not found')
    else:
        # the decoding may be spread over private helpers of the file: look at every non-test function of it
        fam = [fn['body'] for f, fn, im in astq.all_fns(ast) if f == 'src/util/str_escapes.rs' and not fn['name'].startswith('test') and fn['name'] != 'apply_brace_escape']
        famnode = {'k': 'family', 'bodies': fam}
        handled = set()
        for m, ps in find_nodes(famnode, lambda y: y.get('k') == 'match'):
            for a in m['arms']:
                pl = a['pat'].get('lit') or a['pat'].get('s') or ''
                m0 = re.fullmatch(r'"(\\?.)"', pl.strip())
                if m0:
                    handled.add(m0.group(1)[-1])
                for lit in re.findall(r"'(.)'", a['pat'].get('s') or ''):
                    handled.add(lit)
        handled_u = bool(find_nodes(famnode, lambda y: y.get('k') == 'mcall' and y['method'] in ('from_str_radix',) or (y.get('k') == 'call' and src(y['func']).endswith('from_str_radix'))))
        doc_simple = {c for c in documented if c in 'nrt0\\"\''}
        for c in sorted(doc_simple):
            ok = c in handled
            r3.inst({'escape': '\\' + c, 'handled': ok}, ok=ok, kind=c)
            if not ok:
                r3.fail('escape/%s' % (c if c.isalnum() else 'x%02x' % ord(c)), 'src/util/str_escapes.rs', 'documented escape \\%s has no handler arm' % c)
        for c in sorted(handled - doc_simple - {'u'}):
            if len(c) == 1 and c.isalpha():
                r3.inst({'escape': '\\' + c, 'documented': False}, ok=False)
                r3.fail('escape/%s/undocumented' % c, 'src/util/str_escapes.rs', 'escape \\%s is handled but not documented' % c)
        ok = 'u{' in doc and handled_u
        r3.inst({'escape': '\\u{...}', 'handled': handled_u}, ok=ok)
        if not ok:
            r3.fail('escape/unicode', 'src/util/str_escapes.rs', 'unicode escape handling / documentation mismatch')
        # the scalar value is validated (char::try_from / from_u32)
        okv = bool(find_nodes(famnode, lambda y: (y.get('k') == 'call' and re.search(r'char::(try_from|from_u32)$', src(y['func']))) or (y.get('k') == 'mcall' and y['method'] == 'try_into')))
        r3.inst({'unicode scalar validated': okv}, ok=okv)
        if not okv:
            r3.fail('escape/unicode-validation', 'src/util/str_escapes.rs', 'the code point of \\u{..} is not validated as a Unicode scalar value')
    r3.need(5)

    # ---------------- R18.4 literal handlers
    r4 = ctx.rule('R18.4', 'raw strings bypass escapes; quoted strings and f-string text parts are unescaped')
    pe = [fn for f, fn, im in astq.all_fns(ast) if f == 'src/parser.rs' and fn['name'] == 'parse_expr']
    if pe:
        for m, ps in find_nodes(pe[0]['body'], lambda y: y.get('k') == 'match'):
            if ps:
                continue
            for a in m['arms']:
                p = src(a['pat'])
                calls = [src(c['func']) for c, _ in find_nodes(a['body'], lambda y: y.get('k') == 'call')]
                if p == 'Rule::STRING':
                    ok = 'apply_escapes' in calls
                    r4.inst({'literal': 'quoted', 'apply_escapes': ok}, ok=ok)
                    if not ok:
                        r4.fail('STRING/escapes', 'src/parser.rs:%d' % a['line'], 'quoted string literals are not unescaped')
                if p == 'Rule::RAW_STRING':
                    ok = 'apply_escapes' not in calls and 'apply_brace_escape' not in calls
                    r4.inst({'literal': 'raw', 'bypasses_escapes': ok}, ok=ok)
                    if not ok:
                        r4.fail('RAW_STRING/escapes', 'src/parser.rs:%d' % a['line'], 'raw string literals are unescaped')
                if p == 'Rule::FORMATTED_STRING':
                    # on the MIR of parse_expr and its closures: the text handed to apply_brace_escape is the result of apply_escapes
                    # (through `?`, map_err, a named local, ...)
                    ok = False
                    from .lib import mirq as _mq2
                    from .lib.facts import strip_generics as _sg2, callee_name as _cn2, op_place as _op2
                    for b2 in ctx.mir.bodies:
                        if b2.file != 'src/parser.rs' or 'parse_expr' not in b2.nid:
                            continue
                        esc = {t2['dest']['l'] for bb2, t2 in b2.calls() if _sg2(_cn2(t2) or '').endswith('str_escapes::apply_escapes') and not t2['dest']['p']}
                        for bb2, t2 in b2.calls():
                            if _sg2(_cn2(t2) or '').endswith('str_escapes::apply_brace_escape') and t2['args']:
                                q2 = _op2(t2['args'][0])
                                if q2 is not None and _mq2.backslice(b2, [q2['l']]) & esc:
                                    ok = True
                    r4.inst({'literal': 'f-string text part', 'apply_escapes_then_brace_escape': ok}, ok=ok)
                    if not ok:
                        r4.fail('FORMATTED_STRING/escapes', 'src/parser.rs:%d' % a['line'], 'f-string text parts are not passed through apply_escapes then apply_brace_escape')
    r4.need(3)

    # ---------------- R18.6
    table_lookups(ctx)

    # ---------------- R18.7
    single_pass_unescape(ctx)
    table_entry_arithmetic(ctx)
    case_mapping_skip(ctx)
    escaped_delimiter_in_grammar(ctx)
    unicode_escape_pattern(ctx)


def table_lookups(ctx):
    """R18.6: the natives admit a start position equal to the length (the empty suffix; R18.2 tests `start > len`), so inside
    FencedString a caller-supplied position may be looked up in the code-point table only in a way that tolerates
    position == table length: `get`, a range slice, or an index dominated by a `position < len` test.  (Contradiction form: the
    end position is looked up with `get`, the start position must not be looked up with a panicking index.)"""
    from .lib import mirq
    from .lib.facts import op_place, strip_generics, callee_name
    r6 = ctx.rule('R18.6', 'caller-supplied positions are looked up in the code-point table only by length-tolerant accesses')
    for b in ctx.mir.bodies:
        if not b.nid.startswith('util::fenced_string::FencedString::'):
            continue
        for bb, t in b.calls():
            nm = strip_generics(callee_name(t) or '')
            is_index = nm.endswith('ops::Index>::index') or nm.endswith('ops::Index::index')
            is_get = nm.endswith('[T]>::get') or nm.endswith('Vec::get')
            if not (is_index or is_get) or len(t['args']) != 2:
                continue
            p0 = op_place(t['args'][0])
            if p0 is None:
                continue
            # the receiver is (a reference to) the code-point table
            def is_table(l, depth=6):
                for _ in range(depth):
                    ds = b.defs().get(l, [])
                    if len(ds) != 1:
                        return False
                    kind, dbb, idx, x = ds[0]
                    if kind == 'call':
                        n2 = strip_generics(callee_name(x) or '')
                        if n2.endswith('::deref') and x['args'] and op_place(x['args'][0]) is not None:
                            l = op_place(x['args'][0])['l']
                            continue
                        return False
                    rv = x['rv']
                    if rv['k'] in ('ref', 'copyderef', 'use', 'cast'):
                        pl = rv['place'] if 'place' in rv else op_place(rv['op'])
                        if pl is None:
                            return False
                        if any(isinstance(e, dict) and e.get('n') == 'char_starts' for e in pl['p']):
                            return True
                        l = pl['l']
                        continue
                    return False
                return False
            if not is_table(p0['l']):
                continue
            p1 = op_place(t['args'][1])
            ity = b.local_ty(p1['l']) if p1 is not None else ''
            if ity != 'usize':
                r6.inst({'fn': b.nid, 'access': 'range slice' if is_index else 'get', 'tolerates_len': True}, kind=(b.nid, bb))
                continue
            al, origins = mirq.move_origins(b, p1['l'])
            from_param = [o[3] for o in origins if o[2] == 'param']
            if is_get:
                r6.inst({'fn': b.nid, 'access': 'get', 'tolerates_len': True}, kind=(b.nid, bb))
                continue
            if not from_param:
                # an index computed here (e.g. len - 1 after an emptiness test): not a caller-supplied position
                r6.inst({'fn': b.nid, 'access': 'index by a locally computed position', 'tolerates_len': None}, kind=(b.nid, bb))
                continue
            # dominated by a test relating the position to a length?
            guarded = False
            for d in b.dominators().get(bb, ()):
                tm = b.term(d)
                if d == bb or tm['k'] != 'switch' or op_place(tm['discr']) is None:
                    continue
                sl = mirq.backslice(b, [op_place(tm['discr'])['l']])
                if set(from_param) & sl and any(c['dest']['l'] in sl and strip_generics(callee_name(c) or '').endswith('::len') for _, c in b.calls()):
                    guarded = True
            name = b.name_of_local(from_param[0]) or 'arg%d' % from_param[0]
            r6.inst({'fn': b.nid, 'access': 'index by parameter `%s`' % name, 'tolerates_len': guarded}, ok=guarded, kind=(b.nid, bb))
            if not guarded:
                r6.fail('%s/char_starts[%s]' % (b.nid, name), mirq.site(b, bb), 'the code-point table is indexed by the caller-supplied position `%s` without a length test: a position equal to the length (admitted by the natives: the empty suffix) panics on strings with a table (non-ASCII), while the table-less branch returns the empty string' % name)
    r6.need(4)


def single_pass_unescape(ctx):
    """R18.7: a string literal is decoded in ONE left-to-right scan.  Every scan of the escape pattern in str_escapes.rs
    (captures_iter / find_iter / replace_all / replace) runs over text that comes from the literal (a parameter of the public
    entry point), never over text that an earlier scan of the same file has already decoded (the result of a local decoding
    function, or a String this file has built).  Two passes decode `\\\\u{6e}` and `\\u{5c}n` twice."""
    from .lib import mirq
    from .lib.facts import strip_generics, op_place, callee_name
    mir = ctx.mir
    r7 = ctx.rule('R18.7', 'escape sequences are decoded in a single pass over the literal text')
    FILE = 'src/util/str_escapes.rs'
    bodies = [b for b in mir.bodies if b.file == FILE]
    local_fns = {b.nid for b in bodies if b.kind == 'fn'}

    def origin(b, local, depth=5):
        """'literal' when the text comes from a parameter of an entry point (a function of this file with no caller inside the
        file), through parameters of local helpers; otherwise a description of where it was produced"""
        k, v = mirq.chase(b, local)
        if k == 'arg':
            top = mir.by_id.get(mir.enclosing_fn(b)) if b.kind == 'closure' else b
            if b.kind == 'closure' or top is None:
                return 'literal'
            sites = [(cb, cbb, ct) for cb, cbb, ct in mir.callers_index().get(b.nid, []) if cb.file == FILE]
            if not sites or depth == 0:
                return 'literal'
            outs = set()
            for cb, cbb, ct in sites:
                ap = op_place(ct['args'][v - 1]) if v - 1 < len(ct['args']) else None
                outs.add(origin(cb, ap['l'], depth - 1) if ap is not None and not ap['p'] else 'literal')
            bad = outs - {'literal'}
            return next(iter(bad)) if bad else 'literal'
        if k == 'call':
            nm = strip_generics(callee_name(v[1]) or '')
            if nm in local_fns:
                return 'the result of %s' % nm.split('::')[-1]
            if re.search(r'(Deref>::deref|::as_str|::as_ref|::borrow|AsRef>::as_ref)$', nm) and v[1]['args'] and op_place(v[1]['args'][0]) is not None:
                return origin(b, op_place(v[1]['args'][0])['l'], depth)
            if re.search(r'Try>::branch|::unwrap|::expect', nm) and v[1]['args'] and op_place(v[1]['args'][0]) is not None:
                return origin(b, op_place(v[1]['args'][0])['l'], depth)
            return 'the result of %s' % nm.split('::')[-1]
        if k == 'rv':
            pl = v[2]['rv'].get('place') or (op_place(v[2]['rv']['op']) if v[2]['rv']['k'] == 'use' else None)
            if pl is not None:
                return origin(b, pl['l'], depth)
        return 'literal' if k == 'const' else 'unknown'
    for b in bodies:
        for bb, t in b.calls():
            nm = strip_generics(callee_name(t) or '')
            if not re.search(r'regex::.*Regex::(captures_iter|find_iter|replace_all|replace|replacen|captures|find)$', nm) or len(t['args']) < 2:
                continue
            hp = op_place(t['args'][1])
            o = origin(b, hp['l']) if hp is not None and not hp['p'] else 'unknown'
            ok = o == 'literal'
            r7.inst({'fn': b.nid, 'scan': nm.split('::')[-1], 'scanned_text': o}, ok=ok, kind=(b.nid, bb))
            if not ok:
                r7.fail('%s/second-pass' % b.nid, mirq.site(b, bb), 'the escape pattern is scanned over %s, i.e. over text that has already been decoded once: a backslash produced by the first pass (from `\\\\\\\\` or `\\\\u{5c}`) starts a new escape in the second' % o)
    r7.need(1)


# ---------------------------------------------------------------------------------------------------------------------------------
# R18.8 arithmetic on entries of the char-start table
# ---------------------------------------------------------------------------------------------------------------------------------
def _fs_units(mir, body, op, depth=4, _seen=None):
    """units of a usize operand inside fenced_string.rs: 'table' (an entry of a char-start table: a byte offset), 'byte' (a length
    of a buffer / &str), 'cp' (an index or count of characters: usize / Option<usize> parameters of the methods, the length of a
    table, FencedString::len), 'const'.  Backwards over data dependences; an element access follows the collection only (the index
    is what is being converted); a closure parameter takes the units of the receiver of the adaptor the closure is handed to, a
    captured variable those of the captured operand."""
    from .lib import mirq
    from .lib.facts import op_place, strip_generics, callee_name
    out = set()
    if 'const' in op:
        return {'const'}
    p0 = op_place(op)
    if p0 is None:
        return out
    seen = _seen if _seen is not None else set()
    defs = body.defs()

    def visit_place(p):
        names = [e.get('n') for e in p['p'] if isinstance(e, dict) and 'n' in e]
        if 'char_starts' in names:
            out.add('table')
            return
        if 'buffer' in names:
            return
        if body.kind == 'closure' and p['l'] == 1:
            fs = [e['f'] for e in p['p'] if isinstance(e, dict) and 'f' in e]
            if fs and depth > 0:
                for pb, bb, j in mirq.closure_creation_sites(mir, body.id):
                    ops = pb.blocks[bb]['stmts'][j]['rv'].get('ops') or []
                    if fs[0] < len(ops):
                        out.update(_fs_units(mir, pb, ops[fs[0]], depth - 1))
            return
        f0 = next((e['f'] for e in p['p'] if isinstance(e, dict) and 'f' in e and 'dc' not in e), None)
        if f0 is not None and p['p'] and isinstance(p['p'][0], dict) and p['p'][0].get('f') == f0:
            want_field[p['l']] = f0
        visit_local(p['l'])

    want_field = {}

    def visit_local(l):
        if (body.id, l) in seen:
            return
        seen.add((body.id, l))
        ds = defs.get(l, [])
        if not ds and 1 <= l <= body.d['argc']:
            if body.kind == 'closure':
                if depth <= 0:
                    return
                for pb, bb, j in mirq.closure_creation_sites(mir, body.id):
                    cl = pb.blocks[bb]['stmts'][j]['place']['l']
                    holders = {cl}
                    for cbb, ct in pb.calls():
                        als = [op_place(a) for a in ct['args']]
                        if any(a is not None and not a['p'] and a['l'] in holders for a in als):
                            for a, o in zip(als, ct['args']):
                                if a is not None and a['l'] not in holders:
                                    out.update(_fs_units(mir, pb, o, depth - 1))
                return
            ty = (body.local_ty(l) or '').replace(' ', '')
            # a private helper of the file (all its callers are in the file): its parameter is what the callers hand over
            sites = [c for c in mir.callers_index().get(body.nid, []) if c[0].nid != body.nid]
            if sites and all(c[0].file == FS for c in sites) and depth > 0:
                for cb, cbb, ct in sites:
                    if l - 1 < len(ct['args']):
                        out.update(_fs_units(mir, cb, ct['args'][l - 1], depth - 1))
                return
            if ty in ('usize', 'std::option::Option<usize>', '&usize'):
                out.add('cp')
            return
        for kind, bb, idx, x in ds:
            if kind == 'call':
                nm = strip_generics(callee_name(x) or x.get('decl') or '')
                a0 = ((x.get('argtys') or [''])[0] or '').replace(' ', '')
                if nm.endswith('::len'):
                    if nm == 'util::fenced_string::FencedString::len':
                        out.add('cp')
                    elif 'usize' in a0:
                        out.add('cp')
                    else:
                        out.add('byte')
                    continue
                if nm in ('util::fenced_string::FencedString::bytes', 'core::char::methods::<impl char>::len_utf8'):
                    out.add('byte')
                    continue
                if nm.endswith('CharIndices as std::iter::Iterator>::next') or 'CharIndices' in a0:
                    out.add('byte')
                    continue
                if re.search(r'::(get|get_unchecked|index|first|last|get_mut|index_mut)$', nm) and x['args']:
                    p = op_place(x['args'][0])
                    if p is not None:
                        visit_place(p)
                    continue
                # a function of this file (a helper returning byte bounds): what it returns
                cal = x.get('callee')
                cb_ = mir.by_id.get(cal) if cal else None
                if cb_ is None and cal:
                    cs_ = mir.by_nid.get(strip_generics(cal), [])
                    cb_ = cs_[0] if len(cs_) == 1 else None
                if cb_ is not None and cb_.file == FS and cb_.kind == 'fn' and depth > 0 and cb_.id != body.id:
                    fld = want_field.get(l)
                    tuples = [s2['rv'] for _, _, s2 in cb_.stmts() if s2['k'] == 'assign' and not s2['place']['p'] and s2['place']['l'] == 0 and s2['rv']['k'] == 'agg' and s2['rv'].get('ak') == 'tuple']
                    if fld is not None and tuples and all(fld < len(tv['ops']) for tv in tuples):
                        # only the component that is read: (start_byte, end_byte) = self.byte_bounds(..)
                        for tv in tuples:
                            out.update(_fs_units(mir, cb_, tv['ops'][fld], depth - 1))
                    else:
                        out.update(_fs_units(mir, cb_, {'copy': {'l': 0, 'p': []}}, depth - 1))
                    continue
                # closures handed to adaptors: what they return
                has_closure = False
                for a in x['args']:
                    p = op_place(a)
                    if p is not None and not p['p']:
                        k2, v2 = mirq.chase(body, p['l'])
                        if k2 == 'rv' and v2[2]['rv']['k'] == 'agg' and v2[2]['rv'].get('ak') == 'closure':
                            has_closure = True
                value_from_closure = has_closure and re.search(r'::(map|and_then|then|filter_map|map_or_else)$', nm) is not None
                for a in x['args']:
                    p = op_place(a)
                    if p is None:
                        continue
                    if not p['p']:
                        k2, v2 = mirq.chase(body, p['l'])
                        if k2 == 'rv' and v2[2]['rv']['k'] == 'agg' and v2[2]['rv'].get('ak') == 'closure':
                            cb = mir.by_id.get(v2[2]['rv'].get('def'))
                            if cb is not None and depth > 0:
                                out.update(_fs_units(mir, cb, {'copy': {'l': 0, 'p': []}}, depth - 1))
                            continue
                    if value_from_closure:
                        continue      # opt.and_then(|e| table.get(e)): the value is what the closure yields; the receiver only decides whether
                    visit_place(p)
            else:
                rv = x['rv']
                for key in ('op', 'a', 'b'):
                    if isinstance(rv.get(key), dict):
                        if 'const' in rv[key]:
                            out.add('const')
                        p = op_place(rv[key])
                        if p is not None:
                            visit_place(p)
                if 'place' in rv:
                    visit_place(rv['place'])
                for o in rv.get('ops', []):
                    p = op_place(o)
                    if p is not None:
                        visit_place(p)
    visit_place(p0)
    return out


def table_entry_arithmetic(ctx):
    """R18.8: the entries of a char-start table are byte offsets into the buffer.  Wherever an entry is added to / subtracted from
    something (re-basing the table of a slice, shifting the table of an appended string, the gap test of the constructor), the
    other operand is a byte quantity too (an entry, a buffer length) or a constant -- never a character index or count."""
    from .lib import mirq
    from .lib.facts import strip_generics, callee_name
    mir = ctx.mir
    r8 = ctx.rule('R18.8', 'entries of the char-start table (byte offsets) are combined only with byte quantities')
    for b in mir.bodies:
        if b.file != FS or '::tests::' in b.nid:
            continue
        sites = []
        for i, j, s in b.stmts():
            if s['k'] == 'assign' and s['rv']['k'] == 'bin' and s['rv']['op'] in ('Add', 'Sub', 'AddWithOverflow', 'SubWithOverflow', 'AddUnchecked', 'SubUnchecked'):
                sites.append((mirq.site(b, i, j), s['rv']['op'], s['rv']['a'], s['rv']['b'], (i, j)))
        for bb, t in b.calls():
            nm = callee_name(t) or ''
            m = re.search(r'as std::ops::(Add|Sub)(<[^>]*>)?>::(add|sub)$', nm)
            if m and len(t['args']) == 2 and 'usize' in nm:
                sites.append((mirq.site(b, bb), m.group(1), t['args'][0], t['args'][1], (bb, 'call')))
        for where, op, a, o2, key in sites:
            ua, ub = _fs_units(mir, b, a), _fs_units(mir, b, o2)
            if 'table' not in ua and 'table' not in ub:
                continue
            ok = 'cp' not in ua and 'cp' not in ub
            fn = strip_generics(mir.enclosing_fn(b)) if b.kind == 'closure' else b.nid
            r8.inst({'fn': fn, 'site': where, 'op': op, 'left': sorted(ua), 'right': sorted(ub)}, ok=ok, kind=(b.nid, key))
            if not ok:
                r8.fail('%s/table-entry-%s-char-count' % (fn.split('::')[-1], op.lower()[:3]), where, 'an entry of the char-start table (a byte offset) is %s a character index / count: the table of the result no longer points at the starts of its characters for text with multi-byte characters before the slice (substring(1, ..) of "éa" yields a table starting at 1 instead of 0)' % ('reduced by' if op.startswith('Sub') else 'added to'))
    r8.need(1)


def case_mapping_skip(ctx):
    """R18.9: to_lowercase / to_uppercase answer None ("nothing to map, keep the original") on a fast path.  That answer is right
    only if every character is its own image.  `all chars are lowercase` implies it; `no char is uppercase` does not (titlecase
    letters such as U+01C5 are neither and have both mappings).  Decided on the MIR: the None answer is reached on the edge of a
    quantifier over the characters; that quantifier, normalised to a universal statement (all(P) true, or any(P) false = all(not P)),
    must state the predicate of the *target* case, un-negated.  A function with no None answer, or one that compares the mapped
    text with the original, is fine."""
    from .lib import mirq
    from .lib.facts import strip_generics, callee_name, op_place
    mir = ctx.mir
    r9 = ctx.rule('R18.9', 'the keep-the-original fast path of a case mapping is taken only when every character already has the target case')
    for fname, same, opp in (('to_lowercase', 'is_lowercase', 'is_uppercase'), ('to_uppercase', 'is_uppercase', 'is_lowercase')):
        bs = [b for b in mir.bodies if b.nid == 'util::fenced_string::FencedString::' + fname]
        if not bs:
            r9.fail('anchor/' + fname, FS, '%s not found' % fname)
            continue
        b = bs[0]
        none_blocks = [i for i, j, s in b.stmts() if s['k'] == 'assign' and not s['place']['p'] and s['place']['l'] == 0 and s['rv']['k'] == 'agg' and s['rv'].get('v') == 'None']
        if not none_blocks:
            r9.inst({'fn': fname, 'fast_path': 'none: always maps'}, ok=True, kind=fname)
            continue
        verdicts = []
        for bb, t in b.calls():
            nm = strip_generics(t.get('decl') or t.get('callee') or '')
            if nm not in ('std::iter::Iterator::all', 'std::iter::Iterator::any') or len(t['args']) < 2:
                continue
            kind = nm.split('::')[-1]
            # the predicate: a function item or a closure around one
            preds, pneg = set(), False
            a = t['args'][1]
            if 'const' in a:
                preds |= set(re.findall(r'is_(?:lowercase|uppercase|alphabetic|ascii_\w+)', a['const'].get('s') or ''))
            else:
                p = op_place(a)
                k2, v2 = mirq.chase(b, p['l']) if p is not None and not p['p'] else (None, None)
                cb = mir.by_id.get(v2[2]['rv'].get('def')) if k2 == 'rv' and v2[2]['rv']['k'] == 'agg' and v2[2]['rv'].get('ak') == 'closure' else None
                if cb is not None:
                    for cbb, ct in cb.calls():
                        preds |= set(re.findall(r'is_(?:lowercase|uppercase)', strip_generics(callee_name(ct) or '')))
                    pneg = sum(1 for _, _, s2 in cb.stmts() if s2['k'] == 'assign' and s2['rv']['k'] == 'un' and s2['rv']['op'] == 'Not') % 2 == 1
            # which truth value of the quantifier leads to the None answer?
            cur, negs, pol = t['dest']['l'], 0, None
            for _ in range(6):
                sws = [i2 for i2 in range(len(b.blocks)) if b.term(i2)['k'] == 'switch' and op_place(b.term(i2)['discr']) is not None and op_place(b.term(i2)['discr'])['l'] == cur]
                if sws:
                    t2 = b.term(sws[0])
                    false_t = [x for v, x in t2['targets'] if str(v) == '0']
                    true_t = t2['otherwise']
                    r_true = b.reachable(true_t) | {true_t}
                    r_false = (b.reachable(false_t[0]) | {false_t[0]}) if false_t else set()
                    on_true = any(n_ in r_true for n_ in none_blocks) and not any(n_ in r_false for n_ in none_blocks)
                    on_false = any(n_ in r_false for n_ in none_blocks) and not any(n_ in r_true for n_ in none_blocks)
                    if on_true != on_false:
                        pol = on_true if negs % 2 == 0 else not on_true
                    break
                nxt = None
                for i2, j2, s2 in b.stmts():
                    if s2['k'] == 'assign' and not s2['place']['p']:
                        if s2['rv']['k'] == 'un' and s2['rv']['op'] == 'Not' and op_place(s2['rv']['a']) is not None and op_place(s2['rv']['a'])['l'] == cur:
                            nxt, negs = s2['place']['l'], negs + 1
                        elif s2['rv']['k'] == 'use' and op_place(s2['rv']['op']) is not None and op_place(s2['rv']['op'])['l'] == cur:
                            nxt = s2['place']['l']
                if nxt is None:
                    break
                cur = nxt
            if pol is None or len(preds) != 1:
                verdicts.append((bb, 'unrecognised', '%s over %s' % (kind, sorted(preds) or 'an unrecognised predicate')))
                continue
            pred = next(iter(preds))
            universal = (kind == 'all' and pol) or (kind == 'any' and not pol)
            negated = pneg if kind == 'all' else not pneg
            if not universal:
                verdicts.append((bb, 'bad', 'None is answered when SOME character satisfies %s%s' % ('not ' if pneg else '', pred)))
            elif pred == same and not negated:
                verdicts.append((bb, 'good', 'every character %s' % pred))
            elif pred == opp:
                verdicts.append((bb, 'bad', 'every character %s%s' % ('not ' if negated else '', pred)))
            else:
                verdicts.append((bb, 'unrecognised', 'every character %s%s' % ('not ' if negated else '', pred)))
        bad = [v for v in verdicts if v[1] == 'bad']
        r9.inst({'fn': fname, 'fast_path_condition': [v[2] for v in verdicts] or ['no quantifier over the characters (e.g. compares the mapped text)']}, ok=not bad, kind=fname)
        for bb, _, what in bad:
            r9.fail('%s/skip-condition' % fname, mirq.site(b, bb), '%s keeps the original text when: %s.  That does not imply that every character is its own image: titlecase letters (U+01C5, U+1F88, ...) are neither uppercase nor lowercase and are mapped by both, so "\\u{1C5}".%s() stays unmapped' % (fname, what, 'lower' if fname == 'to_lowercase' else 'upper'))
    r9.need(2)


def escaped_delimiter_in_grammar(ctx):
    """R18.10: the book lists `\\"` and `\\'` among the escape sequences.  In a literal delimited by the same quote the escape only
    works if the *grammar* consumes backslash + delimiter as one unit -- otherwise the quote after the backslash ends the literal.
    For every string-body rule that treats backslashes specially (it has the `\\\\` alternative: quoted and formatted strings, not
    raw ones), the alternatives consumed before the fallback ANY contain the two-character literal backslash + own delimiter."""
    g = ctx.grammar
    r10 = ctx.rule('R18.10', 'string bodies consume an escaped delimiter as a unit (the documented \\" and \\\' work inside literals of the same quote)')

    def leaves(e):
        if e['k'] == 'choice':
            return leaves(e['a']) + leaves(e['b'])
        return [e]
    n = 0
    for r in g['rules']:
        e = r['expr']
        if e['k'] in ('rep', 'reponce'):
            e = e['e']
        else:
            continue
        if not (e['k'] == 'seq' and e['a']['k'] == 'negpred'):
            continue
        stop = e['a']['e']
        if not (stop['k'] == 'seq' and stop['a']['k'] == 'str' and stop['b'].get('v') == 'PEEK'):
            continue
        delim = stop['a']['v']
        alts = [x['v'] for x in leaves(e['b']) if x['k'] == 'str']
        if '\\\\' not in alts:
            continue     # a raw body: backslashes mean nothing
        n += 1
        ok = ('\\' + delim) in alts
        r10.inst({'rule': r['name'], 'delimiter': delim, 'unit_alternatives': alts, 'escaped_delimiter_consumed': ok}, ok=ok, kind=r['name'])
        if not ok:
            r10.fail('grammar/%s/escaped-delimiter' % r['name'], 'src/xray.pest', 'the body rule `%s` of a literal delimited by %s has no alternative for backslash + %s (its unit alternatives are %s): the documented escape \\%s ends the literal instead of denoting the quote (%sa\\%sb%s is a syntax error)' % (r['name'], delim, delim, alts, delim, delim, delim, delim))
    r10.need(4)


def unicode_escape_pattern(ctx):
    """R18.11: the book: `\\u{xxxxxx}` - hexadecimal character code (between 1 and 6 hexadecimal digits).  The code between the braces
    is validated by a regular expression before it is parsed with from_str_radix (which would accept a sign).  That expression
    must describe the *whole* code: anchored at both ends, a class of hexadecimal digits, one to six of them."""
    from .lib import mirq
    from .lib.facts import strip_generics, callee_name
    mir = ctx.mir
    r11 = ctx.rule('R18.11', 'the code of a \\u{..} escape is validated as a whole: 1 to 6 hexadecimal digits, nothing else')
    pats = []
    for b in mir.bodies:
        if b.file != 'src/util/str_escapes.rs' or '::tests::' in b.nid:
            continue
        for bb, t in b.calls():
            if strip_generics(callee_name(t) or '') != 'regex::Regex::new' or not t['args']:
                continue
            k, c = mirq.chase_op(b, t['args'][0])
            lit = None
            if k == 'const':
                lit = c.get('s')
            if lit is None:
                continue
            lit = lit.strip('"')
            pats.append((b, bb, lit))
    cands = [(b, bb, p) for b, bb, p in pats if re.search(r'\{1,\d+\}', p) or 'a-f' in p.lower()]
    if not cands:
        # no separate validation pattern: fine only if the escape pattern itself restricts the code
        esc = [(b, bb, p) for b, bb, p in pats if 'u\\{' in p or 'u\\\\{' in p]
        ok = any(re.search(r'u\\+\{\[[0-9a-fA-F\-]+\]\{1,6\}\\+\}', p) for b, bb, p in esc)
        r11.inst({'validation': 'inside the escape pattern', 'restricts_the_code': ok}, ok=ok, kind='inline')
        if not ok:
            r11.fail('unicode-escape/no-validation', 'src/util/str_escapes.rs', 'no pattern restricts the code of \\u{..} to 1-6 hexadecimal digits')
    for b, bb, p in cands:
        anchored = (p.startswith('^') or p.startswith('\\A')) and (p.endswith('$') or p.endswith('\\z'))
        core = re.sub(r'^(\^|\\A)|(\$|\\z)$', '', p)
        shape = re.fullmatch(r'\[(?:a-fA-F0-9|0-9a-fA-F|A-Fa-f0-9|0-9A-Fa-f|[0-9a-fA-F\-]+)\]\{1,6\}', core) is not None
        ok = anchored and shape
        r11.inst({'pattern': p, 'anchored_at_both_ends': anchored, 'one_to_six_hex_digits': shape}, ok=ok, kind=p)
        if not ok:
            r11.fail('unicode-escape/pattern', mirq.site(b, bb), 'the pattern `%s` that validates the code of \\u{..} %s: "\\u{+41}" and "\\u{0000041}" are accepted as "A" although the book allows 1 to 6 hexadecimal digits' % (p, 'is not anchored at both ends (a suffix of the code is enough to match)' if not anchored else 'does not describe 1-6 hexadecimal digits'))
    r11.need(1)
