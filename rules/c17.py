"""C17 — mappings and sets are finite maps under any consistent hash.  Structural clauses:
  R17.1  persistence: values are immutable after construction (shared audit R15.1); updates clone first
  R17.2  len maintenance: each insertion of a new key is paired with exactly one `len += 1`, overwriting with none,
         each removal builds the new collection with `len - 1` under a Found match
  R17.3  lookup shape: locate hashes with hash_func, converts with to_u64 (out-of-bounds error), scans the bucket with
         eq_func(key, k); outcomes Vacant / Missing / Found; XMapping::locate and XSet::locate agree (siblings)
  R17.4  bucket-table canonical form: hash/size fold over all buckets, so no producer may store an empty bucket
  R17.5  location discipline (MIR): a KeyLocation is used only on the collection state `locate` computed it on
"""
import re
from .lib import astq, immut, mirq
from .lib.facts import find_nodes, op_place, strip_generics, callee_name

FILES = ('src/builtin/mapping.rs', 'src/builtin/set.rs')


def src(n):
    return re.sub(r'\s+', '', n.get('s') or '')


def skeleton(fn):
    """ordered list of call / method names of a function body (type-independent shape)"""
    out = []

    def vis(n, ps):
        if n.get('k') == 'mcall':
            out.append('.' + n['method'])
        elif n.get('k') == 'call' and n['func'].get('k') == 'path':
            out.append(n['func']['path'].split('::')[-1])
        elif n.get('k') == 'macro':
            out.append('!' + n['name'].split('::')[-1])
        elif n.get('k') == 'struct' or (n.get('k') == 'path' and re.search(r'KeyLocation::(\w+)$', n['path'])):
            m = re.search(r'KeyLocation::(\w+)$', n.get('path', ''))
            if m:
                out.append('KeyLocation::' + m.group(1))
    from .lib.facts import walk
    walk(fn['body'], vis)
    return out


def run(ctx):
    ast = ctx.ast
    ctx.explanation = ('Persistence by the immutability audit; pairing of every new-key insertion with one length increment and of every removal with '
                       'len-1 under a Found match; sibling agreement of the two locate routines; no empty bucket is ever stored (hash and size fold over buckets).')
    ctx.trusted = ['syn parse', 'rustc borrow checking: &mut methods cannot be applied to a value behind Rc']
    ctx.assumptions = ['behaviour under arbitrary consistent hash functions (value level) is NOT decided']
    r1 = ctx.rule('R17.1', 'values immutable after construction (shared audit)')
    immut.audit(ctx, r1)
    fns = [(f, fn, im) for f, fn, im in astq.all_fns(ast) if f in FILES]
    # updating methods clone first
    for f, fn, im in fns:
        if fn['name'] in ('with_update',):
            def fresh(y):
                if not (y.get('k') == 'let' and y['pat'].get('k') == 'pident' and y['pat'].get('mut') and y.get('init') is not None):
                    return False
                i = y['init']
                if src(i) == 'self.clone()':
                    return True
                # Self::new(.., self.inner.clone(), ..): a new collection over a copy of the table
                return i.get('k') == 'call' and src(i['func']) == 'Self::new' and any(src(a) == 'self.inner.clone()' for a in i['args'])
            ok = bool(find_nodes(fn['body'], fresh))
            r1.inst({'fn': fn['name'], 'file': f, 'clones_first': ok}, ok=ok)
            if not ok:
                r1.fail('%s/%s/no-clone' % (f, fn['name']), '%s:%d' % (f, fn['line']), 'bulk update does not start from a clone of the receiver')

    # ---------------- R17.2
    r2 = ctx.rule('R17.2', 'len is incremented exactly once per new key and never on overwrite; removals use len-1 under Found')
    for f, fn, im in fns:
        if True:
            for m, ps in find_nodes(fn['body'], lambda y: y.get('k') == 'match'):
                arms = {}
                for a in m['arms']:
                    mm = re.search(r'KeyLocation::(\w+)', re.sub(r'\s+', '', a['pat'].get('s') or ''))
                    if mm:
                        arms[mm.group(1)] = a
                if not {'Found', 'Missing', 'Vacant'} <= set(arms):
                    continue
                for kind, a in arms.items():
                    incs = find_nodes(a['body'], lambda y: y.get('k') == 'binary' and y['op'] == '+=' and re.fullmatch(r'\w+\.len', src(y['left'])) and src(y['right']) == '1')
                    other = find_nodes(a['body'], lambda y: (y.get('k') == 'binary' and y['op'] in ('-=', '+=') or y.get('k') == 'assign') and re.fullmatch(r'\w+\.len', src(y['left'])))
                    want = 0 if kind == 'Found' else 1
                    ok = len(incs) == want and len(other) == len(incs)
                    # the increment must not be skipped by an early `?`/return placed after the insertion... it must follow the insertion
                    r2.inst({'file': f, 'fn': fn['name'], 'arm': kind, 'len_increments': len(incs)}, ok=ok, kind=(f, fn['name'], kind))
                    if not ok:
                        r2.fail('%s/%s/%s' % (f.split('/')[-1], fn['name'], kind), '%s:%d' % (f, a['line']), 'arm %s changes len %d time(s) (expected %d): length drifts from the number of keys' % (kind, len(other), want))
    # removals
    n_rm = 0
    for f, fn, im in fns:
        for c, ps in find_nodes(fn['body'], lambda y: y.get('k') == 'call' and re.search(r'(XMapping|XSet)::new$', y['func'].get('path', '')) and len(y['args']) == 4):
            last = src(c['args'][3])
            if re.search(r'\.len-1$', last):
                n_rm += 1
                # under a let-else / match on KeyLocation::Found
                found = bool(find_nodes(fn['body'], lambda y: y.get('k') == 'let' and 'KeyLocation::Found' in re.sub(r'\s+', '', y['pat'].get('s') or '') and y.get('else') is not None and y['line'] < c['line']))
                r2.inst({'file': f, 'fn': fn['name'], 'removal_builds_len_minus_1_after_Found': found}, ok=found, kind=(f, fn['name'], 'rm'))
                if not found:
                    r2.fail('%s/%s/removal' % (f.split('/')[-1], fn['name']), '%s:%d' % (f, c['line']), 'a collection is rebuilt with len-1 without a preceding KeyLocation::Found match')
    if n_rm < 4:
        r2.fail('anchor/removals', '-', 'expected the four removal natives (pop, discard, remove, discard)')
    r2.need(8)

    # ---------------- R17.3
    r3 = ctx.rule('R17.3', 'XMapping::locate and XSet::locate have the same shape')
    locs = {f: fn for f, fn, im in fns if fn['name'] == 'locate' and im is not None}
    if len(locs) != 2:
        r3.fail('anchor/locate', '-', 'expected two locate functions')
    else:
        sk = {f: skeleton(fn) for f, fn in locs.items()}
        a, b = sk[FILES[0]], sk[FILES[1]]
        ok = a == b
        r3.inst({'mapping_locate': a[:12], 'equal_shape': ok}, ok=ok)
        if not ok:
            diff = [(i, x, y) for i, (x, y) in enumerate(zip(a, b)) if x != y][:3]
            r3.fail('locate/siblings', FILES[1], 'the two locate routines differ in shape at %s (lengths %d/%d)' % (diff, len(a), len(b)))
        for f, s_ in sk.items():
            need = ['.to_u64', '.eval_func_with_values', 'KeyLocation::Vacant', 'KeyLocation::Found', 'KeyLocation::Missing']
            miss = [x for x in need if x not in s_]
            n_calls = s_.count('.eval_func_with_values')
            ok = not miss and n_calls == 2
            r3.inst({'file': f, 'hash_then_eq_calls': n_calls, 'missing': miss}, ok=ok, kind=f)
            if not ok:
                r3.fail('%s/locate/shape' % f.split('/')[-1], f, 'locate lost a step: %s (function calls: %d)' % (miss, n_calls))
        # eq is applied as eq_func(key, k): probe key first
        for f, fn in locs.items():
            vecs = [m for m, _ in find_nodes(fn['body'], lambda y: y.get('k') == 'macro' and y['name'] == 'vec' and len(y.get('args') or []) == 2)]
            p1 = fn['inputs'][1]['pat'].get('name') if len(fn['inputs']) > 1 and 'pat' in fn['inputs'][1] else 'key'
            ok = any(src(v['args'][0]).startswith('Ok(%s.clone())' % p1) for v in vecs)
            r3.inst({'file': f, 'eq_called_as': 'eq(key, stored)'}, ok=ok, kind=(f, 'eqorder'))
            if not ok:
                r3.fail('%s/locate/eq-order' % f.split('/')[-1], f, 'eq_func is not applied as eq(key, stored_key)')
    r3.need(4)

    # ---------------- R17.4
    r4 = ctx.rule('R17.4', 'no producer stores an empty bucket (hash / size fold over buckets)')
    for f, fn, im in fns:
        for c, ps in find_nodes(fn['body'], lambda y: y.get('k') == 'mcall' and y['method'] == 'insert' and len(y['args']) == 2 and 'dict' in src(y['recv'])):
            val = c['args'][1]
            vs = src(val)
            # a bucket obtained by removing from another one
            shrunk = ('.skip(' in vs or '.filter(' in vs or '.take(' in vs or '.remove(' in vs)
            name = val.get('path') if val.get('k') == 'path' else None
            if name:
                for st, _ in find_nodes(fn['body'], lambda y: y.get('k') == 'let' and y['pat'].get('k') in ('pident', 'ptype') and y.get('init') is not None):
                    pn = st['pat'] if st['pat'].get('k') == 'pident' else st['pat']['pat']
                    if pn.get('name') == name:
                        i2 = src(st['init'])
                        shrunk = shrunk or ('.skip(' in i2 or '.filter(' in i2 or '.take(' in i2)
            if not shrunk:
                continue
            guarded = any(p.get('k') == 'if' and 'is_empty()' in src(p['cond']) and src(p['cond']).startswith('!') for p in ps)
            r4.inst({'file': f, 'fn': fn['name'], 'insert_of_shrunken_bucket_guarded': guarded}, ok=guarded, kind=(f, fn['name'], c['line'] - fn['line']))
            if not guarded:
                r4.fail('%s/%s/empty-bucket' % (f.split('/')[-1], fn['name']), '%s:%d' % (f, c['line']), 'a bucket from which an element was removed is stored without a non-emptiness test: an empty bucket changes hash() of an equal collection')
    r4.need(4)

    # ---------------- R17.5
    location_discipline(ctx)


COLL = re.compile(r'builtin::(mapping::XMapping|set::XSet)<')
PASS_ALONG = ('::branch', '::found', '::as_ref', '::unwrap', '::expect', '::clone', '::as_mut', '::take')


def _identity(body, place, depth=16):
    """which collection a receiver place denotes: follow references / copies / field projections back to the local that holds
    (or borrows) the collection.  Returns (key, via_clone_of) where key is ('arg', n) | ('call', bb) | ('multi', l) | None and,
    for a value produced by Clone::clone / a rebuild from the receiver's own table, the identity it was copied from."""
    cur = place['l']
    is_coll = False
    for _ in range(depth):
        if COLL.search(body.local_ty(cur) or ''):
            is_coll = True
        ds = body.defs().get(cur, [])
        if not ds:
            if 1 <= cur <= body.d['argc']:
                return (('arg', cur) if is_coll else None), None
            return None, None
        if len(ds) > 1:
            return (('multi', cur) if is_coll else None), None
        kind, bb, idx, x = ds[0]
        if kind == 'call':
            nm = strip_generics(callee_name(x) or '')
            src_id = None
            if nm.endswith('::clone') and x['args'] and op_place(x['args'][0]) is not None:
                src_id = _identity(body, op_place(x['args'][0]), depth - 1)[0]
            return (('call', bb) if is_coll else None), src_id
        rv = x['rv']
        if rv['k'] in ('ref', 'copyderef', 'rawptr'):
            cur = rv['place']['l']
            continue
        if rv['k'] in ('use', 'cast') and op_place(rv['op']) is not None:
            cur = op_place(rv['op'])['l']
            continue
        return (('rv', cur) if is_coll else None), None
    return None, None


def _tainted(body, start):
    t = {start}
    changed = True
    while changed:
        changed = False
        for i, j, s in body.stmts():
            if s['k'] != 'assign' or s['place']['l'] in t:
                continue
            rv = s['rv']
            if rv['k'] == 'discr':
                continue
            srcs = set()
            for key in ('op', 'a', 'b'):
                if isinstance(rv.get(key), dict) and op_place(rv[key]) is not None:
                    srcs.add(op_place(rv[key])['l'])
            if 'place' in rv:
                srcs.add(rv['place']['l'])
            for o in rv.get('ops', []):
                if op_place(o) is not None:
                    srcs.add(op_place(o)['l'])
            if srcs & t and not s['place']['p']:
                t.add(s['place']['l'])
                changed = True
        for bb, c in body.calls():
            nm = strip_generics(callee_name(c) or '')
            if nm.endswith(PASS_ALONG) and not c['dest']['p'] and c['dest']['l'] not in t and c['args'] and op_place(c['args'][0]) is not None and op_place(c['args'][0])['l'] in t:
                t.add(c['dest']['l'])
                changed = True
    return t


def _mutations(body, ident):
    """blocks in which the collection `ident` is written: calls handing out `&mut` to it (or to a part of it), field assignments"""
    out = []
    for bb, c in body.calls():
        if not c['args']:
            continue
        p = op_place(c['args'][0])
        if p is None or p['p']:
            continue
        if not (body.local_ty(p['l']) or '').startswith('&mut'):
            continue
        if _identity(body, p)[0] == ident:
            out.append(bb)
    for i, j, s in body.stmts():
        if s['k'] == 'assign' and s['place']['p'] and _identity(body, {'l': s['place']['l'], 'p': []})[0] == ident:
            out.append(i)
    return out


def _reach(body, start_blocks, avoid):
    seen = set()
    todo = list(start_blocks)
    while todo:
        b = todo.pop()
        if b in seen or b in avoid:
            continue
        seen.add(b)
        todo.extend(body.succ(b))
    return seen


def location_discipline(ctx):
    """R17.5: a KeyLocation describes one state of one bucket table.  Every use of a location (put_located, try_put_located, get,
    or a HashMap operation keyed by its hash) must be applied to the collection `locate` was called on, in the state it had then:
    either the same collection with no write in between, or a clone of it that has not been written since it was cloned."""
    r5 = ctx.rule('R17.5', 'a key location is used on the collection state it was computed on')
    n = 0
    for b in ctx.mir.bodies:
        if b.file not in FILES:
            continue
        for lbb, lt in b.calls():
            nm = strip_generics(callee_name(lt) or '')
            if not re.search(r'builtin::(mapping::XMapping|set::XSet)::locate$', nm) or lt['dest']['p']:
                continue
            rp = op_place(lt['args'][0])
            x_id = _identity(b, rp)[0] if rp is not None else None
            taint = _tainted(b, lt['dest']['l'])
            fn = strip_generics(ctx.mir.enclosing_fn(b)) if b.kind == "closure" else b.nid
            for cbb, ct in b.calls():
                if cbb == lbb or len(ct['args']) < 2:
                    continue
                cn = strip_generics(callee_name(ct) or '')
                if cn.endswith(PASS_ALONG):
                    continue
                if not any(op_place(a) is not None and op_place(a)['l'] in taint for a in ct['args'][1:]):
                    continue
                p0 = op_place(ct['args'][0])
                if p0 is None:
                    continue
                y_id, y_src = _identity(b, p0)
                if y_id is None:
                    continue
                n += 1
                where = mirq.site(b, cbb)
                short = cn.split('::')[-1]
                if x_id is None:
                    r5.inst({'fn': fn, 'use': short, 'receiver': 'unresolved'}, ok=False)
                    r5.fail('%s/%s/unresolved-receiver' % (fn, short), where, 'cannot tell which collection locate was applied to')
                    continue
                if y_id == x_id:
                    # no write to the collection between locate and this use (a path that passes locate again recomputes the location)
                    after_l = _reach(b, b.succ(lbb), {lbb})
                    bad = [m for m in _mutations(b, x_id) if m in after_l and cbb in _reach(b, b.succ(m), {lbb})]
                    ok = not bad
                    r5.inst({'fn': fn, 'use': short, 'receiver': 'same collection', 'writes_between': len(bad)}, ok=ok, kind=(fn, short, 'same'))
                    if not ok:
                        r5.fail('%s/%s/stale-location' % (fn, short), where, 'the collection is written (%s) between locate and this use of the location: the location may describe a bucket that has changed' % mirq.site(b, bad[0]))
                    continue
                if y_src == x_id and y_id[0] == 'call':
                    clone_bb = y_id[1]
                    since = _reach(b, b.succ(clone_bb), {clone_bb})
                    bad = [m for m in _mutations(b, y_id) if m in since and (cbb in _reach(b, b.succ(m), {clone_bb}))]
                    ok = not bad
                    r5.inst({'fn': fn, 'use': short, 'receiver': 'fresh clone of the located collection', 'writes_since_clone': len(bad)}, ok=ok, kind=(fn, short, 'clone'))
                    if not ok:
                        r5.fail('%s/%s/clone-not-fresh' % (fn, short), where, 'the location was computed on the original collection, but the copy it is applied to can have been written since it was cloned (%s): a key added to the copy is not seen by locate' % mirq.site(b, bad[0]))
                    continue
                r5.inst({'fn': fn, 'use': short, 'receiver': 'another collection'}, ok=False)
                r5.fail('%s/%s/other-collection' % (fn, short), where, 'a location computed on one collection is used on another one')
    r5.need(8)
