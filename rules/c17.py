"""C17 — mappings and sets are finite maps under any consistent hash.  Structural clauses:
  R17.1  persistence: values are immutable after construction (shared audit R15.1); updates clone first
  R17.2  len maintenance: each insertion of a new key is paired with exactly one `len += 1`, overwriting with none,
         each removal builds the new collection with `len - 1` under a Found match
  R17.3  lookup shape: locate hashes with hash_func, converts with to_u64 (out-of-bounds error), scans the bucket with
         eq_func(key, k); outcomes Vacant / Missing / Found; XMapping::locate and XSet::locate agree (siblings)
  R17.4  bucket-table canonical form: hash/size fold over all buckets, so no producer may store an empty bucket
  R17.5  location discipline (MIR): a KeyLocation is used only on the collection state `locate` computed it on
"""
import re
from .lib import immut, mirq
from .lib.facts import op_place, op_local, strip_generics, callee_name

FILES = ('src/builtin/mapping.rs', 'src/builtin/set.rs')


def run(ctx):
    ctx.explanation = ('Persistence by the immutability audit; pairing of every new-key insertion with one length increment and of every removal with '
                       'len-1 under a Found match; sibling agreement of the two locate routines; no empty bucket is ever stored (hash and size fold over buckets).')
    ctx.trusted = ['syn parse', 'rustc borrow checking: &mut methods cannot be applied to a value behind Rc']
    ctx.assumptions = ['behaviour under arbitrary consistent hash functions (value level) is NOT decided']
    r1 = ctx.rule('R17.1', 'values immutable after construction (shared audit)')
    immut.audit(ctx, r1)
    # bulk updates receive the collection by shared reference: with rustc's borrow checking and the audit above they cannot write it
    for bd in ctx.mir.bodies:
        if re.search(r'builtin::(mapping::XMapping|set::XSet)::with_update$', bd.nid):
            ty = bd.local_ty(1) or ''
            ok = ty.startswith('&') and not ty.startswith('&mut')
            r1.inst({'fn': bd.nid, 'receiver': ty[:40], 'shared_reference': ok}, ok=ok)
            if not ok:
                r1.fail('%s/receiver' % bd.nid, mirq.site(bd, 0), 'bulk update does not take the collection by shared reference')

    # ---------------- R17.2
    len_maintenance(ctx)

    # ---------------- R17.3
    locate_summary(ctx)

    # ---------------- R17.4
    bucket_nonempty(ctx)

    # ---------------- R17.5
    location_discipline(ctx)
    absent_alike(ctx)


COLL = re.compile(r'builtin::(mapping::XMapping|set::XSet)<')
PASS_ALONG = ('::branch', '::found', '::as_ref', '::unwrap', '::expect', '::clone', '::as_mut', '::take')


def _identity(body, place, depth=16):
    """which collection a receiver place denotes: follow references / copies / field projections back to the local that holds
    (or borrows) the collection.  Returns (key, via_clone_of) where key is ('arg', n) | ('call', bb) | ('multi', l) | None and,
    for a value produced by Clone::clone / a rebuild from the receiver's own table, the identity it was copied from."""
    cur = place['l']
    is_coll = False
    for _ in range(depth):
        if COLL.search(body.local_ty(cur) or ''):
            is_coll = True
        ds = body.defs().get(cur, [])
        if not ds:
            if 1 <= cur <= body.d['argc']:
                return (('arg', cur) if is_coll else None), None
            return None, None
        if len(ds) > 1:
            return (('multi', cur) if is_coll else None), None
        kind, bb, idx, x = ds[0]
        if kind == 'call':
            nm = strip_generics(callee_name(x) or '')
            src_id = None
            if nm.endswith('::clone') and x['args'] and op_place(x['args'][0]) is not None:
                src_id = _identity(body, op_place(x['args'][0]), depth - 1)[0]
            return (('call', bb) if is_coll else None), src_id
        rv = x['rv']
        if rv['k'] in ('ref', 'copyderef', 'rawptr'):
            cur = rv['place']['l']
            continue
        if rv['k'] in ('use', 'cast') and op_place(rv['op']) is not None:
            cur = op_place(rv['op'])['l']
            continue
        return (('rv', cur) if is_coll else None), None
    return None, None


def _tainted(body, start):
    t = {start}
    changed = True
    while changed:
        changed = False
        for i, j, s in body.stmts():
            if s['k'] != 'assign' or s['place']['l'] in t:
                continue
            rv = s['rv']
            if rv['k'] == 'discr':
                continue
            srcs = set()
            for key in ('op', 'a', 'b'):
                if isinstance(rv.get(key), dict) and op_place(rv[key]) is not None:
                    srcs.add(op_place(rv[key])['l'])
            if 'place' in rv:
                srcs.add(rv['place']['l'])
            for o in rv.get('ops', []):
                if op_place(o) is not None:
                    srcs.add(op_place(o)['l'])
            if srcs & t and not s['place']['p']:
                t.add(s['place']['l'])
                changed = True
        for bb, c in body.calls():
            nm = strip_generics(callee_name(c) or '')
            if nm.endswith(PASS_ALONG) and not c['dest']['p'] and c['dest']['l'] not in t and c['args'] and op_place(c['args'][0]) is not None and op_place(c['args'][0])['l'] in t:
                t.add(c['dest']['l'])
                changed = True
    return t


def _mutations(body, ident):
    """blocks in which the collection `ident` is written: calls handing out `&mut` to it (or to a part of it), field assignments"""
    out = []
    for bb, c in body.calls():
        if not c['args']:
            continue
        p = op_place(c['args'][0])
        if p is None or p['p']:
            continue
        if not (body.local_ty(p['l']) or '').startswith('&mut'):
            continue
        if _identity(body, p)[0] == ident:
            out.append(bb)
    for i, j, s in body.stmts():
        if s['k'] == 'assign' and s['place']['p'] and _identity(body, {'l': s['place']['l'], 'p': []})[0] == ident:
            out.append(i)
    return out


def _reach(body, start_blocks, avoid):
    seen = set()
    todo = list(start_blocks)
    while todo:
        b = todo.pop()
        if b in seen or b in avoid:
            continue
        seen.add(b)
        todo.extend(body.succ(b))
    return seen


def location_discipline(ctx):
    """R17.5: a KeyLocation describes one state of one bucket table.  Every use of a location (put_located, try_put_located, get,
    or a HashMap operation keyed by its hash) must be applied to the collection `locate` was called on, in the state it had then:
    either the same collection with no write in between, or a clone of it that has not been written since it was cloned."""
    r5 = ctx.rule('R17.5', 'a key location is used on the collection state it was computed on')
    n = 0
    for b in ctx.mir.bodies:
        if b.file not in FILES:
            continue
        for lbb, lt in b.calls():
            nm = strip_generics(callee_name(lt) or '')
            if not re.search(r'builtin::(mapping::XMapping|set::XSet)::locate$', nm) or lt['dest']['p']:
                continue
            rp = op_place(lt['args'][0])
            x_id = _identity(b, rp)[0] if rp is not None else None
            taint = _tainted(b, lt['dest']['l'])
            fn = strip_generics(ctx.mir.enclosing_fn(b)) if b.kind == "closure" else b.nid
            for cbb, ct in b.calls():
                if cbb == lbb or len(ct['args']) < 2:
                    continue
                cn = strip_generics(callee_name(ct) or '')
                if cn.endswith(PASS_ALONG):
                    continue
                if not any(op_place(a) is not None and op_place(a)['l'] in taint for a in ct['args'][1:]):
                    continue
                p0 = op_place(ct['args'][0])
                if p0 is None:
                    continue
                y_id, y_src = _identity(b, p0)
                if y_id is None:
                    continue
                n += 1
                where = mirq.site(b, cbb)
                short = cn.split('::')[-1]
                if x_id is None:
                    r5.inst({'fn': fn, 'use': short, 'receiver': 'unresolved'}, ok=False)
                    r5.fail('%s/%s/unresolved-receiver' % (fn, short), where, 'cannot tell which collection locate was applied to')
                    continue
                if y_id == x_id:
                    # no write to the collection between locate and this use (a path that passes locate again recomputes the location)
                    after_l = _reach(b, b.succ(lbb), {lbb})
                    bad = [m for m in _mutations(b, x_id) if m in after_l and cbb in _reach(b, b.succ(m), {lbb})]
                    ok = not bad
                    r5.inst({'fn': fn, 'use': short, 'receiver': 'same collection', 'writes_between': len(bad)}, ok=ok, kind=(fn, short, 'same'))
                    if not ok:
                        r5.fail('%s/%s/stale-location' % (fn, short), where, 'the collection is written (%s) between locate and this use of the location: the location may describe a bucket that has changed' % mirq.site(b, bad[0]))
                    continue
                if y_src == x_id and y_id[0] == 'call':
                    clone_bb = y_id[1]
                    since = _reach(b, b.succ(clone_bb), {clone_bb})
                    bad = [m for m in _mutations(b, y_id) if m in since and (cbb in _reach(b, b.succ(m), {clone_bb}))]
                    ok = not bad
                    r5.inst({'fn': fn, 'use': short, 'receiver': 'fresh clone of the located collection', 'writes_since_clone': len(bad)}, ok=ok, kind=(fn, short, 'clone'))
                    if not ok:
                        r5.fail('%s/%s/clone-not-fresh' % (fn, short), where, 'the location was computed on the original collection, but the copy it is applied to can have been written since it was cloned (%s): a key added to the copy is not seen by locate' % mirq.site(b, bad[0]))
                    continue
                r5.inst({'fn': fn, 'use': short, 'receiver': 'another collection'}, ok=False)
                r5.fail('%s/%s/other-collection' % (fn, short), where, 'a location computed on one collection is used on another one')
    r5.need(8)


def bucket_nonempty(ctx):
    """R17.4: hash() and size fold over all buckets of the table, so a stored bucket is never empty.  Every bucket handed to the
    table (HashMap::insert, Entry::or_insert) is either a literal with at least one element or is stored only on the
    `is_empty() == false` edge of a test of that very bucket."""
    r4 = ctx.rule('R17.4', 'no producer stores an empty bucket (hash / size fold over buckets)')
    for b in ctx.mir.bodies:
        if b.file not in FILES:
            continue
        for bb, t in b.calls():
            nm = strip_generics(callee_name(t) or '')
            if not re.search(r'(HashMap::insert|Entry::or_insert)$', nm):
                continue
            vp = op_place(t['args'][-1])
            if vp is None or not (b.local_ty(vp['l']) or '').startswith('std::vec::Vec<'):
                continue
            fn = strip_generics(ctx.mir.enclosing_fn(b)) if b.kind == 'closure' else b.nid
            aliases, origins = mirq.move_origins(b, vp['l'])
            def is_literal(o):
                # vec![a, ..]: the boxed array [T; N] with N >= 1 turned into a Vec
                if o[2] != 'call' or not strip_generics(callee_name(o[3]) or '').endswith(('::into_vec', 'box_assume_init_into_vec_unsafe')):
                    return False
                ap = op_place(o[3]['args'][0]) if o[3]['args'] else None
                m = re.search(r';\s*(\d+)\]', b.local_ty(ap['l']) or '') if ap is not None else None
                return bool(m) and int(m.group(1)) >= 1
            literal = bool(origins) and all(is_literal(o) for o in origins)
            if literal:
                r4.inst({'fn': fn, 'stored_bucket': 'literal with elements'}, kind=(fn, 'literal', nm.split('::')[-1]))
                continue
            guarded = False
            for d in b.dominators().get(bb, ()):
                tm = b.term(d)
                if tm['k'] != 'switch' or d == bb:
                    continue
                dl = op_local(tm['discr'])
                if dl is None:
                    continue
                k, v = mirq.chase(b, dl)
                if k != 'call' or not strip_generics(callee_name(v[1]) or '').endswith('::is_empty'):
                    continue
                rp = op_place(v[1]['args'][0])
                if rp is None:
                    continue
                root = rp['l']
                for _ in range(6):
                    ds = b.defs().get(root, [])
                    if len(ds) == 1 and ds[0][0] == 'stmt' and ds[0][3]['rv']['k'] in ('ref', 'use', 'copyderef'):
                        q = ds[0][3]['rv'].get('place') or op_place(ds[0][3]['rv']['op'])
                        if q is None:
                            break
                        root = q['l']
                    else:
                        break
                if root not in aliases:
                    continue
                false_t = [x for val, x in tm['targets'] if val == '0']
                if false_t and false_t[0] != tm['otherwise'] and mirq.dominates(b, false_t[0], bb):
                    guarded = True
            r4.inst({'fn': fn, 'stored_bucket': 'computed', 'stored_only_when_not_empty': guarded}, ok=guarded, kind=(fn, 'computed', bb))
            if not guarded:
                r4.fail('%s/empty-bucket' % fn, mirq.site(b, bb), 'a computed bucket is stored without a non-emptiness test of that bucket: an empty bucket changes hash() of an equal collection')
    r4.need(4)


KEYLOC = re.compile(r'builtin::(mapping|set)::KeyLocation$')


def _discr_switches(body):
    """switch blocks on the discriminant of a KeyLocation place -> (block, root local of the place)"""
    out = []
    for bb in range(len(body.blocks)):
        tm = body.term(bb)
        if tm['k'] != 'switch':
            continue
        dl = op_local(tm['discr'])
        ds = body.defs().get(dl, []) if dl is not None else []
        if len(ds) != 1 or ds[0][0] != 'stmt' or ds[0][3]['rv']['k'] != 'discr':
            continue
        pl = ds[0][3]['rv']['place']
        root = pl['l']
        for _ in range(6):
            d2 = body.defs().get(root, [])
            if len(d2) == 1 and d2[0][0] == 'stmt' and d2[0][3]['rv']['k'] in ('ref', 'copyderef') and not [e for e in d2[0][3]['rv']['place']['p'] if e != '*']:
                root = d2[0][3]['rv']['place']['l']
            else:
                break
        ty = (body.local_ty(root) or '').lstrip('&').replace('mut ', '')
        if KEYLOC.search(strip_generics(ty)):
            out.append((bb, root))
    return out


def _len_writes(body):
    """(bb, idx, delta) for assignments to a `.len` field: delta = +1 when the value is old len + 1, None otherwise"""
    out = []
    for i, j, s in body.stmts():
        if s['k'] != 'assign' or not any(isinstance(e, dict) and e.get('n') == 'len' for e in s['place']['p']):
            continue
        delta = None
        rv = s['rv']
        src_l = op_place(rv['op'])['l'] if rv['k'] == 'use' and op_place(rv['op']) is not None else None
        for l in (mirq.backslice(body, [src_l]) if src_l is not None else ()):
            for kind, dbb, idx, x in body.defs().get(l, []):
                if kind == 'stmt' and x['rv']['k'] in ('bin', 'checkedbin') and x['rv']['op'] in ('Add', 'AddWithOverflow'):
                    c = x['rv']['b'].get('const') if isinstance(x['rv']['b'], dict) else None
                    pa = op_place(x['rv']['a'])
                    if c and re.match(r'1(_usize)?$', c.get('s', '')) and pa is not None:
                        delta = 1
        if rv['k'] in ('bin', 'checkedbin') and rv['op'] in ('Add', 'AddWithOverflow'):
            c = rv['b'].get('const') if isinstance(rv['b'], dict) else None
            if c and re.match(r'1(_usize)?$', c.get('s', '')):
                delta = 1
        out.append((i, j, delta))
    return out


def len_maintenance(ctx):
    """R17.2 on the MIR.  (a) In every body that writes a collection's `len`, each path from the examination of a KeyLocation to the
    return (or back to the examination, in a loop) pairs every stored element with exactly one `len + 1`, stores nothing and leaves
    len alone when the location is Found, and stores at most one element otherwise.  (b) A collection rebuilt with `len - 1` is
    rebuilt only where a Found location has been established, in the rebuilding body or at every call site of it."""
    mir = ctx.mir
    r2 = ctx.rule('R17.2', 'len is incremented exactly once per new key and never on overwrite; removals use len-1 under Found')
    STORE = re.compile(r'(std::vec::Vec::push|HashMap::insert|Entry::or_insert|Entry::or_insert_with)$')
    for b in mir.bodies:
        if b.file not in FILES:
            continue
        writes = _len_writes(b)
        if not writes:
            continue
        fn = strip_generics(mir.enclosing_fn(b)) if b.kind == 'closure' else b.nid
        for i, j, d in writes:
            if d != 1:
                r2.inst({'fn': fn, 'len_write': 'not len + 1'}, ok=False)
                r2.fail('%s/len-write' % fn, mirq.site(b, i, j), 'len is written with something other than len + 1')
        sw = _discr_switches(b)
        inc_blocks = {}
        for i, j, d in writes:
            inc_blocks[i] = inc_blocks.get(i, 0) + 1
        store_blocks = {}
        for bb, t_ in b.calls():
            if STORE.search(strip_generics(callee_name(t_) or '')) and 'ManagedXValue' in (b.local_ty(op_place(t_['args'][0])['l']) if op_place(t_['args'][0]) else ''):
                store_blocks[bb] = store_blocks.get(bb, 0) + 1
        firsts = [(bb, root) for bb, root in sw if not any(o != bb and r2_ == root and mirq.dominates(b, o, bb) for o, r2_ in sw)]
        if not firsts:
            r2.inst({'fn': fn, 'location_examined': False}, ok=False)
            r2.fail('%s/len-without-location' % fn, mirq.site(b, writes[0][0], writes[0][1]), 'len is changed in a body that never examines a KeyLocation')
            continue
        names = {0: 'Missing', 1: 'Vacant', 2: 'Found'}
        for start, root in firsts:
            same = {bb for bb, r_ in sw if r_ == root}
            results = set()
            seen = set()
            todo = [(start, frozenset(names), 0, 0, True)]
            while todo:
                bb, known, incs, sts, first = todo.pop()
                key = (bb, known, incs, sts, first)
                if key in seen or len(seen) > 40000:
                    continue
                seen.add(key)
                if bb == start and not first:
                    results.add((known, incs, sts, 'loop'))
                    continue
                incs2 = min(3, incs + inc_blocks.get(bb, 0))
                sts2 = min(3, sts + store_blocks.get(bb, 0))
                tm = b.term(bb)
                if tm['k'] == 'return':
                    results.add((known, incs2, sts2, 'return'))
                    continue
                if bb in same and tm['k'] == 'switch':
                    explicit = set()
                    for val, tgt in tm['targets']:
                        v = int(val)
                        explicit.add(v)
                        if v in known:
                            todo.append((tgt, frozenset([v]), incs2, sts2, False))
                    rest = known - explicit
                    if rest:
                        todo.append((tm['otherwise'], frozenset(rest), incs2, sts2, False))
                    continue
                for s_ in b.succ(bb):
                    if not b.is_cleanup(s_):
                        todo.append((s_, known, incs2, sts2, False))
            for v, nm_ in names.items():
                mine = [r for r in results if r[0] == frozenset([v])]
                if v == 2:
                    ok = bool(mine) and all(r[1] == 0 and r[2] == 0 for r in mine)
                    why = 'an existing key changes len or stores an element'
                else:
                    ok = bool(mine) and all(r[1] == r[2] <= 1 for r in mine) and any(r[1] == 1 for r in mine)
                    why = 'a new key is not paired with exactly one len + 1 on some path (stored/len+1 per path: %s)' % sorted({(r[2], r[1]) for r in mine})
                r2.inst({'fn': fn, 'location': nm_, 'paths': len(mine), 'stores_and_increments_per_path': sorted({(r[2], r[1]) for r in mine})}, ok=ok, kind=(fn, nm_))
                if not ok:
                    r2.fail('%s/%s' % (fn, nm_), mirq.site(b, start), 'location %s: %s: length drifts from the number of keys' % (nm_, why))
            undecided = [r for r in results if len(r[0]) > 1 and (r[1] or r[2])]
            if undecided:
                r2.fail('%s/undecided' % fn, mirq.site(b, start), 'len or the table changes on a path that has not established the kind of location')
    # (b) removals
    n_rm = 0

    def found_blocks(body):
        out = []
        for bb, root in _discr_switches(body):
            tm = body.term(bb)
            tg = [x for val, x in tm['targets'] if val == '2']
            if tg and tg[0] != tm['otherwise'] and sum(1 for val, x in tm['targets'] if x == tg[0]) == 1:
                out.append(tg[0])
            elif not tg and {val for val, x in tm['targets']} == {'0', '1'}:
                out.append(tm['otherwise'])
        return out
    for b in mir.bodies:
        if b.file not in FILES:
            continue
        for bb, t_ in b.calls():
            nm = strip_generics(callee_name(t_) or '')
            if not re.search(r'builtin::(mapping::XMapping|set::XSet)::new$', nm) or len(t_['args']) != 4:
                continue
            ll = op_local(t_['args'][3])
            if ll is None:
                continue
            minus1 = False
            for l in mirq.backslice(b, [ll]):
                for kind, dbb, idx, x in b.defs().get(l, []):
                    if kind == 'stmt' and x['rv']['k'] in ('bin', 'checkedbin') and x['rv']['op'] in ('Sub', 'SubWithOverflow'):
                        minus1 = True
            if not minus1:
                continue
            n_rm += 1
            fn = strip_generics(mir.enclosing_fn(b)) if b.kind == 'closure' else b.nid
            ok, trail = mirq.guarded_interproc(mir, b, bb, found_blocks)
            r2.inst({'fn': fn, 'rebuilt_with_len_minus_1_only_under_Found': ok}, ok=ok, kind=(fn, 'rm', n_rm))
            if not ok:
                r2.fail('%s/removal' % fn, mirq.site(b, bb), 'a collection is rebuilt with len - 1 where no Found location has been established (%s)' % '; '.join(trail)[:200])
    # (c) where a collection is built with an explicit length, that length is 0 (an empty table), the length of the collection it
    #     is rebuilt from, or that length minus one (a removal): never a quantity of the bucket table (number of buckets, ...)
    for b in mir.bodies:
        for bb, t_ in b.calls():
            nm = strip_generics(callee_name(t_) or '')
            if not re.search(r'builtin::(mapping::XMapping|set::XSet)::new$', nm) or len(t_['args']) != 4:
                continue
            a = t_['args'][3]
            fn = strip_generics(mir.enclosing_fn(b)) if b.kind == 'closure' else b.nid
            if 'const' in a:
                ok = a['const'].get('int') == '0'
                r2.inst({'fn': fn, 'len_argument': 'constant ' + str(a['const'].get('s'))}, ok=ok, kind=(fn, 'lenarg', bb))
                if not ok:
                    r2.fail('%s/len-origin' % fn, mirq.site(b, bb), 'a collection is built with a constant non-zero length')
                continue
            l = op_place(a)['l']
            bad = []
            from_len = False
            for x in mirq.backslice(b, [l]):
                if x != l and not (b.local_ty(x) or '').replace('(', '').startswith(('usize', 'bool')):
                    continue
                for kind, dbb, idx, d in b.defs().get(x, []):
                    if kind == 'call':
                        bad.append(strip_generics(callee_name(d) or '').split('::')[-1] + '()')
                        continue
                    rv = d['rv']
                    pl = rv.get('place') or (op_place(rv['op']) if rv['k'] == 'use' else None)
                    if pl is not None and any(isinstance(e, dict) and e.get('n') == 'len' and 'builtin::' in (e.get('adt') or '') for e in pl['p']):
                        from_len = True
                    elif rv['k'] in ('bin', 'checkedbin'):
                        if not (rv['op'] in ('Sub', 'SubWithOverflow') and rv['b'].get('const', {}).get('int') == '1'):
                            bad.append(rv['op'])
                    elif rv['k'] not in ('use', 'cast', 'copyderef', 'ref'):
                        bad.append(rv['k'])
            ok = from_len and not bad
            r2.inst({'fn': fn, 'len_argument': 'len of the source collection%s' % (' - 1' if n_rm and False else ''), 'other_ingredients': sorted(set(bad))}, ok=ok, kind=(fn, 'lenarg', bb))
            if not ok:
                r2.fail('%s/len-origin' % fn, mirq.site(b, bb), 'the length a collection is built with is not the length of the collection it is rebuilt from (or that minus one): it is computed from %s: the number of keys and the number of buckets differ as soon as two keys share a bucket' % (sorted(set(bad)) or 'something else'))
    if n_rm < 2:
        r2.fail('anchor/removals', '-', 'expected the removal paths (pop / discard / remove) that rebuild with len - 1')
    r2.need(8)


DROPPING = re.compile(r'Iterator::(skip|take|step_by|filter|filter_map|skip_while|take_while|rev|nth|last)$')


def _locate_summary(mir, b):
    """what a locate routine does, read off its MIR and the MIR of the private helpers it calls (one level): the argument vectors
    handed to the program's hash / equality functions by origin, the hash conversion, which KeyLocation variants are produced and
    what their hash component comes from, and the adaptors applied to the bucket iteration."""
    fam = [(b, None)]
    for bb, t_ in b.calls():
        nm = strip_generics(callee_name(t_) or '')
        for h in mir.find(nm):
            if h.file in FILES and h is not b and h.nid.split('::')[:-1] == b.nid.split('::')[:-1] and not re.search(r'::(new|iter|get)$', h.nid):
                fam.append((h, (bb, t_)))
    key_param = 2
    u64s = {t_['dest']['l'] for _, t_ in b.calls() if strip_generics(callee_name(t_) or '').endswith('::to_u64') and not t_['dest']['p']}
    buckets = {t_['dest']['l'] for _, t_ in b.calls() if re.search(r'HashMap::get$', strip_generics(callee_name(t_) or '')) and not t_['dest']['p']}

    def origin(bx, site, local, depth=12):
        cur = local
        for _ in range(depth):
            if 1 <= cur <= bx.d['argc'] and not bx.defs().get(cur):
                if bx is b:
                    return 'key' if cur == key_param else 'param%d' % cur
                cbb, ct = site
                ap = op_place(ct['args'][cur - 1]) if cur - 1 < len(ct['args']) else None
                return origin(b, None, ap['l']) if ap is not None else 'const'
            ds = bx.defs().get(cur, [])
            if len(ds) != 1:
                break
            kind, dbb, idx, x = ds[0]
            if kind == 'call':
                nm = strip_generics(callee_name(x) or '')
                if nm.endswith(('::clone', '::deref', '::as_ref', '::borrow')) and x['args'] and op_place(x['args'][0]) is not None:
                    cur = op_place(x['args'][0])['l']
                    continue
                break
            rv = x['rv']
            if rv['k'] in ('ref', 'copyderef'):
                cur = rv['place']['l']
                continue
            if rv['k'] in ('use', 'cast') and op_place(rv['op']) is not None:
                cur = op_place(rv['op'])['l']
                continue
            if rv['k'] == 'agg' and rv.get('ak') == 'adt' and len(rv['ops']) == 1 and op_place(rv['ops'][0]) is not None:
                cur = op_place(rv['ops'][0])['l']
                continue
            break
        if bx is b and mirq.backslice(b, [cur]) & buckets:
            return 'stored'
        return 'other'
    vectors = []
    for bx, site in fam:
        for i, j, s in bx.stmts():
            if s['k'] == 'assign' and s['rv']['k'] == 'agg' and s['rv'].get('ak') == 'array' and 'ManagedXValue' in (s['rv'].get('ety') or ''):
                vectors.append(tuple(origin(bx, site, op_place(o)['l']) if op_place(o) is not None else 'const' for o in s['rv']['ops']))
    variants = {}
    for i, j, s in b.stmts():
        if s['k'] == 'assign' and s['rv']['k'] == 'agg' and KEYLOC.search(s['rv'].get('adt') or ''):
            ol = op_place(s['rv']['ops'][0])['l'] if s['rv']['ops'] and op_place(s['rv']['ops'][0]) is not None else None
            variants[s['rv']['v']] = bool(ol is not None and mirq.backslice(b, [ol]) & u64s)
    n_calls = 0
    drops = set()
    for bx, site in fam:
        for bb, t_ in bx.calls():
            nm = strip_generics(t_.get('decl') or callee_name(t_) or '')
            if nm.endswith('::eval_func_with_values'):
                n_calls += 1
            if DROPPING.search(nm):
                drops.add(nm.split('::')[-1])
    errs = sum(1 for bb, t_ in b.calls() if strip_generics(callee_name(t_) or '') == 'xvalue::ManagedXError::new')
    return {'argument_vectors': sorted(vectors, key=len), 'program_function_calls': n_calls, 'hash_converted_with_to_u64': bool(u64s), 'conversion_failure_exits': errs,
            'variants_with_hash_from_to_u64': variants, 'bucket_looked_up_by_hash': bool(buckets), 'position_dropping_adaptors': sorted(drops)}


def locate_summary(ctx):
    """R17.3 on the MIR: each locate calls the hash function on [key], converts with to_u64 (failure = error value), looks the bucket
    up, calls the equality as eq(key, stored key) over the whole bucket, and produces Vacant / Found / Missing carrying that hash;
    XMapping::locate and XSet::locate have the same summary (siblings)."""
    mir = ctx.mir
    r3 = ctx.rule('R17.3', 'XMapping::locate and XSet::locate: same summary; hash(key) -> to_u64 -> bucket -> eq(key, stored) over the whole bucket')
    locs = [b for b in mir.bodies if re.search(r'builtin::(mapping::XMapping|set::XSet)::locate$', b.nid)]
    if len(locs) != 2:
        r3.fail('anchor/locate', '-', 'expected two locate functions')
        return
    sums = {}
    for b in locs:
        s = _locate_summary(mir, b)
        sums[b.nid] = s
        want_vec = [('key',), ('key', 'stored')]
        short = b.nid.split('::')[-2]
        ok = s['argument_vectors'] == want_vec
        r3.inst({'fn': b.nid, 'argument_vectors': s['argument_vectors']}, ok=ok, kind=(b.nid, 'vectors'))
        if not ok:
            if sorted(map(sorted, s['argument_vectors'])) == sorted(map(sorted, want_vec)):
                r3.fail('%s/locate/eq-order' % short, mirq.site(b, 0), 'eq_func is not applied as eq(key, stored_key): argument vectors %s' % s['argument_vectors'])
            else:
                r3.fail('%s/locate/arguments' % short, mirq.site(b, 0), 'hash / equality are not called on [key] and [key, stored key]: %s' % s['argument_vectors'])
        ok = s['program_function_calls'] == 2 and s['hash_converted_with_to_u64'] and s['conversion_failure_exits'] >= 1 and s['bucket_looked_up_by_hash'] \
            and s['variants_with_hash_from_to_u64'] == {'Vacant': True, 'Found': True, 'Missing': True}
        r3.inst({'fn': b.nid, 'steps': {k: v for k, v in s.items() if k not in ('argument_vectors', 'position_dropping_adaptors')}}, ok=ok, kind=(b.nid, 'steps'))
        if not ok:
            r3.fail('%s/locate/shape' % short, mirq.site(b, 0), 'locate lost a step: %s' % {k: v for k, v in s.items() if k != 'argument_vectors'})
        ok = not s['position_dropping_adaptors']
        r3.inst({'fn': b.nid, 'whole_bucket_scanned': ok}, ok=ok, kind=(b.nid, 'scan'))
        if not ok:
            r3.fail('%s/locate/partial-scan' % short, mirq.site(b, 0), 'the bucket scan drops positions (%s): a stored key can be missed' % ', '.join(s['position_dropping_adaptors']))
    a, b2 = [sums[b.nid] for b in locs]
    ok = a == b2
    r3.inst({'siblings_agree': ok}, ok=ok)
    if not ok:
        diff = {k: (a[k], b2[k]) for k in a if a[k] != b2[k]}
        r3.fail('locate/siblings', FILES[1], 'the two locate routines differ: %s' % diff)
    r3.need(7)


TABLE_INTERNALS = re.compile(r'builtin::(mapping::XMapping|set::XSet)::(put_located|try_put_located|with_update)$|KeyLocation')


def absent_alike(ctx):
    """R17.6: `locate` answers Found, or one of two ways of saying "not there": Missing (no bucket for the hash) and Vacant (a bucket
    for the hash, the key not in it).  Which of the two it is depends on what else hashes alike -- on collisions and layout only.
    Outside the bucket-table writers (put_located / try_put_located / with_update), every decision on a location therefore treats
    Missing and Vacant alike: the two edges go to the same block, or to code that does the same calls."""
    mir = ctx.mir
    r6 = ctx.rule('R17.6', 'outside the bucket-table writers, a decision on a key location does not tell Missing from Vacant')
    writers = {x.nid for x in mir.bodies if TABLE_INTERNALS.search(x.nid) and 'KeyLocation' not in x.nid and x.kind == 'fn'}
    for b in mir.bodies:
        if b.file not in FILES or TABLE_INTERNALS.search(b.nid):
            continue
        # a private helper of the writers (an `add_absent(loc, element)` holding their Missing / Vacant arms) is a table internal too
        base = [x for x in mir.bodies if x.nid == b.nid.split('::{closure')[0]]
        if base and base[0].nid not in writers and re.search(r'builtin::(mapping::XMapping|set::XSet)::\w+$', base[0].nid) and mirq.private_helper_of(mir, base[0], writers, depth=1):
            continue
        for bb in range(len(b.blocks)):
            tm = b.term(bb)
            if tm['k'] != 'switch':
                continue
            p = op_place(tm['discr'])
            if p is None:
                continue
            for kind, dbb, idx, x in b.defs().get(p['l'], []):
                if not (kind == 'stmt' and x['rv']['k'] == 'discr'):
                    continue
                ty = (b.local_ty(x['rv']['place']['l']) or '').lstrip('&').replace('mut ', '')
                m = re.match(r'^builtin::(mapping|set)::KeyLocation$', ty)
                if not m:
                    continue
                adt = mir.adts.get(ty)
                if adt is None:
                    r6.fail('anchor/KeyLocation', b.file, 'no layout facts for %s' % ty)
                    continue
                vi = {v['name']: i for i, v in enumerate(adt['variants'])}
                tg = {int(v): t for v, t in tm['targets']}
                tm_, tv = tg.get(vi['Missing'], tm['otherwise']), tg.get(vi['Vacant'], tm['otherwise'])

                def doings(start):
                    out = []
                    for r in sorted(b.reachable(start)):
                        if b.is_cleanup(r):
                            continue
                        t2 = b.term(r)
                        if t2['k'] == 'call':
                            out.append(strip_generics(callee_name(t2) or t2.get('decl') or '?'))
                    return sorted(out)
                def exclusive(a, other):
                    ra, ro = b.reachable(a) | {a}, b.reachable(other) | {other}
                    calls, consts = [], []
                    for r in sorted(ra - ro):
                        if b.is_cleanup(r):
                            continue
                        for s2 in b.blocks[r]['stmts']:
                            if s2['k'] == 'assign' and s2['rv']['k'] == 'use' and 'const' in s2['rv']['op']:
                                consts.append(s2['rv']['op']['const'].get('s'))
                        t2 = b.term(r)
                        if t2['k'] == 'call':
                            calls.append(strip_generics(callee_name(t2) or t2.get('decl') or '?'))
                        elif t2['k'] == 'return':
                            calls.append('<return>')
                    return sorted(calls), sorted(map(str, consts))
                # the same block, or -- for arms written out twice -- code that differs in nothing the analysis can see: the blocks only
                # one of the two answers reaches make the same calls and assign the same constants
                ok = tm_ == tv or (doings(tm_) == doings(tv) and exclusive(tm_, tv) == exclusive(tv, tm_))
                fn = strip_generics(mir.enclosing_fn(b)) if b.kind == 'closure' else b.nid
                r6.inst({'fn': fn, 'decision': mirq.site(b, bb), 'missing_and_vacant_alike': ok}, ok=ok, kind=(b.nid, bb))
                if not ok:
                    r6.fail('%s/missing-vacant-distinguished' % fn, mirq.site(b, bb), 'the Missing and the Vacant answer of locate lead to different code: what the operation does for an absent key depends on whether another key with the same hash is stored (e.g. set_default inserts the key only when its bucket already exists)')
    r6.need(5)
