"""Loading of the fact files produced by the two engines and generic queries on them."""
import json, os, re, pickle, hashlib

ROOT = os.path.dirname(os.path.dirname(os.path.dirname(os.path.abspath(__file__))))
CACHE = os.environ.get('XV_CACHE', os.path.join(ROOT, '.cache'))
FACTS = os.path.join(CACHE, 'facts')


def strip_generics(s):
    """Normalise a def path: remove generic argument lists (`::<..>` and `Type<..>`), keep `<impl ..>` and
    `<T as Trait>` wrappers (normalising inside them)."""
    out = []
    i = 0
    n = len(s)
    while i < n:
        c = s[i]
        if c == '<':
            prev = s[i - 1] if i > 0 else ''
            is_generic = (prev.isalnum() or prev == '_' or prev == ':') and not s.startswith('<impl ', i)
            if is_generic:
                depth = 0
                j = i
                while j < n:
                    if s[j] == '<':
                        depth += 1
                    elif s[j] == '>' and s[j - 1] != '-':
                        depth -= 1
                        if depth == 0:
                            break
                    j += 1
                # drop a preceding `::` of a turbofish
                if len(out) >= 2 and out[-1] == ':' and out[-2] == ':':
                    out.pop()
                    out.pop()
                i = j + 1
                continue
        out.append(c)
        i += 1
    return ''.join(out)


class Body:
    __slots__ = ('d', 'id', 'nid', 'kind', 'span', 'blocks', 'locals', 'dbg', 'parent', '_succ', '_pred', '_defs', '_dom', 'file', 'line')

    def __init__(self, d):
        self.d = d
        self.id = d['id']
        self.nid = strip_generics(d['id'])
        self.kind = d['kind']
        self.span = d['span']
        self.blocks = d['blocks']
        self.locals = d['locals']
        self.dbg = d['dbg']
        self.parent = d.get('parent')
        self._succ = None
        self._pred = None
        self._defs = None
        self._dom = None
        m = re.match(r'(.*?):(\d+):', self.span)
        self.file = m.group(1) if m else self.span
        self.line = int(m.group(2)) if m else 0

    def get(self, k, default=None):
        return self.d.get(k, default)

    # ---- CFG ----
    def term(self, bb):
        return self.blocks[bb]['term']

    def succ(self, bb, unwind=False):
        t = self.blocks[bb]['term']
        k = t['k']
        r = []
        if k == 'goto':
            r = [t['target']]
        elif k == 'switch':
            r = [x[1] for x in t['targets']] + [t['otherwise']]
        elif k in ('drop', 'assert'):
            r = [t['target']]
        elif k == 'call':
            r = [t['target']] if t['target'] is not None else []
        if unwind and t.get('unwind') is not None:
            r = r + [t['unwind']]
        # dedupe, keep order
        seen = set()
        out = []
        for x in r:
            if x not in seen:
                seen.add(x)
                out.append(x)
        return out

    def succs(self):
        if self._succ is None:
            self._succ = [self.succ(i) for i in range(len(self.blocks))]
        return self._succ

    def preds(self):
        if self._pred is None:
            p = [[] for _ in self.blocks]
            for i, ss in enumerate(self.succs()):
                for s in ss:
                    p[s].append(i)
            self._pred = p
        return self._pred

    def reachable(self, start=0, avoid=()):
        """blocks reachable from start on normal (non-unwind) edges, not entering `avoid`"""
        avoid = set(avoid)
        seen = set()
        st = [start]
        while st:
            b = st.pop()
            if b in seen or b in avoid:
                continue
            seen.add(b)
            st.extend(self.succs()[b])
        return seen

    def dominators(self):
        """dom[b] = set of blocks dominating b (normal edges, from bb0)"""
        if self._dom is not None:
            return self._dom
        reach = self.reachable(0)
        order = sorted(reach)
        allb = set(order)
        dom = {b: set(allb) for b in order}
        dom[0] = {0}
        preds = self.preds()
        changed = True
        while changed:
            changed = False
            for b in order:
                if b == 0:
                    continue
                ps = [p for p in preds[b] if p in reach]
                if not ps:
                    continue
                new = set.intersection(*[dom[p] for p in ps]) | {b}
                if new != dom[b]:
                    dom[b] = new
                    changed = True
        self._dom = dom
        return dom

    def calls(self):
        for i, bl in enumerate(self.blocks):
            t = bl['term']
            if t['k'] == 'call':
                yield i, t

    def stmts(self):
        for i, bl in enumerate(self.blocks):
            for j, s in enumerate(bl['stmts']):
                yield i, j, s

    def defs(self):
        """local -> list of ('stmt', bb, idx, stmt) | ('call', bb, term) definitions that write the whole local"""
        if self._defs is None:
            d = {}
            for i, j, s in self.stmts():
                if s['k'] == 'assign' and not s['place']['p']:
                    d.setdefault(s['place']['l'], []).append(('stmt', i, j, s))
            for i, t in self.calls():
                if not t['dest']['p']:
                    d.setdefault(t['dest']['l'], []).append(('call', i, None, t))
            self._defs = d
        return self._defs

    def local_ty(self, l):
        return self.locals[l]['ty']

    def name_of_local(self, l):
        for v in self.dbg:
            val = v['val']
            if 'l' in val and val['l'] == l and not val['p']:
                return v['name']
        return None

    def is_cleanup(self, bb):
        return self.blocks[bb]['cleanup']


def callee_name(t):
    """best name of a call terminator's callee: resolved instance, else declared item"""
    return t.get('callee') or t.get('decl')


def op_place(op):
    if 'copy' in op:
        return op['copy']
    if 'move' in op:
        return op['move']
    return None


def op_local(op):
    p = op_place(op)
    if p is not None and not p['p']:
        return p['l']
    return None


def op_const(op):
    return op.get('const')


class Mir:
    def __init__(self, recs):
        self.bodies = []
        self.by_id = {}
        self.adts = {}
        self.impls = []
        self.statics = {}
        self.meta = None
        for r in recs:
            k = r['rec']
            if k == 'body':
                b = Body(r)
                self.bodies.append(b)
                self.by_id[b.id] = b
            elif k == 'adt':
                self.adts[r['id']] = r
            elif k == 'impl':
                self.impls.append(r)
            elif k == 'static':
                self.statics[r['id']] = r
            elif k == 'meta':
                self.meta = r
        self.by_nid = {}
        for b in self.bodies:
            self.by_nid.setdefault(b.nid, []).append(b)
        self._callers = None

    def find(self, nid):
        """bodies whose generic-stripped id equals nid"""
        return self.by_nid.get(nid, [])

    def one(self, nid):
        r = self.find(nid)
        if len(r) != 1:
            raise AnchorMissing('expected exactly one body named %s, found %d' % (nid, len(r)))
        return r[0]

    def match(self, regex):
        rx = re.compile(regex)
        return [b for b in self.bodies if rx.search(b.nid)]

    def fn_bodies(self):
        return [b for b in self.bodies if b.kind in ('fn', 'closure')]

    def call_sites(self, pred):
        """yield (body, bb, term) for all call terminators whose callee/decl name satisfies pred (on stripped name)"""
        for b in self.bodies:
            for i, t in b.calls():
                names = set()
                for key in ('callee', 'decl'):
                    v = t.get(key)
                    if v:
                        names.add(strip_generics(v))
                if any(pred(n) for n in names):
                    yield b, i, t

    def callers_index(self):
        if self._callers is None:
            idx = {}
            for b in self.bodies:
                for i, t in b.calls():
                    for key in ('callee', 'decl'):
                        v = t.get(key)
                        if v:
                            idx.setdefault(strip_generics(v), []).append((b, i, t))
            self._callers = idx
        return self._callers

    def enclosing_fn(self, b):
        """outermost non-closure ancestor body id of a closure"""
        cur = b
        while cur is not None and cur.kind in ('closure', 'promoted'):
            p = cur.parent if cur.kind == 'closure' else cur.id.rsplit('::{promoted', 1)[0]
            nxt = self.by_id.get(p)
            if nxt is None:
                return p
            cur = nxt
        return cur.id if cur else None


class AnchorMissing(Exception):
    pass


def load_mir():
    path = os.path.join(FACTS, 'xray.mir.jsonl')
    pk = path + '.pickle'
    if os.path.exists(pk) and os.path.getmtime(pk) >= os.path.getmtime(path):
        try:
            with open(pk, 'rb') as f:
                recs = pickle.load(f)
            return Mir(recs)
        except Exception:
            pass
    recs = []
    with open(path) as f:
        for line in f:
            recs.append(json.loads(line))
    try:
        tmp = pk + '.%d' % os.getpid()
        with open(tmp, 'wb') as f:
            pickle.dump(recs, f, protocol=pickle.HIGHEST_PROTOCOL)
        os.replace(tmp, pk)
    except Exception:
        pass
    return Mir(recs)


def load_ast():
    with open(os.path.join(FACTS, 'ast.json')) as f:
        return json.load(f)


def load_grammar():
    with open(os.path.join(FACTS, 'grammar.json')) as f:
        return json.load(f)


def walk(n, fn, parents=None):
    """pre-order walk over an AST json tree; fn(node, parents) for dict nodes with key 'k'"""
    if parents is None:
        parents = []
    if isinstance(n, dict):
        if 'k' in n:
            fn(n, parents)
            parents = parents + [n]
        for v in n.values():
            if isinstance(v, (dict, list)):
                walk(v, fn, parents)
    elif isinstance(n, list):
        for v in n:
            walk(v, fn, parents)


def find_nodes(n, pred):
    out = []

    def f(x, ps):
        if pred(x):
            out.append((x, ps))
    walk(n, f)
    return out
