"""Tiny parser for rustc type strings (enough to split generic arguments)."""


def split_generic(ty):
    """'a::B<X, Y<Z>>' -> ('a::B', ['X', 'Y<Z>']) ; non-generic -> (ty, [])"""
    ty = ty.strip()
    i = ty.find('<')
    if i < 0 or not ty.endswith('>'):
        return ty, []
    head = ty[:i]
    inner = ty[i + 1:-1]
    args = []
    depth = 0
    cur = ''
    for k, ch in enumerate(inner):
        if ch in '<([':
            depth += 1
        elif ch in '>)]' and not (ch == '>' and k > 0 and inner[k - 1] == '-'):
            depth -= 1
        if ch == ',' and depth == 0:
            args.append(cur.strip())
            cur = ''
        else:
            cur += ch
    if cur.strip():
        args.append(cur.strip())
    return head, args
