"""Recognition of dominating guards for unsigned subtraction / division in MIR."""
from . import mirq
from .facts import op_local, op_place, strip_generics

NEG = {'Lt': 'Ge', 'Le': 'Gt', 'Gt': 'Le', 'Ge': 'Lt', 'Eq': 'Ne', 'Ne': 'Eq'}
FLIP = {'Lt': 'Gt', 'Le': 'Ge', 'Gt': 'Lt', 'Ge': 'Le', 'Eq': 'Eq', 'Ne': 'Ne'}


def origin_key(body, op):
    """a comparable description of where an operand's value comes from (constants, places, call results by site)"""
    if 'const' in op:
        c = op['const']
        if 'int' in c:
            return ('const', int(c['int']))
        return ('constx', c.get('s'))
    p = op_place(op)
    if p is None:
        return ('?',)
    if p['p']:
        return ('place', _pk(p))
    k, v = mirq.chase(body, p['l'])
    if k == 'const':
        if 'int' in v:
            return ('const', int(v['int']))
        return ('constx', v.get('s'))
    if k == 'arg':
        return ('arg', v)
    if k == 'call':
        bb, t = v
        nm = strip_generics(t.get('callee') or t.get('decl') or '')
        # len() of the same receiver is the same quantity
        if nm.endswith('::len') and t['args']:
            rk = origin_key(body, t['args'][0])
            return ('len', rk)
        return ('call', bb)
    if k == 'rv':
        bb, idx, s = v
        rv = s['rv']
        if rv['k'] == 'use':
            pp = op_place(rv['op'])
            if pp is not None:
                return ('place', _pk(pp))
        if rv['k'] in ('ref', 'copyderef'):
            return ('ref', _pk(rv['place']))
        return ('stmt', bb, idx)
    if k == 'multi':
        return ('local', v[0])
    return ('local', p['l'])


def _pk(p):
    out = ['_%d' % p['l']]
    for e in p['p']:
        if e == '*':
            out.append('*')
        elif isinstance(e, dict) and 'f' in e:
            out.append('.%d' % e['f'])
        elif isinstance(e, dict) and 'dc' in e:
            out.append('as%d' % e['vi'])
        else:
            out.append('?')
    return ''.join(out)


def dominating_facts(body, bb):
    """[(op, keyA, keyB)] relations known to hold when control reaches bb (from dominating switch edges on comparisons)"""
    facts = []
    dom = body.dominators().get(bb, set())
    for d in dom:
        if d == bb:
            continue
        t = body.term(d)
        if t['k'] != 'switch' or t['dty'] != 'bool':
            continue
        dl = op_local(t['discr'])
        cmpst = None
        for kind, dbb, didx, x in body.defs().get(dl, []):
            if kind == 'stmt' and x['rv']['k'] == 'bin' and x['rv']['op'] in NEG:
                cmpst = x
            if kind == 'stmt' and x['rv']['k'] == 'un' and x['rv']['op'] == 'Not':
                inner = op_local(x['rv']['a'])
                for k2, b2, i2, x2 in body.defs().get(inner, []):
                    if k2 == 'stmt' and x2['rv']['k'] == 'bin' and x2['rv']['op'] in NEG:
                        cmpst = dict(x2)
                        cmpst = {'rv': dict(x2['rv'], op=NEG[x2['rv']['op']])}
        if cmpst is None:
            # is_empty() / is_zero() style calls
            for kind, dbb, didx, x in body.defs().get(dl, []):
                if kind == 'call':
                    nm = strip_generics(x.get('callee') or x.get('decl') or '')
                    if nm.endswith('::is_empty') and x['args']:
                        false_t = [tb for v, tb in t['targets'] if v == '0']
                        if false_t and mirq.dominates(body, false_t[0], bb) and false_t[0] != t['otherwise']:
                            facts.append(('Gt', ('len', origin_key(body, x['args'][0])), ('const', 0)))
            continue
        false_t = [tb for v, tb in t['targets'] if v == '0']
        true_b = t['otherwise']
        op = cmpst['rv']['op']
        a = origin_key(body, cmpst['rv']['a'])
        b = origin_key(body, cmpst['rv']['b'])
        if false_t and false_t[0] != true_b:
            if mirq.dominates(body, true_b, bb) and len(body.preds()[true_b]) == 1:
                facts.append((op, a, b))
            elif mirq.dominates(body, false_t[0], bb) and len(body.preds()[false_t[0]]) == 1:
                facts.append((NEG[op], a, b))
    return facts


def implies_ge(facts, x, y):
    """do the facts imply x >= y (unsigned)?"""
    for op, a, b in facts:
        for (o, p, q) in ((op, a, b), (FLIP[op], b, a)):
            if p == x and q == y and o in ('Ge', 'Gt', 'Eq'):
                return True
            # x >= c' with constant c' >= c
            if p == x and q[0] == 'const' and y[0] == 'const':
                if o == 'Ge' and q[1] >= y[1]:
                    return True
                if o == 'Gt' and q[1] + 1 >= y[1]:
                    return True
                if o == 'Eq' and q[1] >= y[1]:
                    return True
                if o == 'Ne' and q[1] == 0 and y[1] <= 1:
                    return True
    return False


def root_local(body, local, depth=10):
    """follow single-definition whole-local copies / moves back to the local that first holds the value"""
    cur = local
    for _ in range(depth):
        ds = body.defs().get(cur, [])
        if len(ds) != 1 or ds[0][0] != 'stmt':
            return cur
        rv = ds[0][3]['rv']
        if rv['k'] == 'ref' and rv['place']['p'] == ['*']:
            # a reborrow &(*x) denotes what x denotes
            cur = rv['place']['l']
            continue
        p = op_place(rv['op']) if rv['k'] == 'use' else None
        if p is None or p['p']:
            return cur
        cur = p['l']
    return cur


def implies_ge_at_callers(mir, body, x, y):
    """x >= y for a private helper whose operands are constants or places rooted in its parameters: translate the operands to
    every in-crate call site and ask the facts that dominate the call.  False when there is no call site."""
    import re
    if body.kind == 'closure':
        return False
    sites = mir.callers_index().get(body.nid, [])
    if not sites:
        return False

    def translate(k, cb, ct):
        if k[0] in ('const', 'constx'):
            return k
        if k[0] == 'place':
            m = re.match(r'_(\d+)(.*)$', k[1])
            if not m:
                return None
            n = int(m.group(1))
            if not (1 <= n <= body.d['argc']) or body.defs().get(n) or n - 1 >= len(ct['args']):
                return None
            ap = op_place(ct['args'][n - 1])
            if ap is None or ap['p']:
                return None
            return ('place', '_%d%s' % (root_local(cb, ap['l']), m.group(2)))
        return None
    for cb, cbb, ct in sites:
        tx, ty = translate(x, cb, ct), translate(y, cb, ct)
        if tx is None or ty is None:
            return False
        if not implies_ge(dominating_facts(cb, cbb), tx, ty):
            return False
    return True
