"""A small abstract evaluator for one MIR body: runs a region of the CFG on a *finite* set of abstract inputs.

The caller supplies an oracle for calls (e.g. "Vec::len(&bucket) = 2"); integer / boolean statements are evaluated
concretely, everything else is Unknown; a switch on an Unknown value explores every successor.  The result is, per
abstract input, the set of *events* (labels chosen by the caller) that can be reached.  It is used where a property is a
decision table over a few small quantities (how many candidates matched in each tier, ...): the table is compared with the
specification for every abstract input, whatever syntactic form (if-chain, match on a tuple, early returns) the code has.
No path of the program is executed: the evaluator never leaves the abstract domain the caller chose."""
from .facts import op_place

UNKNOWN = None
MAX_STATES = 50000


def pkey(p):
    parts = ['_%d' % p['l']]
    for e in p['p']:
        if e == '*':
            parts.append('*')
        elif isinstance(e, dict) and 'dc' in e:
            parts.append('as:%d' % e['vi'])
        elif isinstance(e, dict) and 'f' in e:
            parts.append('f%d' % e['f'])
        else:
            parts.append('?')
    return '/'.join(parts)


def _cmp(op, a, b):
    return {'Eq': a == b, 'Ne': a != b, 'Lt': a < b, 'Le': a <= b, 'Gt': a > b, 'Ge': a >= b}[op]


class Region:
    def __init__(self, body, call_oracle, event_of):
        """call_oracle(term, argvals, env) -> value | UNKNOWN ; event_of(kind, bb, idx, node, env, get) -> label | None.
        An event ends the path (it is a terminal decision)."""
        self.b = body
        self.call_oracle = call_oracle
        self.event_of = event_of

    # ---- values: int, bool, ('ref', placekey), ('tuple', (v0, v1, ..)), UNKNOWN
    def get(self, env, p):
        k = pkey(p)
        if k in env:
            return env[k]
        # projection of a known tuple
        if p['p'] and isinstance(p['p'][-1], dict) and 'f' in p['p'][-1]:
            base = dict(p)
            base = {'l': p['l'], 'p': p['p'][:-1]}
            v = self.get(env, base)
            if isinstance(v, tuple) and v and v[0] == 'tuple':
                f = p['p'][-1]['f']
                if f < len(v[1]):
                    return v[1][f]
        # deref of a known reference
        if p['p'] and p['p'][-1] == '*':
            v = self.get(env, {'l': p['l'], 'p': p['p'][:-1]})
            if isinstance(v, tuple) and v and v[0] == 'ref':
                return env.get(v[1], UNKNOWN)
        return UNKNOWN

    def opval(self, env, o):
        if 'const' in o:
            c = o['const']
            if 'bool' in c:
                return bool(c['bool'])
            if 'int' in c:
                try:
                    return int(c['int'])
                except ValueError:
                    return UNKNOWN
            return UNKNOWN
        p = op_place(o)
        if p is None:
            return UNKNOWN
        return self.get(env, p)

    def rvalue(self, env, rv):
        k = rv['k']
        if k == 'use':
            return self.opval(env, rv['op'])
        if k == 'ref':
            return ('ref', pkey(rv['place']))
        if k == 'bin':
            a, b = self.opval(env, rv['a']), self.opval(env, rv['b'])
            op = rv['op']
            if isinstance(a, (int, bool)) and isinstance(b, (int, bool)):
                if op in ('Eq', 'Ne', 'Lt', 'Le', 'Gt', 'Ge'):
                    return _cmp(op, a, b)
                if op in ('Add', 'AddUnchecked'):
                    return a + b
                if op in ('Sub', 'SubUnchecked'):
                    return a - b
                if op == 'BitAnd':
                    return (a & b) if not isinstance(a, bool) else (a and b)
                if op == 'BitOr':
                    return (a | b) if not isinstance(a, bool) else (a or b)
                if op in ('AddWithOverflow', 'SubWithOverflow'):
                    r = a + b if op.startswith('Add') else a - b
                    return ('tuple', (r, r < 0))
            return UNKNOWN
        if k == 'un':
            a = self.opval(env, rv['a'])
            if rv['op'] == 'Not' and isinstance(a, bool):
                return not a
            return UNKNOWN
        if k == 'agg' and rv.get('ak') == 'tuple':
            return ('tuple', tuple(self.opval(env, o) for o in rv['ops']))
        if k == 'cast':
            v = self.opval(env, rv['op'])
            return v if isinstance(v, int) and not isinstance(v, bool) else UNKNOWN
        return UNKNOWN

    def assign(self, env, place, val):
        k = pkey(place)
        env = {kk: vv for kk, vv in env.items() if not (kk == k or kk.startswith(k + '/'))}
        if val is not UNKNOWN:
            env[k] = val
        return env

    def run(self, start, env0):
        """returns (events:set, silent_returns:int, overflow:bool)"""
        b = self.b
        events = set()
        silent = 0
        seen = set()
        stack = [(start, env0)]
        n = 0
        while stack:
            bb, env = stack.pop()
            key = (bb, tuple(sorted((k, repr(v)) for k, v in env.items())))
            if key in seen:
                continue
            seen.add(key)
            n += 1
            if n > MAX_STATES:
                return events, silent, True
            bl = b.blocks[bb]
            if bl.get('cleanup'):
                continue
            ended = False
            for i, s in enumerate(bl['stmts']):
                ev = self.event_of('stmt', bb, i, s, env, self)
                if ev is not None:
                    events.add(ev)
                    ended = True
                    break
                if s['k'] == 'assign':
                    env = self.assign(env, s['place'], self.rvalue(env, s['rv']))
            if ended:
                continue
            t = bl['term']
            ev = self.event_of('term', bb, None, t, env, self)
            if ev is not None:
                events.add(ev)
                continue
            k = t['k']
            if k == 'return':
                silent += 1
            elif k == 'goto':
                stack.append((t['target'], env))
            elif k == 'drop':
                stack.append((t['target'], env))
            elif k == 'assert':
                stack.append((t['target'], env))
            elif k == 'call':
                if t.get('target') is None:
                    continue
                vals = [self.opval(env, a) for a in t['args']]
                v = self.call_oracle(t, vals, env)
                stack.append((t['target'], self.assign(env, t['dest'], v)))
            elif k == 'switch':
                v = self.opval(env, t['discr'])
                if isinstance(v, bool):
                    v = 1 if v else 0
                if isinstance(v, int):
                    tgt = None
                    for val, x in t['targets']:
                        if int(val) == v:
                            tgt = x
                    stack.append((tgt if tgt is not None else t['otherwise'], env))
                else:
                    for val, x in t['targets']:
                        stack.append((x, env))
                    stack.append((t['otherwise'], env))
            else:
                # unreachable / resume / other: path ends
                pass
        return events, silent, False
