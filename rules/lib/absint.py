"""A small abstract evaluator for one MIR body: runs a region of the CFG on a *finite* set of abstract inputs.

The caller supplies an oracle for calls (e.g. "Vec::len(&bucket) = 2"); integer / boolean statements are evaluated
concretely, everything else is Unknown; a switch on an Unknown value explores every successor.  The result is, per
abstract input, the set of *events* (labels chosen by the caller) that can be reached.  It is used where a property is a
decision table over a few small quantities (how many candidates matched in each tier, ...): the table is compared with the
specification for every abstract input, whatever syntactic form (if-chain, match on a tuple, early returns) the code has.
No path of the program is executed: the evaluator never leaves the abstract domain the caller chose."""
from .facts import op_place

UNKNOWN = None
MAX_STATES = 50000


def pkey(p):
    parts = ['_%d' % p['l']]
    for e in p['p']:
        if e == '*':
            parts.append('*')
        elif isinstance(e, dict) and 'dc' in e:
            parts.append('as:%d' % e['vi'])
        elif isinstance(e, dict) and 'f' in e:
            parts.append('f%d' % e['f'])
        else:
            parts.append('?')
    return '/'.join(parts)


def _freeze(p):
    import json
    return json.dumps(p, sort_keys=True)


def _thaw(s):
    import json
    return json.loads(s)


CURRENT = []     # the regions being evaluated (innermost last): lets call oracles dereference reference values


def deref(region, env, v, depth=4):
    """follow reference values to what they point at"""
    if region is None and CURRENT:
        region = CURRENT[-1]
    for _ in range(depth):
        if isinstance(v, tuple) and v and v[0] == 'ref':
            if v[1] in env:
                v = env[v[1]]
            elif len(v) > 2 and v[2] and region is not None:
                v = region.get(env, _thaw(v[2]))
            else:
                return UNKNOWN
        else:
            break
    return v


def _cmp(op, a, b):
    return {'Eq': a == b, 'Ne': a != b, 'Lt': a < b, 'Le': a <= b, 'Gt': a > b, 'Ge': a >= b}[op]


class Region:
    field_oracle = None

    def __init__(self, body, call_oracle, event_of, field_oracle=None):
        self.field_oracle = field_oracle
        self._init(body, call_oracle, event_of)

    def _init(self, body, call_oracle, event_of):
        """call_oracle(term, argvals, env) -> value | UNKNOWN ; event_of(kind, bb, idx, node, env, get) -> label | None.
        An event ends the path (it is a terminal decision)."""
        self.b = body
        self.call_oracle = call_oracle
        self.event_of = event_of

    # ---- values: int, bool, ('ref', placekey), ('tuple', (v0, v1, ..)), UNKNOWN
    def get(self, env, p):
        k = pkey(p)
        if k in env:
            return env[k]
        # projection of a known tuple
        if p['p'] and isinstance(p['p'][-1], dict) and 'f' in p['p'][-1]:
            base = dict(p)
            base = {'l': p['l'], 'p': p['p'][:-1]}
            v = self.get(env, base)
            if isinstance(v, tuple) and v and v[0] == 'tuple':
                f = p['p'][-1]['f']
                if f < len(v[1]):
                    return v[1][f]
        # named field of a known struct value
        if p['p'] and isinstance(p['p'][-1], dict) and 'n' in p['p'][-1] and 'dc' not in p['p'][-1]:
            v = self.get(env, {'l': p['l'], 'p': p['p'][:-1]})
            if isinstance(v, tuple) and v and v[0] == 'struct':
                for fn_, fv in v[2]:
                    if fn_ == p['p'][-1]['n']:
                        return fv
        # payload of a known Option value: (x as Some).0
        if len(p['p']) >= 2 and isinstance(p['p'][-1], dict) and 'f' in p['p'][-1] and isinstance(p['p'][-2], dict) and p['p'][-2].get('dc') == 'Some':
            v = self.get(env, {'l': p['l'], 'p': p['p'][:-2]})
            if isinstance(v, tuple) and v and v[0] == 'some':
                return v[1]
        # payload of a caller-supplied enum value ('enum', variant index, variant name, payload tuple)
        if len(p['p']) >= 2 and isinstance(p['p'][-1], dict) and 'f' in p['p'][-1] and isinstance(p['p'][-2], dict) and 'dc' in p['p'][-2]:
            v = self.get(env, {'l': p['l'], 'p': p['p'][:-2]})
            if isinstance(v, tuple) and v and v[0] == 'enum' and v[2] == p['p'][-2]['dc'] and p['p'][-1]['f'] < len(v[3]):
                return v[3][p['p'][-1]['f']]
        # payloads of Result / ControlFlow values: (x as Ok).0, (x as Err).0, (x as Continue).0, (x as Break).0
        if len(p['p']) >= 2 and isinstance(p['p'][-1], dict) and 'f' in p['p'][-1] and isinstance(p['p'][-2], dict) and p['p'][-2].get('dc') in ('Ok', 'Err', 'Continue', 'Break'):
            v = self.get(env, {'l': p['l'], 'p': p['p'][:-2]})
            want = {'Ok': 'ok', 'Err': 'err', 'Continue': 'cf-continue', 'Break': 'cf-break'}[p['p'][-2]['dc']]
            if isinstance(v, tuple) and v and v[0] == want:
                return v[1]
        # caller-supplied symbolic fields (e.g. the `timeout` field of the statistics)
        if self.field_oracle is not None and p['p']:
            fv = self.field_oracle(p, env)
            if fv is not UNKNOWN:
                return fv
        # deref of a known reference
        if p['p'] and p['p'][-1] == '*':
            v = self.get(env, {'l': p['l'], 'p': p['p'][:-1]})
            if isinstance(v, tuple) and v and v[0] == 'ref':
                if v[1] in env:
                    return env[v[1]]
                if len(v) > 2 and v[2]:
                    return self.get(env, _thaw(v[2]))
                return UNKNOWN
        return UNKNOWN

    def opval(self, env, o):
        if 'const' in o:
            c = o['const']
            if 'bool' in c:
                return bool(c['bool'])
            if 'int' in c:
                try:
                    return int(c['int'])
                except ValueError:
                    return UNKNOWN
            return UNKNOWN
        p = op_place(o)
        if p is None:
            return UNKNOWN
        return self.get(env, p)

    def rvalue(self, env, rv):
        k = rv['k']
        if k == 'use':
            return self.opval(env, rv['op'])
        if k == 'ref':
            pl = rv['place']
            # a re-borrow `&*x` of something that already stands for a reference is that reference
            if pl['p'] == ['*']:
                v0 = env.get('_%d' % pl['l'], UNKNOWN)
                if v0 is not UNKNOWN:
                    return v0
            return ('ref', pkey(pl), _freeze(pl))
        if k == 'bin':
            a, b = self.opval(env, rv['a']), self.opval(env, rv['b'])
            op = rv['op']
            if isinstance(a, (int, bool)) and isinstance(b, (int, bool)):
                if op in ('Eq', 'Ne', 'Lt', 'Le', 'Gt', 'Ge'):
                    return _cmp(op, a, b)
                if op in ('Add', 'AddUnchecked'):
                    return a + b
                if op in ('Sub', 'SubUnchecked'):
                    return a - b
                if op == 'BitAnd':
                    return (a & b) if not isinstance(a, bool) else (a and b)
                if op == 'BitOr':
                    return (a | b) if not isinstance(a, bool) else (a or b)
                if op in ('AddWithOverflow', 'SubWithOverflow'):
                    r = a + b if op.startswith('Add') else a - b
                    return ('tuple', (r, r < 0))
            return UNKNOWN
        if k == 'un':
            a = self.opval(env, rv['a'])
            if rv['op'] == 'Not' and isinstance(a, bool):
                return not a
            return UNKNOWN
        if k == 'agg' and rv.get('ak') == 'tuple':
            return ('tuple', tuple(self.opval(env, o) for o in rv['ops']))
        if k == 'discr':
            v = self.get(env, rv['place'])
            if v == 'none':
                return 0
            if isinstance(v, tuple) and v and v[0] == 'some':
                return 1
            if isinstance(v, tuple) and v and v[0] in ('ok', 'err'):
                return 0 if v[0] == 'ok' else 1
            if isinstance(v, tuple) and v and v[0] in ('cf-continue', 'cf-break'):
                return 0 if v[0] == 'cf-continue' else 1
            if isinstance(v, tuple) and v and v[0] == 'enum':
                return v[1]
            return UNKNOWN
        if k == 'agg' and rv.get('ak') == 'adt':
            ops = [self.opval(env, o) for o in rv['ops']]
            adt, var = rv.get('adt') or '', rv.get('v')
            if adt == 'std::option::Option':
                return 'none' if var == 'None' else ('some', ops[0] if ops else UNKNOWN)
            if adt == 'std::result::Result':
                return ('ok', ops[0] if ops else UNKNOWN) if var == 'Ok' else ('err', ops[0] if ops else UNKNOWN)
            if rv.get('fields') and var == adt.split('::')[-1]:
                return ('struct', adt.split('::')[-1], tuple(zip(rv['fields'], ops)))
            return ('adt', adt.split('::')[-1], var) if not ops else ('adt', adt.split('::')[-1], var, tuple(ops))
        if k == 'cast':
            v = self.opval(env, rv['op'])
            return v if isinstance(v, int) and not isinstance(v, bool) else UNKNOWN
        return UNKNOWN

    def assign(self, env, place, val):
        k = pkey(place)
        env = {kk: vv for kk, vv in env.items() if not (kk == k or kk.startswith(k + '/'))}
        if val is not UNKNOWN:
            env[k] = val
        return env

    def run(self, start, env0):
        """returns (events:set, silent_returns:int, overflow:bool)"""
        b = self.b
        events = set()
        silent = 0
        seen = set()
        stack = [(start, env0)]
        n = 0
        while stack:
            bb, env = stack.pop()
            key = (bb, tuple(sorted((k, repr(v)) for k, v in env.items())))
            if key in seen:
                continue
            seen.add(key)
            n += 1
            if n > MAX_STATES:
                return events, silent, True
            bl = b.blocks[bb]
            if bl.get('cleanup'):
                continue
            ended = False
            for i, s in enumerate(bl['stmts']):
                ev = self.event_of('stmt', bb, i, s, env, self)
                if ev is not None:
                    events.add(ev)
                    ended = True
                    break
                if s['k'] == 'assign':
                    env = self.assign(env, s['place'], self.rvalue(env, s['rv']))
            if ended:
                continue
            t = bl['term']
            ev = self.event_of('term', bb, None, t, env, self)
            if ev is not None:
                events.add(ev)
                continue
            k = t['k']
            if k == 'return':
                silent += 1
            elif k == 'goto':
                stack.append((t['target'], env))
            elif k == 'drop':
                stack.append((t['target'], env))
            elif k == 'assert':
                stack.append((t['target'], env))
            elif k == 'call':
                if t.get('target') is None:
                    continue
                vals = [self.opval(env, a) for a in t['args']]
                v = self.call_oracle(t, vals, env)
                stack.append((t['target'], self.assign(env, t['dest'], v)))
            elif k == 'switch':
                v = self.opval(env, t['discr'])
                if isinstance(v, bool):
                    v = 1 if v else 0
                if isinstance(v, int):
                    tgt = None
                    for val, x in t['targets']:
                        if int(val) == v:
                            tgt = x
                    stack.append((tgt if tgt is not None else t['otherwise'], env))
                else:
                    for val, x in t['targets']:
                        stack.append((x, env))
                    stack.append((t['otherwise'], env))
            else:
                # unreachable / resume / other: path ends
                pass
        return events, silent, False


def region_with_std_oracle(mir, body, call_oracle, event_of, field_oracle=None, depth=3, cls=None):
    """a Region over `body` whose call oracle knows the Option / bool / Result adaptors of std, evaluates closures handed to them
    and small functions of the crate recursively (as `returns` does), and asks `call_oracle` for everything else"""
    return _build(mir, body, call_oracle, field_oracle, depth, event_of, cls)


def returns(mir, body, env0, call_oracle, field_oracle=None, depth=3):
    """the set of abstract values the body can return when started with env0 (closures handed to the Option / bool / Result
    adaptors of std are evaluated recursively; everything else goes to call_oracle)"""
    def event(kind, bb, idx, node, env, R):
        if kind == 'term' and node['k'] == 'return':
            v = R.get(env, {'l': 0, 'p': []})
            return ('ret', repr(v))
        return None
    R0 = _build(mir, body, call_oracle, field_oracle, depth, event)
    CURRENT.append(R0)
    try:
        evs, silent, over = R0.run(0, dict(env0))
    finally:
        CURRENT.pop()
    out = set()
    for e in evs:
        if isinstance(e, tuple) and e[0] == 'ret':
            out.add(eval(e[1]) if e[1] != 'None' else UNKNOWN)
    if over:
        out.add(UNKNOWN)
    return out


def _build(mir, body, call_oracle, field_oracle, depth, event_of, cls=None):
    from .facts import strip_generics, callee_name, op_place
    from . import mirq

    def closure_body(b, op):
        p = op_place(op)
        if p is None or p['p']:
            return None, None
        k, v = mirq.chase(b, p['l'])
        if k == 'rv' and v[2]['rv']['k'] == 'agg' and v[2]['rv'].get('ak') == 'closure':
            return mir.by_id.get(v[2]['rv'].get('def')), v[2]['rv']
        return None, None

    def run_closure(b, op, args, env):
        cb, agg = closure_body(b, op)
        if cb is None or depth <= 0:
            return {UNKNOWN}
        e0 = {}
        for i, a in enumerate(args):
            if a is not UNKNOWN:
                e0['_%d' % (2 + i)] = a
        # captured values: field i of the environment reference _1
        caps = [R0.opval(env, o) for o in (agg.get('ops') or [])]
        if caps:
            e0['_1'] = ('ref', '#env')
            e0['#env'] = ('tuple', tuple(caps))
        return returns(mir, cb, e0, call_oracle, field_oracle, depth - 1)

    pending = {}

    def oracle(t, vals, env):
        nm = strip_generics(callee_name(t) or '')
        if nm == 'std::option::Option::map_or' and len(vals) == 3:
            if vals[0] == 'none':
                return vals[1]
            if isinstance(vals[0], tuple) and vals[0][0] == 'some':
                r = run_closure(R0.b, t['args'][2], [vals[0][1]], env)
                return next(iter(r)) if len(r) == 1 else UNKNOWN
            return UNKNOWN
        if nm in ('std::option::Option::is_some_and',) and len(vals) == 2:
            if vals[0] == 'none':
                return False
            if isinstance(vals[0], tuple) and vals[0][0] == 'some':
                r = run_closure(R0.b, t['args'][1], [vals[0][1]], env)
                return next(iter(r)) if len(r) == 1 else UNKNOWN
            return UNKNOWN
        if nm == 'core::bool::<impl bool>::then_some' and len(vals) == 2:
            if isinstance(vals[0], bool):
                return ('some', vals[1]) if vals[0] else 'none'
            return UNKNOWN
        if nm == 'std::option::Option::ok_or' and len(vals) == 2:
            if vals[0] == 'none':
                return ('err', vals[1])
            if isinstance(vals[0], tuple) and vals[0][0] == 'some':
                return ('ok', vals[0][1])
            return UNKNOWN
        if nm in ('std::option::Option::is_none', 'std::option::Option::is_some') and vals:
            v = vals[0]
            if isinstance(v, tuple) and v[0] == 'ref':
                v = env.get(v[1], UNKNOWN)
            if v == 'none':
                return nm.endswith('is_none')
            if isinstance(v, tuple) and v and v[0] == 'some':
                return nm.endswith('is_some')
            return UNKNOWN
        if nm in ('std::result::Result::is_ok', 'std::result::Result::is_err') and vals:
            v = deref(R0, env, vals[0])
            if isinstance(v, tuple) and v and v[0] in ('ok', 'err'):
                return (v[0] == 'ok') == nm.endswith('is_ok')
            return UNKNOWN
        if nm.endswith('Try>::branch') or nm == 'std::ops::Try::branch':
            v = vals[0] if vals else UNKNOWN
            if isinstance(v, tuple) and v and v[0] == 'ok':
                return ('cf-continue', v[1])
            if isinstance(v, tuple) and v and v[0] == 'err':
                return ('cf-break', ('err', v[1]))
            if isinstance(v, tuple) and v and v[0] == 'some':
                return ('cf-continue', v[1])
            if v == 'none':
                return ('cf-break', 'none')
            return UNKNOWN
        if nm.endswith('::from_residual'):
            v = vals[0] if vals else UNKNOWN
            if v is UNKNOWN:
                # propagating a residual always yields the failure form of the returned type
                full = callee_name(t) or ''
                if full.startswith('<std::result::Result'):
                    return ('err', UNKNOWN)
                if full.startswith('<std::option::Option'):
                    return 'none'
            return v
        if nm == 'std::cmp::Ordering::reverse' and vals:
            v = vals[0]
            if isinstance(v, tuple) and len(v) >= 3 and v[0] == 'adt' and v[1] == 'Ordering':
                return ('adt', 'Ordering', {'Less': 'Greater', 'Greater': 'Less', 'Equal': 'Equal'}[v[2]])
            return UNKNOWN
        if nm == 'std::option::Option::unwrap_or' and len(vals) == 2:
            if vals[0] == 'none':
                return vals[1]
            if isinstance(vals[0], tuple) and vals[0] and vals[0][0] == 'some':
                return vals[0][1]
            return UNKNOWN
        r = call_oracle(t, vals, env)
        if r is not UNKNOWN:
            return r
        # a small function of the crate itself: evaluate it on the abstract arguments
        cal = t.get('callee')
        cb = mir.by_id.get(cal) if cal else None
        if cb is None and cal:
            cs = mir.by_nid.get(strip_generics(cal), [])
            cb = cs[0] if len(cs) == 1 else None
        if cb is not None and depth > 0 and cb.kind == 'fn' and len(cb.blocks) <= 40:
            # '#name' entries are the caller-supplied symbolic heap (what oracle references point at): visible in every frame
            e0 = {k_: v_ for k_, v_ in env.items() if k_.startswith('#') and not k_.startswith(('#arg', '#env'))}
            for i, a in enumerate(vals):
                if a is not UNKNOWN:
                    if isinstance(a, tuple) and a and a[0] == 'ref':
                        # a reference into the caller's frame: hand over what it points at, re-boxed in the callee's frame
                        tgt = deref(R0, env, a, depth=1)
                        if tgt is not UNKNOWN:
                            e0['#arg%d' % i] = tgt
                            e0['_%d' % (1 + i)] = ('ref', '#arg%d' % i)
                    else:
                        e0['_%d' % (1 + i)] = a
            rs = returns(mir, cb, e0, call_oracle, field_oracle, depth - 1)
            return next(iter(rs)) if len(rs) == 1 else UNKNOWN
        return UNKNOWN

    R0 = (cls or Region)(body, oracle, event_of, field_oracle)
    return R0
