"""Small path-sensitive exploration of one MIR body over (constant bool flags × known enum discriminants of places).
Used to decide whether a Drop terminator can execute while the dropped place may still hold a given variant."""
from .facts import op_local, op_place

MAX_STATES = 20000


def place_key(p):
    parts = ['_%d' % p['l']]
    for e in p['p']:
        if e == '*':
            parts.append('*')
        elif isinstance(e, dict) and 'dc' in e:
            parts.append('as:%d' % e['vi'])
        elif isinstance(e, dict) and 'f' in e:
            parts.append('f%d' % e['f'])
        else:
            parts.append('?')
    return '/'.join(parts)


def is_prefix(k, other):
    return other == k or other.startswith(k + '/')


class Explorer:
    def __init__(self, body, variant_counts):
        """variant_counts(place_type_string) -> number of variants or None"""
        self.b = body
        self.vc = variant_counts
        # locals that are a plain reference to a place (single definition)
        self.ref_of = {}
        for l, ds in body.defs().items():
            if len(ds) == 1 and ds[0][0] == 'stmt' and ds[0][3]['rv']['k'] == 'ref':
                self.ref_of[l] = place_key(ds[0][3]['rv']['place'])
        for l, ds in body.defs().items():
            if len(ds) == 1 and ds[0][0] == 'stmt' and ds[0][3]['rv']['k'] == 'ref':
                p = ds[0][3]['rv']['place']
                # &(*_r) where _r is itself a reference to a place
                if p['p'] == ['*'] and p['l'] in self.ref_of:
                    self.ref_of[l] = self.ref_of[p['l']]
        # bool locals assigned only constants: drop flags and friends
        self.flags = set()
        defs = body.defs()
        for l, ds in defs.items():
            if body.local_ty(l) != 'bool':
                continue
            if all(kind == 'stmt' and x['rv']['k'] == 'use' and 'const' in x['rv']['op'] and 'bool' in x['rv']['op']['const'] for kind, bb, idx, x in ds):
                self.flags.add(l)

    def classify_ret(self, rv, known):
        """what the return place holds after this assignment: 'viol' when it certainly carries a RuntimeViolation"""
        b = self.b
        if rv['k'] == 'agg' and rv.get('ak') == 'adt':
            # Result::Err(x: RuntimeViolation)  |  Option::Some(r) where r is known Err(violation)
            if rv['adt'] == 'std::result::Result' and rv['v'] == 'Err' and rv['ops']:
                p = op_place(rv['ops'][0])
                if p is not None and not p['p'] and b.local_ty(p['l']).startswith('runtime_violation::RuntimeViolation'):
                    return 'viol'
            if rv['adt'] == 'std::option::Option' and rv['v'] == 'Some' and rv['ops']:
                p = op_place(rv['ops'][0])
                if p is not None and not p['p']:
                    ty = b.local_ty(p['l'])
                    if ty.startswith('std::result::Result<') and ty.rstrip('>').endswith('runtime_violation::RuntimeViolation') and known.get(place_key(p)) == 1:
                        return 'viol'
        return 'other'

    def explore(self, on_drop):
        """DFS over (block, state); on_drop(bb, term, known: dict place_key->variant) called for every reachable non-cleanup Drop"""
        b = self.b
        seen = set()
        stack = [(0, frozenset(), frozenset([('#ret', 'unset')]))]
        n = 0
        while stack:
            bb, fl, kn = stack.pop()
            key = (bb, fl, kn)
            if key in seen:
                continue
            seen.add(key)
            n += 1
            if n > MAX_STATES:
                return False
            flags = dict(fl)
            known = dict(kn)
            discr_tmp = {}
            for s in b.blocks[bb]['stmts']:
                if s['k'] == 'setdiscr':
                    k = place_key(s['place'])
                    known = {x: v for x, v in known.items() if not is_prefix(k, x)}
                    known[k] = s['vi']
                    continue
                if s['k'] != 'assign':
                    continue
                lhs = s['place']
                rv = s['rv']
                lk = place_key(lhs)
                if not lhs['p'] and lhs['l'] in self.flags and rv['k'] == 'use' and 'const' in rv['op']:
                    flags[lhs['l']] = rv['op']['const'].get('bool')
                    continue
                if rv['k'] == 'discr' and not lhs['p']:
                    discr_tmp[lhs['l']] = (place_key(rv['place']), rv['pty'])
                    continue
                # any other write invalidates knowledge about the written place (and sub-places)
                known = {x: v for x, v in known.items() if not is_prefix(lk, x)}
                if lhs['l'] == 0 and not lhs['p']:
                    known['#ret'] = self.classify_ret(rv, known)
                if rv['k'] == 'agg' and rv.get('ak') == 'adt':
                    known[lk] = rv['vi']
                elif rv['k'] == 'use':
                    src = op_place(rv['op'])
                    if src is not None:
                        sk = place_key(src)
                        for x, v in list(known.items()):
                            if is_prefix(sk, x):
                                known[lk + x[len(sk):]] = v
                        if 'move' in rv['op'] and not src['p']:
                            pass
            t = b.blocks[bb]['term']
            k = t['k']
            nf = frozenset(flags.items())

            def push(nb, kn2=None):
                stack.append((nb, nf, frozenset((kn2 if kn2 is not None else known).items())))
            if k == 'goto':
                push(t['target'])
            elif k == 'switch':
                dl = op_local(t['discr'])
                targets = t['targets']
                if dl in self.flags and flags.get(dl) is not None:
                    val = '1' if flags[dl] else '0'
                    hit = [x for v, x in targets if v == val]
                    push(hit[0] if hit else t['otherwise'])
                elif dl in discr_tmp:
                    pk, pty = discr_tmp[dl]
                    if pk in known:
                        hit = [x for v, x in targets if v == str(known[pk])]
                        push(hit[0] if hit else t['otherwise'])
                    else:
                        listed = set()
                        for v, x in targets:
                            kn2 = dict(known)
                            kn2[pk] = int(v)
                            listed.add(int(v))
                            push(x, kn2)
                        nv = self.vc(pty)
                        kn2 = dict(known)
                        if nv is not None:
                            rest = [i for i in range(nv) if i not in listed]
                            if len(rest) == 1:
                                kn2[pk] = rest[0]
                            if rest:
                                push(t['otherwise'], kn2)
                        else:
                            push(t['otherwise'], kn2)
                else:
                    for v, x in targets:
                        push(x)
                    push(t['otherwise'])
            elif k == 'drop':
                if not b.blocks[bb]['cleanup']:
                    on_drop(bb, t, known)
                pk = place_key(t['place'])
                kn2 = {x: v for x, v in known.items() if not is_prefix(pk, x)}
                push(t['target'], kn2)
            elif k == 'call':
                nmc = (t.get('callee') or t.get('decl') or '')
                if 'std::clone::Clone' in nmc and t['args']:
                    # remember that a copy of this place exists (it was handed on)
                    al = op_local(t['args'][0])
                    src = self.ref_of.get(al)
                    if src is not None:
                        known = dict(known)
                        known['#cl:' + src] = 1
                if t['target'] is not None:
                    dk = place_key(t['dest'])
                    kn2 = {x: v for x, v in known.items() if not is_prefix(dk, x)}
                    if t['dest']['l'] == 0 and not t['dest']['p']:
                        nm = (t.get('callee') or t.get('decl') or '')
                        kn2['#ret'] = 'viol' if ('FromResidual' in nm and 'RuntimeViolation' in ' '.join(t.get('argtys') or [])) else 'other'
                    # arguments moved into the call are gone
                    for a in t['args']:
                        if 'move' in a:
                            ak = place_key(a['move'])
                            kn2 = {x: v for x, v in kn2.items() if not is_prefix(ak, x)}
                    push(t['target'], kn2)
            elif k == 'assert':
                push(t['target'])
        return True
