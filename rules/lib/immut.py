"""R15.1 immutability audit, shared by C09 (no cycles), C15, C16, C17:
a value reachable from a program can never change after construction."""
import re
from . import mirq, astq
from .facts import strip_generics, walk

FORBIDDEN_NAMES = re.compile(r'^(Cell|RefCell|UnsafeCell|Mutex|RwLock|OnceCell|OnceLock|LazyCell|LazyLock|Atomic[A-Z]\w*|SyncUnsafeCell)$')
_PATH = re.compile(r'[A-Za-z_][A-Za-z_0-9]*(?:::[A-Za-z_][A-Za-z_0-9]*)*')
LOCAL_ADTS = set()   # filled by audit(): the crate's own types may be *named* Cell (compilation_scope::Cell) without being one


class _Hit:
    def __init__(self, s):
        self.s = s

    def group(self, _=0):
        return self.s


class _Forbidden:
    """interior-mutability / raw-pointer carriers in a type string, judged on fully qualified paths: a path whose last
    segment is a cell-like name counts unless it is one of this crate's own ADTs"""
    @staticmethod
    def search(ty):
        if '*mut ' in ty:
            return _Hit('*mut ')
        for m in _PATH.finditer(ty):
            path = m.group(0)
            if FORBIDDEN_NAMES.match(path.split('::')[-1]) and path not in LOCAL_ADTS:
                return _Hit(path)
        return None


FORBIDDEN = _Forbidden()
MUT_PRIMS = re.compile(r'^(std|core|alloc)::(rc::Rc|sync::Arc)::(get_mut|make_mut|get_mut_unchecked|as_ptr|into_raw|from_raw)$|^(std|core)::cell::(Cell|RefCell|UnsafeCell)::|^(std|core)::ptr::(write|write_volatile|write_unaligned|swap|replace|copy|copy_nonoverlapping)$|^(std|core)::mem::transmute|^(std|core)::ptr::mut_ptr::')
UTIL_OK = ('util::trysort::', 'util::try_heap::', '<util::try_heap::', '<util::trysort::')
ROOTS = ['xvalue::XValue', 'xvalue::XFunction', 'xvalue::ManagedXValue', 'xvalue::ManagedXError', 'runtime_scope::RuntimeScopeTemplate',
         'runtime_scope::EvaluationCell', 'xexpr::XExpr', 'xexpr::XStaticFunction', 'xexpr::StaticUserFunction', 'root_compilation_scope::Declaration']
# fields that are deliberately the handle to the mutable runtime (accounting only; not program data)
HANDLE_FIELDS = {('xvalue::ManagedXValue', 'runtime'), ('xvalue::ManagedXError', 'runtime')}
# cells whose payload is not program data (one line of reason each)
CELL_PAYLOAD_OK = {
    'runtime::RuntimeStats': 'the runtime statistics (counters, writer, rng): the accounting handle',
    'string_interner::StringInterner': 'the compile-time identifier interner (holds names only)',
}
UNSAFE_FILES_OK = {
    'src/util/trysort.rs': 'fallible merge sort (audited by R19.3)',
    'src/util/try_heap.rs': 'fallible heap (audited by R19.3)',
    'src/util/special_prefix_interner.rs': '`unsafe fn resolve_unchecked` required by the string_interner Backend trait; compile-time interner, holds no program value',
}


def audit(ctx, rule):
    mir = ctx.mir
    local_adts = set(mir.adts)
    LOCAL_ADTS.clear()
    LOCAL_ADTS.update(local_adts)
    ident = re.compile(r'[A-Za-z_][A-Za-z_0-9]*(?:::[A-Za-z_][A-Za-z_0-9]*)+')
    roots = list(ROOTS)
    for im in mir.impls:
        if im.get('trait') == 'native_types::XNativeValue':
            roots.append(strip_generics(im['self']))
    missing = [r for r in roots if r not in local_adts]
    for r in missing:
        rule.fail('anchor/%s' % r, '-', 'root type %s of the immutability audit not found' % r)
    seen = set()
    todo = [r for r in roots if r in local_adts]
    STOP = {'runtime::Runtime', 'runtime::RuntimeStats', 'runtime::RuntimeLimits'}   # the runtime handle: accounting/limits, not program data
    while todo:
        a = todo.pop()
        if a in seen or a in STOP:
            continue
        seen.add(a)
        for v in mir.adts[a]['variants']:
            for f in v['fields']:
                if (a, f['name']) in HANDLE_FIELDS:
                    rule.exempted('%s.%s' % (a, f['name']), 'handle to the runtime (byte accounting and limits only)')
                    continue
                ty = f['ty']
                bad = FORBIDDEN.search(ty)
                rule.inst({'adt': a, 'variant': v['name'], 'field': f['name'], 'ty': ty[:100]}, ok=not bad, kind=(a, v['name'], f['name']))
                if bad:
                    rule.fail('%s/%s.%s' % (a, v['name'], f['name']), mir.adts[a]['span'].rsplit(':', 3)[0] if False else mir.adts[a]['span'].split(':')[0] + ':' + mir.adts[a]['span'].split(':')[1],
                              'value type holds interior-mutable / raw-pointer state (%s): values could change after construction (and form reference cycles)' % bad.group(0).strip())
                for m in ident.findall(ty):
                    if m in local_adts and m not in seen:
                        todo.append(m)
    # closure captures (natives are closures stored inside values)
    n = 0
    for b in mir.bodies:
        for i, j, s in b.stmts():
            if s['k'] == 'assign' and s['rv']['k'] == 'agg' and s['rv'].get('ak') == 'closure':
                n += 1
                for o in s['rv']['ops']:
                    p = o.get('move') or o.get('copy')
                    if p is None:
                        continue
                    ty = b.local_ty(p['l']) if not p['p'] else (p['p'][-1].get('t', '') if isinstance(p['p'][-1], dict) else '')
                    bad = FORBIDDEN.search(ty)
                    if bad and b.nid.startswith(UTIL_OK):
                        continue
                    if bad and any(c in ty for c in CELL_PAYLOAD_OK):
                        continue   # cells that hold no program value (see table)
                    if bad:
                        rule.fail('%s/capture' % strip_generics(s['rv']['def']), mirq.site(b, i, j), 'closure captures interior-mutable / raw-pointer state (%s)' % ty[:80])
    rule.inst({'closure_creation_sites_scanned': n}, kind='closures')
    # mutation-through-shared primitives
    for b in mir.bodies:
        if b.nid.startswith(UTIL_OK):
            continue
        for bb, t in b.calls():
            nm = strip_generics(t.get('callee') or t.get('decl') or '')
            if MUT_PRIMS.search(nm):
                aty = ' '.join(t.get('argtys') or [])
                if any(c in aty for c in CELL_PAYLOAD_OK) and '::cell::' in nm:
                    continue  # cells that hold no program value (see table)
                if '::cell::RefCell::new' in nm and any(c in (t.get('dty') or '') for c in CELL_PAYLOAD_OK):
                    continue
                if t.get('exp') and 'fmt' in aty:
                    continue
                rule.fail('%s/%s' % (b.nid, nm), mirq.site(b, bb), 'primitive %s can mutate or alias shared value storage' % nm)
        for i, j, s in b.stmts():
            if s['k'] == 'assign' and s['rv']['k'] == 'rawptr' and s['rv'].get('mut'):
                rule.fail('%s/raw-mut' % b.nid, mirq.site(b, i, j), 'raw mutable pointer taken')
    # unsafe in the syntax tree
    for f, items in ctx.ast['files'].items():
        hits = []

        def vis(nd, ps):
            if nd.get('k') == 'unsafe':
                hits.append(nd['line'])
            if nd.get('k') == 'impl' and nd.get('unsafe'):
                hits.append(nd['line'])
            if nd.get('k') == 'fn' and any('unsafe' == a for a in []):
                pass
        walk(items, vis)
        src = None
        if 'unsafe' in (ctx.src(f)):
            # `unsafe fn` is not a separate node kind: detect textually-but-structurally via the token stream of fn signatures
            import re as _re
            for m in _re.finditer(r'(?m)^\s*(?:pub(?:\([a-z]+\))?\s+)?unsafe\s+(fn|impl|trait)\b', ctx.src(f)):
                hits.append(ctx.src(f)[:m.start()].count('\n') + 1)
        if hits:
            ok = f in UNSAFE_FILES_OK
            rule.inst({'file': f, 'unsafe_sites': len(hits)}, ok=ok, kind=('unsafe', f))
            if ok:
                rule.exempted(f, UNSAFE_FILES_OK[f])
            else:
                rule.fail('%s/unsafe' % f, '%s:%d' % (f, hits[0]), 'unsafe code outside the audited utilities')
    rule.need(40)
