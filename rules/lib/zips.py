"""Zips of two collections on the MIR: what each side iterates (its *origin*), whether a length test on both origins
dominates the zip, and whether one side is reversed.  Origins are described without local names, so that hoisting an
operand into a `let`, renaming a binding or turning a loop into an iterator chain does not change them:
   call:<function>            the collection is the result of that function (e.g. XCompoundSpec::generics_with_bind)
   field:<Type.field/...>     a field path from a parameter / pattern binding (variant names and field names, no derefs)
   param:<n>                  a parameter itself
   range / other              counting ranges and anything else (never truncating partners / unrecognised)"""
import re
from .facts import op_place, strip_generics, callee_name
from . import mirq

PLUMBING = re.compile(r'(::iter$|::into_iter$|::iter_mut$|::cloned$|::copied$|::rev$|::enumerate$|::deref$|::as_ref$|::as_slice$|::borrow$|::by_ref$|::skip$|::peekable$|::as_mut$|::deref_mut$|::clone$|::to_vec$)')


def place_path(body, p):
    """field/variant path of a place, through reference locals, as a tuple of names"""
    names = []
    for e in p['p']:
        if isinstance(e, dict):
            if 'dc' in e:
                names.append(str(e['dc']))
            elif 'n' in e:
                names.append(str(e['n']))
            elif 'f' in e:
                names.append('#%d' % e['f'])
    return names


def origin(body, local, depth=14):
    """(kind, detail, reversed?, root_local) of the collection an iterator local walks over"""
    rev = False
    cur = local
    path = []
    for _ in range(depth):
        ds = body.defs().get(cur, [])
        if not ds:
            if 1 <= cur <= body.d['argc']:
                return ('param' if not path else 'field', ('%d' % cur) if not path else 'arg%d.%s' % (cur, '.'.join(path)), rev, cur)
            return ('other', 'undefined', rev, cur)
        if len(ds) > 1:
            return ('other', 'multi', rev, cur)
        kind, bb, idx, x = ds[0]
        if kind == 'call':
            nm = strip_generics(callee_name(x) or '')
            if nm.endswith('::rev'):
                rev = not rev
            if PLUMBING.search(nm) and x['args']:
                p = op_place(x['args'][0])
                if p is None:
                    return ('other', 'const', rev, cur)
                path = place_path(body, p) + path
                cur = p['l']
                continue
            if re.search(r'ops::Range|RangeFrom|RangeInclusive', x.get('dty') or ''):
                return ('range', nm, rev, cur)
            return ('call', nm, rev, cur)
        rv = x['rv']
        if rv['k'] in ('use', 'ref', 'copyderef', 'cast'):
            p = rv['place'] if rv['k'] in ('ref', 'copyderef') else op_place(rv['op'])
            if p is None:
                return ('other', 'const', rev, cur)
            path = place_path(body, p) + path
            cur = p['l']
            continue
        if rv['k'] == 'agg' and re.search(r'Range', rv.get('adt') or ''):
            return ('range', rv.get('adt'), rev, cur)
        if rv['k'] == 'agg' and rv.get('ak') == 'tuple' and path and re.match(r'^#?\d+$', path[0]):
            # a field of a tuple built in this body (the scrutinee of `match (a, b)`): continue with that component
            k = int(path[0].lstrip('#'))
            if k < len(rv['ops']):
                p = op_place(rv['ops'][k])
                if p is None:
                    return ('other', 'const', rev, cur)
                path = place_path(body, p) + path[1:]
                cur = p['l']
                continue
        return ('other', rv['k'], rev, cur)
    return ('other', 'deep', rev, cur)


def describe(body, local):
    kind, det, rev, root = origin(body, local)
    if kind == 'call':
        return 'call:' + det.split('::')[-2] + '::' + det.split('::')[-1] if '::' in det else 'call:' + det, rev, (kind, det, root)
    if kind == 'field':
        return 'field:' + det.split('.', 1)[1] if '.' in det else 'field:' + det, rev, (kind, det, root)
    if kind == 'param':
        return 'param:' + det, rev, (kind, det, root)
    return kind, rev, (kind, det, root)


def length_tested(body, bb, ident_a, ident_b):
    """is block bb dominated by a branch whose condition is computed from a length of collection A *and* a length of
    collection B (identity = origin kind/detail/root)?"""
    for d in sorted(body.dominators().get(bb, ())):
        tm = body.term(d)
        if tm['k'] != 'switch' or d == bb:
            continue
        p = op_place(tm['discr'])
        if p is None:
            continue
        sl = mirq.backslice(body, [p['l']])
        seen_a = seen_b = False
        for cbb, ct in body.calls():
            if ct['dest']['p'] or ct['dest']['l'] not in sl:
                continue
            nm = strip_generics(callee_name(ct) or '')
            suffix = None
            if nm == 'xtype::XFuncSpec::arg_len_range':
                suffix = 'params'      # (number of required parameters, number of parameters) of that spec's parameter list
            elif not (nm.endswith('::len') or nm.endswith('::count') or nm.endswith('::is_empty')):
                continue
            q = op_place(ct['args'][0]) if ct['args'] else None
            if q is None:
                continue
            if suffix:
                kb, db, rb, rootb = origin(body, q['l'])
                pth = place_path(body, q) + [suffix]
                base = db if kb == 'field' else ('arg%s' % db if kb == 'param' else None)
                if base is None:
                    continue
                ident = ('field', base + '.' + '.'.join(pth), rootb)
                if same(ident, ident_a):
                    seen_a = True
                if same(ident, ident_b):
                    seen_b = True
                continue
            k2, d2, r2, root2 = origin(body, q['l']) if not q['p'] else ('field', '.'.join(place_path(body, q)), False, q['l'])
            if q['p']:
                # a direct field place: resolve the base local to its root
                kb, db, rb, rootb = origin(body, q['l'])
                pth = place_path(body, q)
                if kb in ('param', 'field'):
                    base = db if kb == 'field' else 'arg%s' % db
                    d2 = base + '.' + '.'.join(pth)
                    k2 = 'field'
                    root2 = rootb
            ident = (k2, d2, root2)
            if same(ident, ident_a):
                seen_a = True
            if same(ident, ident_b):
                seen_b = True
        if seen_a and seen_b:
            return True
    return False


def same(x, y):
    return x[0] == y[0] and x[1] == y[1] and (x[0] != 'call' or x[2] == y[2])


def zips_of(body):
    """yield (bb, term, (descA, revA, identA), (descB, revB, identB))"""
    for bb, t in body.calls():
        nm = strip_generics(t.get('decl') or t.get('callee') or '')
        if nm != 'std::iter::Iterator::zip' or len(t['args']) != 2:
            continue
        sides = []
        for a in t['args']:
            p = op_place(a)
            if p is None or p['p']:
                sides.append(('other', False, ('other', 'projection', None)))
            else:
                sides.append(describe(body, p['l']))
        yield bb, t, sides[0], sides[1]
