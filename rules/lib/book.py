"""Parsing of the documentation (book/src) used as the oracle for 'documented' behaviour."""
import os, re, glob


def std_functions(repo):
    """[(file, line, kind('fn'|'dyn fn'), name, signature, [following paragraph lines...])] from book/src/std/*.md and lang"""
    out = []
    for p in sorted(glob.glob(os.path.join(repo, 'book/src/std/*.md'))):
        lines = open(p).read().split('\n')
        i = 0
        while i < len(lines):
            m = re.match(r'^#+\s*(dyn fn|fn)\s+`([A-Za-z_0-9]+)(.*)`\s*$', lines[i])
            if m:
                j = i + 1
                para = []
                while j < len(lines) and not lines[j].startswith('#'):
                    para.append(lines[j])
                    j += 1
                out.append({'file': os.path.relpath(p, repo), 'line': i + 1, 'kind': m.group(1), 'name': m.group(2), 'sig': m.group(2) + m.group(3), 'text': para})
                i = j
                continue
            i += 1
    return out


def required_permissions(repo):
    """name -> set of permission ids the book says the function requires"""
    req = {}
    for f in std_functions(repo):
        for l in f['text']:
            m = re.search(r'Requires\s+`([A-Z_]+)`\s+permission', l)
            if m:
                req.setdefault(f['name'], set()).add(m.group(1))
    return req


def permission_defaults(repo):
    """permission name -> bool (enabled by default) from interop/permissions.md"""
    txt = open(os.path.join(repo, 'book/src/interop/permissions.md')).read()
    out = {}
    cur = None
    for l in txt.split('\n'):
        m = re.match(r'^##\s+([A-Z_]+)\s*$', l)
        if m:
            cur = m.group(1)
            continue
        if cur and cur not in out:
            if re.search(r'\benabled by default', l):
                out[cur] = True
            elif re.search(r'\bdisabled by default', l):
                out[cur] = False
    return out


def split_params(sig):
    """'if<T>(cond: bool, then: T, else: T)->T' -> (['cond','then','else'], ['bool','T','T'], 'T')"""
    m = re.match(r'^[A-Za-z_0-9]+\s*(<[^(]*>)?\s*\((.*)\)\s*(?:->\s*(.*))?$', sig.strip())
    if not m:
        return None
    inner = m.group(2)
    ret = (m.group(3) or '').strip()
    parts = []
    depth = 0
    cur = ''
    for ch in inner:
        if ch in '<([':
            depth += 1
        elif ch in '>)]':
            if not cur.endswith('-'):
                depth -= 1
        if ch == ',' and depth == 0:
            parts.append(cur)
            cur = ''
        else:
            cur += ch
    if cur.strip():
        parts.append(cur)
    names, types = [], []
    for p in parts:
        if ':' in p:
            n, t = p.split(':', 1)
            names.append(n.strip())
            types.append(t.strip())
        else:
            names.append(p.strip())
            types.append('')
    return names, types, ret


def short_circuits(repo):
    """documented short-circuiting functions: [{name, file, line, params, types, ret, sc:[indices], note}]"""
    out = []
    for f in std_functions(repo):
        text = ' '.join(f['text'])
        m = re.search(r'[Tt]his function is short-circuiting([^.]*)\.', text)
        if not m:
            continue
        sp = split_params(f['sig'])
        if not sp:
            out.append({'name': f['name'], 'file': f['file'], 'line': f['line'], 'params': None, 'sc': [], 'note': 'unparsed signature'})
            continue
        names, types, ret = sp
        tail = m.group(1)
        cand = []
        mf = re.match(r'\s*for\s+(.*?)(?:,?\s+and (?:will|does)|$)', tail)
        note = ''
        if mf:
            cand = re.findall(r'`([A-Za-z_0-9]+)`', mf.group(1))
        else:
            me = re.search(r'only evaluate\s+`([A-Za-z_0-9]+)`', tail)
            if me:
                cand = [me.group(1)]
        sc = [names.index(c) for c in cand if c in names]
        if not sc:
            sc = [len(names) - 1]
            note = 'named parameter %r not in signature; assumed the last parameter' % (cand,)
        out.append({'name': f['name'], 'file': f['file'], 'line': f['line'], 'params': names, 'types': types, 'ret': ret, 'sc': sorted(set(sc)), 'note': note})
    return out
