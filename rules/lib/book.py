"""Parsing of the documentation (book/src) used as the oracle for 'documented' behaviour."""
import os, re, glob


def std_functions(repo):
    """[(file, line, kind('fn'|'dyn fn'), name, signature, [following paragraph lines...])] from book/src/std/*.md and lang"""
    out = []
    for p in sorted(glob.glob(os.path.join(repo, 'book/src/std/*.md'))):
        lines = open(p).read().split('\n')
        i = 0
        while i < len(lines):
            m = re.match(r'^#+\s*(dyn fn|fn)\s+`([A-Za-z_0-9]+)(.*)`\s*$', lines[i])
            if m:
                j = i + 1
                para = []
                while j < len(lines) and not lines[j].startswith('#'):
                    para.append(lines[j])
                    j += 1
                out.append({'file': os.path.relpath(p, repo), 'line': i + 1, 'kind': m.group(1), 'name': m.group(2), 'sig': m.group(2) + m.group(3), 'text': para})
                i = j
                continue
            i += 1
    return out


def required_permissions(repo):
    """name -> set of permission ids the book says the function requires"""
    req = {}
    for f in std_functions(repo):
        for l in f['text']:
            m = re.search(r'Requires\s+`([A-Z_]+)`\s+permission', l)
            if m:
                req.setdefault(f['name'], set()).add(m.group(1))
    return req


def permission_defaults(repo):
    """permission name -> bool (enabled by default) from interop/permissions.md"""
    txt = open(os.path.join(repo, 'book/src/interop/permissions.md')).read()
    out = {}
    cur = None
    for l in txt.split('\n'):
        m = re.match(r'^##\s+([A-Z_]+)\s*$', l)
        if m:
            cur = m.group(1)
            continue
        if cur and cur not in out:
            if re.search(r'\benabled by default', l):
                out[cur] = True
            elif re.search(r'\bdisabled by default', l):
                out[cur] = False
    return out
