"""Queries on the pest grammar tree (facts/grammar.json)."""


class Grammar:
    def __init__(self, g):
        self.rules = {r['name']: r for r in g['rules']}
        self.order = [r['name'] for r in g['rules']]

    def silent(self, name):
        return self.rules[name]['ty'] == 'Silent'

    def atomic(self, name):
        return self.rules[name]['ty'] == 'Atomic'

    def produced_children(self, name):
        """sequence language abstraction: list of (rule_name, min, max) for direct produced children — as a set with
        minimum total count.  Returns (alphabet:set, min_count:int)"""
        r = self.rules[name]
        if self.atomic(name):
            return set(), 0
        return self._walk(r['expr'], set())

    def _walk(self, e, seen):
        k = e['k']
        if k in ('str', 'insens', 'range', 'peekslice', 'skip'):
            return set(), 0
        if k == 'ident':
            n = e['v']
            if n not in self.rules:
                # builtin: SOI, EOI produce EOI token; ANY, ASCII_*, PEEK, POP, NEWLINE, etc. produce nothing
                return ({'EOI'}, 1) if n == 'EOI' else (set(), 0)
            if self.silent(n):
                if n in seen:
                    return set(), 0
                return self._walk(self.rules[n]['expr'], seen | {n})
            return {n}, 1
        if k in ('pospred', 'negpred'):
            return set(), 0
        if k == 'seq':
            a, na = self._walk(e['a'], seen)
            b, nb = self._walk(e['b'], seen)
            return a | b, na + nb
        if k == 'choice':
            a, na = self._walk(e['a'], seen)
            b, nb = self._walk(e['b'], seen)
            return a | b, min(na, nb)
        if k in ('opt', 'rep', 'repmax'):
            a, na = self._walk(e['e'], seen)
            return a, 0
        if k in ('reponce', 'push'):
            return self._walk(e['e'], seen)
        if k in ('repexact', 'repmin'):
            a, na = self._walk(e['e'], seen)
            return a, na * e['n']
        if k == 'repminmax':
            a, na = self._walk(e['e'], seen)
            return a, na * e['min']
        return set(), 0

    def branches(self, e):
        if e['k'] == 'choice':
            return self.branches(e['a']) + self.branches(e['b'])
        return [e]

    def choice_alternatives(self, name):
        """for a rule that is a choice: the set of produced rules that can be the FIRST produced child of each branch
        (silent alternatives expanded).  None if the rule is not a choice."""
        r = self.rules[name]
        br = self.branches(r['expr'])
        if len(br) < 2:
            return None
        out = set()
        for b in br:
            f = self.first(b, set())
            out |= f
        return out

    def first(self, e, seen):
        """produced rules that can be the first produced child of e"""
        k = e['k']
        if k == 'ident':
            n = e['v']
            if n not in self.rules:
                return {'EOI'} if n == 'EOI' else set()
            if self.silent(n):
                if n in seen:
                    return set()
                return self.first(self.rules[n]['expr'], seen | {n})
            return {n}
        if k == 'seq':
            a = self.first(e['a'], seen)
            al, na = self._walk(e['a'], seen)
            if na == 0:
                return a | self.first(e['b'], seen)
            return a
        if k == 'choice':
            return self.first(e['a'], seen) | self.first(e['b'], seen)
        if k in ('opt', 'rep', 'reponce', 'repexact', 'repmin', 'repmax', 'repminmax', 'push'):
            return self.first(e['e'], seen)
        return set()

    def literal_alternatives(self, name):
        """string literals of a rule that is a choice of literals"""
        r = self.rules[name]
        br = self.branches(r['expr'])
        if all(b['k'] == 'str' for b in br):
            return [b['v'] for b in br]
        return None


    # ---- re-parsing analysis (pest has no memoisation: a nonterminal parsed in a failed alternative is parsed again)
    def reaches(self):
        """rule -> set of rules reachable through references"""
        if getattr(self, '_reach', None) is not None:
            return self._reach
        direct = {}

        def refs(e, acc):
            if e['k'] == 'ident':
                if e['v'] in self.rules:
                    acc.add(e['v'])
                return
            for key in ('a', 'b', 'e'):
                if key in e and isinstance(e[key], dict):
                    refs(e[key], acc)
        for n, r in self.rules.items():
            s = set()
            refs(r['expr'], s)
            direct[n] = s
        reach = {n: set(s) for n, s in direct.items()}
        changed = True
        while changed:
            changed = False
            for n in reach:
                new = set(reach[n])
                for m in list(reach[n]):
                    new |= reach.get(m, set())
                if new != reach[n]:
                    reach[n] = new
                    changed = True
        self._reach = reach
        return reach

    def prefixes(self, e, length=3, depth=4):
        """set of symbol tuples (literals as ('lit', s), rules as ('rule', name)) of length <= `length` with which a match of
        e can begin; a rule reference appears both unexpanded and (up to `depth`) expanded; optional parts both ways"""
        def cat(xs, ys):
            out = set()
            for x in xs:
                if len(x) >= length:
                    out.add(x[:length])
                    continue
                for y in ys:
                    out.add((x + y)[:length])
            return out

        def go(e, d):
            k = e['k']
            if k in ('str', 'insens'):
                return {(('lit', e['v']),)}
            if k == 'range':
                return {(('lit', '%s..%s' % (e.get('a'), e.get('b'))),)}
            if k == 'ident':
                n = e['v']
                if n not in self.rules:
                    return {(('builtin', n),)}
                out = set()
                if not self.silent(n):
                    out.add((('rule', n),))
                if d > 0:
                    out |= go(self.rules[n]['expr'], d - 1)
                elif self.silent(n):
                    out.add((('rule', n),))
                return out
            if k == 'seq':
                return cat(go(e['a'], d), go(e['b'], d))
            if k == 'choice':
                return go(e['a'], d) | go(e['b'], d)
            if k in ('opt', 'rep', 'repmax'):
                return go(e['e'], d) | {()}
            if k in ('reponce', 'push', 'repexact', 'repmin', 'repminmax'):
                return go(e['e'], d)
            if k in ('pospred', 'negpred'):
                return {()}
            return {()}
        return {p for p in go(e, depth)}

    def reparse_conflicts(self, length=3, depth=4):
        """[(rule, i, j, prefix)] : in the ordered choice of `rule`, alternatives i < j can both begin with `prefix`, which
        contains a nonterminal that can (transitively) contain `rule` itself.  When alternative i fails after that
        nonterminal, alternative j parses it again: the work doubles with every level of nesting."""
        reach = self.reaches()
        out = []
        def choices(e, top=True):
            # every maximal ordered choice inside the expression (also under a repetition / option / sequence)
            k = e['k']
            if k == 'choice':
                yield e
                for b in self.branches(e):
                    for x in choices(b):
                        yield x
                return
            for key in ('a', 'b', 'e'):
                if isinstance(e.get(key), dict):
                    for x in choices(e[key]):
                        yield x
        work = []
        for name in self.order:
            for ci, ch in enumerate(choices(self.rules[name]['expr'])):
                work.append((name, ci, ch))
        for name, ci, ch in work:
            br = self.branches(ch)
            if len(br) < 2:
                continue
            pres = [self.prefixes(b, length, depth) for b in br]
            for i in range(len(br)):
                for j in range(i + 1, len(br)):
                    common = set()
                    for p in pres[i]:
                        for q in pres[j]:
                            m = 0
                            while m < len(p) and m < len(q) and p[m] == q[m]:
                                m += 1
                            if m >= 2:
                                common.add(p[:m])
                    for c in sorted(common):
                        rec = [s[1] for s in c if s[0] == 'rule' and (name in reach.get(s[1], ()) or s[1] == name)]
                        # the prefix must *start* with a terminal, otherwise i and j are the same nonterminal start (FIRST overlap
                        # on a nonterminal is ordinary ordered choice) -- and contain a recursive nonterminal after it
                        if rec and c[0][0] == 'lit':
                            out.append((name, i, j, c, rec))
        # keep the longest prefix per (rule, i, j)
        best = {}
        for name, i, j, c, rec in out:
            k = (name, i, j)
            if k not in best or len(c) > len(best[k][0]):
                best[k] = (c, rec)
        return [(k[0], k[1], k[2], v[0], v[1]) for k, v in sorted(best.items())]


    def repetition_reparse(self):
        """[(rule, X)] : `(X ~ sep)* ~ X ...` -- the repetition's last, failing attempt parses X and the following element
        parses the same X again; with X able to contain `rule` the work doubles with every level of nesting"""
        reach = self.reaches()
        out = []

        def first_rule(e):
            ps = self.prefixes(e, length=1, depth=0)
            return {p[0][1] for p in ps if p and p[0][0] == 'rule'}

        def walk(name, e):
            k = e['k']
            if k == 'seq':
                # flatten a ~ b ~ c into [a, b, c]
                items = []

                def flat(x):
                    if x['k'] == 'seq':
                        flat(x['a'])
                        flat(x['b'])
                    else:
                        items.append(x)
                flat(e)
                # pest's optimizer (pest_meta::optimizer::lister) rewrites exactly the node shape Seq(Rep(Seq(X, rest)), X)
                # into X ~ (rest ~ X)*; with the left-associative `~` that is only the case when the repetition is the
                # first item of the sequence and X is the whole second item
                listed = e['a']['k'] == 'rep' and e['a']['e']['k'] == 'seq' and e['a']['e']['a'] == e['b']
                for i in range(len(items) - 1):
                    a, b = items[i], items[i + 1]
                    if listed and i == 0 and len(items) == 2:
                        continue
                    if a['k'] in ('rep', 'reponce', 'repmin', 'repmax', 'repminmax', 'opt') and a['e']['k'] == 'seq':
                        fa = first_rule(a['e'])
                        fb = first_rule(b)
                        for x in sorted(fa & fb):
                            if name in reach.get(x, ()) or x == name:
                                out.append((name, x))
                for it in items:
                    walk(name, it)
                return
            for key in ('a', 'b', 'e'):
                if key in e and isinstance(e[key], dict):
                    walk(name, e[key])
        for n in self.order:
            walk(n, self.rules[n]['expr'])
        return sorted(set(out))
