"""Queries on the pest grammar tree (facts/grammar.json)."""


class Grammar:
    def __init__(self, g):
        self.rules = {r['name']: r for r in g['rules']}
        self.order = [r['name'] for r in g['rules']]

    def silent(self, name):
        return self.rules[name]['ty'] == 'Silent'

    def atomic(self, name):
        return self.rules[name]['ty'] == 'Atomic'

    def produced_children(self, name):
        """sequence language abstraction: list of (rule_name, min, max) for direct produced children — as a set with
        minimum total count.  Returns (alphabet:set, min_count:int)"""
        r = self.rules[name]
        if self.atomic(name):
            return set(), 0
        return self._walk(r['expr'], set())

    def _walk(self, e, seen):
        k = e['k']
        if k in ('str', 'insens', 'range', 'peekslice', 'skip'):
            return set(), 0
        if k == 'ident':
            n = e['v']
            if n not in self.rules:
                # builtin: SOI, EOI produce EOI token; ANY, ASCII_*, PEEK, POP, NEWLINE, etc. produce nothing
                return ({'EOI'}, 1) if n == 'EOI' else (set(), 0)
            if self.silent(n):
                if n in seen:
                    return set(), 0
                return self._walk(self.rules[n]['expr'], seen | {n})
            return {n}, 1
        if k in ('pospred', 'negpred'):
            return set(), 0
        if k == 'seq':
            a, na = self._walk(e['a'], seen)
            b, nb = self._walk(e['b'], seen)
            return a | b, na + nb
        if k == 'choice':
            a, na = self._walk(e['a'], seen)
            b, nb = self._walk(e['b'], seen)
            return a | b, min(na, nb)
        if k in ('opt', 'rep', 'repmax'):
            a, na = self._walk(e['e'], seen)
            return a, 0
        if k in ('reponce', 'push'):
            return self._walk(e['e'], seen)
        if k in ('repexact', 'repmin'):
            a, na = self._walk(e['e'], seen)
            return a, na * e['n']
        if k == 'repminmax':
            a, na = self._walk(e['e'], seen)
            return a, na * e['min']
        return set(), 0

    def branches(self, e):
        if e['k'] == 'choice':
            return self.branches(e['a']) + self.branches(e['b'])
        return [e]

    def choice_alternatives(self, name):
        """for a rule that is a choice: the set of produced rules that can be the FIRST produced child of each branch
        (silent alternatives expanded).  None if the rule is not a choice."""
        r = self.rules[name]
        br = self.branches(r['expr'])
        if len(br) < 2:
            return None
        out = set()
        for b in br:
            f = self.first(b, set())
            out |= f
        return out

    def first(self, e, seen):
        """produced rules that can be the first produced child of e"""
        k = e['k']
        if k == 'ident':
            n = e['v']
            if n not in self.rules:
                return {'EOI'} if n == 'EOI' else set()
            if self.silent(n):
                if n in seen:
                    return set()
                return self.first(self.rules[n]['expr'], seen | {n})
            return {n}
        if k == 'seq':
            a = self.first(e['a'], seen)
            al, na = self._walk(e['a'], seen)
            if na == 0:
                return a | self.first(e['b'], seen)
            return a
        if k == 'choice':
            return self.first(e['a'], seen) | self.first(e['b'], seen)
        if k in ('opt', 'rep', 'reponce', 'repexact', 'repmin', 'repmax', 'repminmax', 'push'):
            return self.first(e['e'], seen)
        return set()

    def literal_alternatives(self, name):
        """string literals of a rule that is a choice of literals"""
        r = self.rules[name]
        br = self.branches(r['expr'])
        if all(b['k'] == 'str' for b in br):
            return [b['v'] for b in br]
        return None
