"""Extraction of native registrations from the syntax tree: declared spec (parameter / return type classes) and the
closure that implements it, with the per-argument uses (evaluation, downcast)."""
import re
from .facts import find_nodes, walk
from . import astq

PRIM = {'X_INT': 'Int', 'X_FLOAT': 'Float', 'X_STRING': 'String', 'X_BOOL': 'Bool'}
NATIVE_TYPES = {
    'XSequenceType': 'XSequence', 'XOptionalType': 'XOptional', 'XMappingType': 'XMapping', 'XSetType': 'XSet',
    'XStackType': 'XStack', 'XGeneratorType': 'XGenerator', 'XRegexType': 'Regex',
    'XContinuousDistributionType': 'XContinuousDistribution', 'XDiscreteDistributionType': 'XDiscreteDistribution',
}
STATIC_NATIVE = {'X_REGEX': 'Native:Regex', 'X_MATCH': 'Native:XOptional', 'X_CONTDIST': 'Native:XContinuousDistribution', 'X_DISCDIST': 'Native:XDiscreteDistribution',
                 'X_UNKNOWN': 'Unknown'}


def strip(e):
    """peel references, clones, parens"""
    while True:
        if e.get('k') in ('ref', 'paren'):
            e = e['expr']
        elif e.get('k') == 'mcall' and e['method'] in ('clone', 'into', 'to_owned') and not e['args']:
            e = e['recv']
        elif e.get('k') == 'unary' and e['op'] == '*':
            e = e['expr']
        else:
            return e


def type_class(e, env, depth=0):
    """class of a type expression: 'Int' 'Float' 'String' 'Bool' | 'Native:<T>' | 'Function' | 'Struct' | 'Generic' | 'Unknown' | None (unjudged)"""
    if depth > 6:
        return None
    e = strip(e)
    k = e.get('k')
    if k == 'path':
        p = e['path']
        last = p.split('::')[-1]
        if last in PRIM:
            return PRIM[last]
        if last in STATIC_NATIVE:
            return STATIC_NATIVE[last]
        if p in env:
            v = env[p]
            if isinstance(v, str):
                return v
            return type_class(v, env, depth + 1)
        return None
    if k == 'call':
        f = e['func']
        if f.get('k') == 'path':
            fp = f['path']
            m = re.match(r'^(\w+)::xtype$', fp)
            if m and m.group(1) in NATIVE_TYPES:
                return 'Native:' + NATIVE_TYPES[m.group(1)]
            if fp in ('Arc::new', 'Rc::new', 'Box::new'):
                return type_class(e['args'][0], env, depth + 1)
            if fp in ('XCallable', 'XType::XCallable', 'XType::XFunc', 'XFunc'):
                return 'Function'
            if fp in ('XType::Tuple', 'Tuple'):
                return 'Struct'
            if fp in ('XType::XGeneric', 'XGeneric'):
                return 'Generic'
            if fp in ('XType::XNative', 'XNative'):
                inner = strip(e['args'][0])
                txt = inner.get('s') or ''
                for t, n in NATIVE_TYPES.items():
                    if t in txt:
                        return 'Native:' + n
                return None
        return None
    if k == 'mcall' and e['method'] == 'xtype':
        return 'Function'
    return None


def fn_env(fn):
    """name -> defining expression (or class string) for simple lets in a registration function"""
    env = {}
    for st, ps in find_nodes(fn['body'], lambda y: y.get('k') == 'let' and y.get('init') is not None):
        if any(p.get('k') == 'closure' for p in ps):
            continue
        pat = st['pat']
        init = st['init']
        if pat.get('k') == 'pident':
            env[pat['name']] = init
        elif pat.get('k') == 'ptuple' and init.get('k') == 'mcall' and init['method'] == 'generics_from_names':
            # let ([t, u], params) = scope.generics_from_names(["T","U"]);
            for p, _ in find_nodes(pat['elems'][0], lambda y: y.get('k') == 'pident'):
                env[p['name']] = 'Generic'
        elif pat.get('k') == 'pslice' or pat.get('k') == 'ptuplestruct':
            pass
    # let [t0] = unpack_dyn_types(types)?  -> caller-supplied (dyn) types: unjudged
    return env


def parse_spec(e, env):
    """XFuncSpec::new(&[..], ret)[.generic(..)] / new_with_optional(&[..], &[..], ret) -> dict or None"""
    e = strip(e)
    while e.get('k') == 'mcall' and e['method'] in ('generic', 'short_circuit_overloads'):
        e = strip(e['recv'])
    if e.get('k') != 'call' or e['func'].get('k') != 'path':
        return None
    fp = e['func']['path']
    if fp not in ('XFuncSpec::new', 'XFuncSpec::new_with_optional'):
        return None

    def arr(x):
        x = strip(x)
        if x.get('k') == 'array':
            return x['elems']
        return None
    req = arr(e['args'][0])
    if req is None:
        return None
    opt = []
    ret = e['args'][1]
    if fp.endswith('new_with_optional'):
        opt = arr(e['args'][1])
        if opt is None:
            return None
        ret = e['args'][2]
    return {
        'required': [type_class(x, env) for x in req],
        'optional': [type_class(x, env) for x in opt],
        'ret': type_class(ret, env),
        'line': e['line'],
    }


def closure_uses(cl):
    """per-argument uses inside a native closure |args, ns, tca, rt| body:
       returns dict(index_uses=[(K, how, line)], downcasts=[(K, 'prim'|'native', what, line)], results=[(variant, line)])"""
    if cl.get('k') != 'closure' or not cl['inputs']:
        return None
    argname = None
    p0 = cl['inputs'][0]
    while p0.get('k') == 'ptype':
        p0 = p0['pat']
    if p0.get('k') == 'pident':
        argname = p0['name']
    if argname is None:
        return None
    uses = []
    var_arg = {}     # local name -> argument index it was evaluated from
    downcasts = []
    for n, ps in find_nodes(cl['body'], lambda y: y.get('k') == 'index' and strip(y['base']).get('path') == argname):
        idx = n['index']
        # under a test of the number of supplied arguments?
        guarded = any(p.get('k') == 'if' and (argname + '.len()') in re.sub(r'\s+', '', p['cond'].get('s') or '') for p in ps)
        if idx.get('k') == 'lit' and idx.get('lit') == 'int':
            uses.append((int(idx['value']), 'index-guarded' if guarded else 'index', n['line']))
        else:
            # args[if c {1} else {2}] and the like: collect literal ints
            ks = [int(x['value']) for x, _ in find_nodes(idx, lambda y: y.get('k') == 'lit' and y.get('lit') == 'int')]
            for k in ks:
                uses.append((k, 'index', n['line']))
            if not ks:
                uses.append((None, 'index-dynamic', n['line']))
    for n, ps in find_nodes(cl['body'], lambda y: y.get('k') == 'mcall' and y['method'] == 'get' and strip(y['recv']).get('path') == argname):
        a = n['args'][0] if n['args'] else {}
        if a.get('k') == 'lit' and a.get('lit') == 'int':
            uses.append((int(a['value']), 'get', n['line']))
    # let aK = xraise!(eval(&args[K], ..)?)  /  xraise_opt!(args.get(K).map(..))
    for st, ps in find_nodes(cl['body'], lambda y: y.get('k') == 'let' and y.get('init') is not None and y['pat'].get('k') == 'pident'):
        ks = set()
        for n, _ in find_nodes(st['init'], lambda y: y.get('k') == 'index' and strip(y['base']).get('path') == argname and y['index'].get('k') == 'lit'):
            ks.add(int(n['index']['value']))
        for n, _ in find_nodes(st['init'], lambda y: y.get('k') == 'mcall' and y['method'] == 'get' and strip(y['recv']).get('path') == argname and y['args'] and y['args'][0].get('k') == 'lit'):
            ks.add(int(n['args'][0]['value']))
        if len(ks) == 1:
            # only when the let is an evaluation of that argument (eval(..) inside)
            if find_nodes(st['init'], lambda y: (y.get('k') == 'call' and y['func'].get('path') == 'eval') or (y.get('k') == 'mcall' and y['method'] == 'eval')):
                var_arg[st['pat']['name']] = ks.pop()
    for n, ps in find_nodes(cl['body'], lambda y: y.get('k') == 'macro' and y['name'].split('::')[-1] in ('to_primitive', 'to_native') and y.get('args')):
        a0 = strip(n['args'][0])
        v = a0.get('path') if a0.get('k') == 'path' else None
        if v in var_arg and len(n['args']) >= 2:
            what = n['args'][1]
            kind = 'prim' if n['name'].endswith('to_primitive') else 'native'
            if kind == 'prim':
                w = what.get('path') or what.get('s')
            else:
                w = re.sub(r'\s+', '', what.get('s') or what.get('path') or '')
                w = re.sub(r'<.*', '', w)
            downcasts.append((var_arg[v], kind, w, n['line']))
    results = []
    for n, ps in find_nodes(cl['body'], lambda y: y.get('k') == 'call' and y['func'].get('k') == 'path' and re.match(r'^(\$crate::xvalue::)?XValue::(Int|Float|String|Bool|float)$', y['func']['path'])):
        results.append((n['func']['path'].split('::')[-1], n['line']))
    return {'uses': uses, 'downcasts': downcasts, 'results': results, 'var_arg': var_arg}


def native_closure_of(e):
    """XStaticFunction::from_native(closure) | ufunc!(Variant, closure) -> ('native', closure) | ('ufunc', variant, closure)"""
    e = strip(e)
    if e.get('k') == 'call' and e['func'].get('k') == 'path' and e['func']['path'].endswith('from_native') and e['args']:
        c = strip(e['args'][-1])
        if c.get('k') == 'closure':
            return ('native', None, c)
    if e.get('k') == 'macro' and e['name'].split('::')[-1] == 'ufunc' and e.get('args') and len(e['args']) == 2:
        v = e['args'][0].get('path')
        c = strip(e['args'][1])
        if c.get('k') == 'closure':
            return ('ufunc', v, c)
    return None


def registrations(ast):
    """list of dict(file, fn, name, line, spec, impl) for add_func registrations and the macro families"""
    out = []
    for f, fn, im in astq.all_fns(ast):
        if not f.startswith('src/builtin/'):
            continue
        env = fn_env(fn)
        for n, ps in find_nodes(fn['body'], lambda y: y.get('k') == 'mcall' and y['method'] == 'add_func' and len(y['args']) == 3):
            name = astq.str_lit(n['args'][0])
            spec = parse_spec(n['args'][1], env)
            impl = native_closure_of(n['args'][2])
            out.append({'file': f, 'fn': fn['name'], 'name': name, 'line': n['line'], 'spec': spec, 'impl': impl, 'kind': 'add_func'})
        # dynamic: XFunctionFactoryOutput::from_native(spec, closure) / from_delayed_native(spec, |ns, rt| { .. Ok(Ok(closure)) })
        for n, ps in find_nodes(fn['body'], lambda y: y.get('k') == 'call' and y['func'].get('k') == 'path' and re.search(r'XFunctionFactoryOutput::from_(delayed_)?native$', y['func']['path']) and len(y['args']) == 2):
            # local lets inside the bind callback extend the env
            env2 = dict(env)
            for p in ps:
                if p.get('k') == 'closure':
                    for st, _ in find_nodes(p['body'], lambda y: y.get('k') == 'let' and y.get('init') is not None and y['pat'].get('k') == 'pident'):
                        env2.setdefault(st['pat']['name'], st['init'])
            spec = parse_spec(n['args'][0], env2)
            c = strip(n['args'][1])
            inner = None
            if n['func']['path'].endswith('from_native') and c.get('k') == 'closure':
                inner = ('native', None, c)
            elif c.get('k') == 'closure':
                # the innermost 4-parameter closure is the native
                cands = [x for x, _ in find_nodes(c['body'], lambda y: y.get('k') == 'closure' and len(y['inputs']) == 4)]
                if cands:
                    inner = ('native', None, cands[0])
            dname = None
            for p in ps:
                if p.get('k') == 'mcall' and p['method'] == 'add_dyn_func':
                    dname = astq.str_lit(p['args'][0])
            out.append({'file': f, 'fn': fn['name'], 'name': dname, 'line': n['line'], 'spec': spec, 'impl': inner, 'kind': 'dyn'})
    # macro families
    for f, items in ast['files'].items():
        if not f.startswith('src/builtin/'):
            continue
        for it in items:
            if it.get('k') != 'macro' or not it.get('item') or not it.get('args'):
                continue
            mn = it['name'].split('::')[-1]
            a = it['args']
            if mn == 'add_binfunc' and len(a) == 6:
                oc = type_class(a[2], {})
                out.append({'file': f, 'fn': a[0].get('path'), 'name': a[1].get('path'), 'line': it['line'], 'kind': 'binfunc',
                            'spec': {'required': [oc, oc], 'optional': [], 'ret': type_class(a[4], {}), 'line': it['line']},
                            'variant': a[3].get('path'), 'impl': ('binfunc', a[3].get('path'), strip(a[5]))})
            elif mn in ('add_int_binop', 'add_float_binop') and len(a) == 3:
                cls = 'Int' if mn == 'add_int_binop' else 'Float'
                out.append({'file': f, 'fn': a[0].get('path'), 'name': a[1].get('path'), 'line': it['line'], 'kind': 'binfunc',
                            'spec': {'required': [cls, cls], 'optional': [], 'ret': cls, 'line': it['line']},
                            'variant': cls, 'impl': ('binfunc', cls, strip(a[2]))})
    return out
