"""./xv selftest [--prop Cxx] [--keep]  — apply each mutant patch under mutants/ to a scratch copy of /repo (outside
/repo and /verif), regenerate facts there, and require that the named rule fires on the named instance.
A mutants/<name>.json describes: {"patch": "<name>.diff", "property": "C11", "expect_key_contains": "...", "why": "..."}.
A patch that no longer applies is reported as skipped."""
import os, sys, json, glob, subprocess, tempfile, shutil

ROOT = os.path.dirname(os.path.dirname(os.path.dirname(os.path.abspath(__file__))))


def worker_target(slot):
    """each parallel worker needs its own cargo target dir (cargo locks it); slot 0 is the main one, the others are
    copies of it made on first use (dependencies are already built there, so a copy costs seconds, not a rebuild)"""
    main = os.path.join(ROOT, '.cache', 'target-mir')
    if slot == 0:
        return main
    d = os.path.join(ROOT, '.cache', 'target-mir-w%d' % slot)
    if not os.path.isdir(os.path.join(d, 'debug')) and os.path.isdir(os.path.join(main, 'debug')):
        tmpd = d + '.tmp%d' % os.getpid()
        shutil.rmtree(tmpd, ignore_errors=True)
        shutil.copytree(main, tmpd, symlinks=True)
        shutil.rmtree(d, ignore_errors=True)
        os.rename(tmpd, d)
    return d


def run_mutant(meta, repo='/repo', keep=False, verbose=False, slot=0):
    tmp = tempfile.mkdtemp(prefix='xv-mut-')
    try:
        scratch = os.path.join(tmp, 'repo')
        os.makedirs(scratch)
        for item in ('src', 'book', 'Cargo.toml', 'Cargo.lock'):
            s = os.path.join(repo, item)
            d = os.path.join(scratch, item)
            if os.path.isdir(s):
                shutil.copytree(s, d)
            else:
                shutil.copy(s, d)
        patch = meta.get('_patch_path') or os.path.join(ROOT, 'mutants', meta['patch'])
        p = subprocess.run(['patch', '-p1', '--no-backup-if-mismatch', '-s', '-f', '-i', patch], cwd=scratch, stdout=subprocess.PIPE, stderr=subprocess.STDOUT, text=True)
        if p.returncode != 0:
            return 'skipped', 'patch does not apply: ' + p.stdout.strip()[:200]
        env = dict(os.environ)
        env['XV_REPO'] = scratch
        env['XV_CACHE'] = os.path.join(tmp, 'cache')
        env['XV_TARGET'] = worker_target(slot)
        env['XV_EVIDENCE_DIR'] = os.path.join(tmp, 'evidence')
        env['XV_OUT_DIR'] = os.path.join(tmp, 'out')
        q = subprocess.run([os.path.join(ROOT, 'xv'), 'check', meta['property'], '--tier', 'quick'], env=env, stdout=subprocess.PIPE, stderr=subprocess.STDOUT, text=True)
        out = q.stdout
        if 'does not build under the MIR engine' in out:
            return 'error', 'mutant does not compile:\n' + out[-1500:]
        viol = [l for l in out.splitlines() if l.startswith('VIOLATION')]
        if meta.get('expect_silent'):
            # a behaviour-preserving twin: the property still holds, so any report is a false alarm of the checker
            if q.returncode == 0 and not viol:
                return 'silent', 'no report on a behaviour-preserving refactor (as required)'
            alarms = [l.strip() for l in out.splitlines() if l.startswith('  ') and ': R' in l]
            return 'false-alarm', (alarms[0] if alarms else out[-400:])[:300]
        want = meta['expect_key_contains']
        fired = [l for l in out.splitlines() if l.startswith('  ') and want in l]
        if q.returncode == 1 and fired and viol:
            return 'caught', fired[0].strip()[:300]
        return 'missed', out[-1200:] if verbose else 'rule did not fire on %s' % want
    finally:
        if not keep:
            shutil.rmtree(tmp, ignore_errors=True)


def all_metas():
    """the replayable patches: hand-written mutants (mutants/*.json) and the sub-agents' seeded changes that a check is
    expected to catch (seeded/<id>/meta.json with an "expect" entry: the property whose check fires and a part of the key)"""
    metas = []
    for f in sorted(glob.glob(os.path.join(ROOT, 'mutants', '*.json'))):
        m = json.load(open(f))
        m['_name'] = os.path.basename(f)[:-5]
        metas.append(m)
    for f in sorted(glob.glob(os.path.join(ROOT, 'twins', '*.json'))):
        m0 = json.load(open(f))
        # a twin may name several properties ("C08,C10"): every one of their checks must stay silent on it
        for pr in [x.strip() for x in m0['property'].split(',') if x.strip()]:
            m = dict(m0)
            m['property'] = pr
            m['_name'] = 'twin_' + os.path.basename(f)[:-5] + ('' if ',' not in m0['property'] else '@' + pr)
            m['_patch_path'] = os.path.join(ROOT, 'twins', m0['patch'])
            m['expect_silent'] = True
            m['expect_key_contains'] = ''
            metas.append(m)
    for f in sorted(glob.glob(os.path.join(ROOT, 'seeded', '*', 'meta.json'))):
        s = json.load(open(f))
        for i, ex in enumerate(s.get('expect') or []):
            metas.append({'_name': 'seeded_%s%s' % (os.path.basename(os.path.dirname(f)), '' if i == 0 else '_%d' % i),
                          '_patch_path': os.path.join(os.path.dirname(f), 'patch.diff'), 'property': ex['property'],
                          'expect_key_contains': ex['key_contains'], 'why': 'seeded by an independent sub-agent: ' + s.get('change', '')})
    return metas


def default_jobs():
    try:
        return max(1, min(6, int(os.environ.get('XV_JOBS', '0')) or (os.cpu_count() or 2) // 3))
    except ValueError:
        return 1


def run_many(metas, jobs=1, verbose=False, repo='/repo'):
    """yield (name, status, info) for each mutant, in the order given, running up to `jobs` scratch copies at once"""
    import queue
    from concurrent.futures import ThreadPoolExecutor
    jobs = max(1, min(jobs, len(metas) or 1))
    slots = queue.Queue()
    for i in range(jobs):
        slots.put(i)

    def one(m):
        s = slots.get()
        try:
            st, info = run_mutant(m, repo=repo, verbose=verbose, slot=s)
        except Exception as e:  # a harness failure must not read as a pass
            st, info = 'error', 'harness: %r' % (e,)
        finally:
            slots.put(s)
        return m['_name'], st, info

    with ThreadPoolExecutor(max_workers=jobs) as ex:
        for r in ex.map(one, metas):
            yield r


def main(argv):
    prop = None
    if '--prop' in argv:
        prop = argv[argv.index('--prop') + 1]
    only = None
    if '--only' in argv:
        only = argv[argv.index('--only') + 1]
    verbose = '-v' in argv
    jobs = int(argv[argv.index('-j') + 1]) if '-j' in argv else default_jobs()
    metas = [m for m in all_metas() if (not prop or m['property'] == prop) and (not only or any(o in m['_name'] for o in only.split(',')))]
    bad = 0
    res = []
    for name, st, info in run_many(metas, jobs=jobs, verbose=verbose):
        res.append((name, st, info))
        print('selftest %-40s %-8s %s' % (name, st, info), flush=True)
        if st in ('missed', 'error', 'false-alarm'):
            bad += 1
    print('selftest: %d patches, %d caught, %d silent twins, %d skipped, %d missed/error/false-alarm' % (len(res), sum(1 for r in res if r[1] == 'caught'), sum(1 for r in res if r[1] == 'silent'), sum(1 for r in res if r[1] == 'skipped'), bad))
    return 1 if bad else 0


def run_patch_all(patch, repo='/repo', slot=0, props=None):
    """apply `patch` (git diff) to a scratch copy of `repo`, regenerate facts there and run every claimed check (or
    `props`); returns (status, {property: [finding lines]}) where status is ok | skipped | error"""
    tmp = tempfile.mkdtemp(prefix='xv-seed-')
    try:
        scratch = os.path.join(tmp, 'repo')
        os.makedirs(scratch)
        for item in ('src', 'book', 'Cargo.toml', 'Cargo.lock'):
            s = os.path.join(repo, item)
            d = os.path.join(scratch, item)
            if os.path.isdir(s):
                shutil.copytree(s, d)
            else:
                shutil.copy(s, d)
        # seeded patches may also add files outside src/ (their demonstration); only src/, book/ and Cargo.* matter here
        p = subprocess.run(['patch', '-p1', '--no-backup-if-mismatch', '-s', '-f', '-i', patch], cwd=scratch, stdout=subprocess.PIPE, stderr=subprocess.STDOUT, text=True)
        if p.returncode != 0:
            return 'skipped', {'_': ['patch does not apply: ' + p.stdout.strip()[:300]]}
        env = dict(os.environ)
        env['XV_REPO'] = scratch
        env['XV_CACHE'] = os.path.join(tmp, 'cache')
        env['XV_TARGET'] = worker_target(slot)
        env['XV_EVIDENCE_DIR'] = os.path.join(tmp, 'evidence')
        env['XV_OUT_DIR'] = os.path.join(tmp, 'out')
        cmd = [os.path.join(ROOT, 'xv'), 'all'] if not props else None
        outs = []
        if cmd:
            q = subprocess.run(cmd, env=env, stdout=subprocess.PIPE, stderr=subprocess.STDOUT, text=True)
            outs.append(q.stdout)
        else:
            for pr in props:
                q = subprocess.run([os.path.join(ROOT, 'xv'), 'check', pr], env=env, stdout=subprocess.PIPE, stderr=subprocess.STDOUT, text=True)
                outs.append(q.stdout)
        out = '\n'.join(outs)
        if 'does not build under the MIR engine' in out:
            return 'error', {'_': ['patched tree does not compile:\n' + out[-1500:]]}
        fired = {}
        cur = None
        pend = []
        for l in out.splitlines():
            if l.startswith('  ') and ': R' in l:
                pend.append(l.strip())
            elif l.startswith('VIOLATION property='):
                cur = l.split()[1].split('=')[1]
                # the finding line that precedes a VIOLATION line belongs to it
                fired.setdefault(cur, [])
                fired[cur].append(pend[-1][:400] if pend else 'engine/crash (rule module raised on the patched tree)')
                pend = []
            elif l.startswith('KNOWN-FINDING'):
                pend = []
        return 'ok', fired
    finally:
        shutil.rmtree(tmp, ignore_errors=True)


def seeded_main(argv):
    """./xv seeded [<dir-name-substring>] : run every check against each seeded/<id>/patch.diff on a scratch copy"""
    only = argv[0] if argv and not argv[0].startswith('-') else None
    dirs = sorted(glob.glob(os.path.join(ROOT, 'seeded', '*', 'meta.json')))
    bad = 0
    for mf in dirs:
        d = os.path.dirname(mf)
        name = os.path.basename(d)
        if only and only not in name:
            continue
        meta = json.load(open(mf))
        st, fired = run_patch_all(os.path.join(d, 'patch.diff'))
        prop = meta['property']
        if st != 'ok':
            print('seeded %-28s %-8s %s' % (name, st, fired.get('_')))
            continue
        own = fired.get(prop, [])
        others = {k: v for k, v in fired.items() if k != prop}
        verdict = 'caught' if own else ('caught-by-other' if others else 'missed')
        if verdict == 'missed':
            bad += 1
        print('seeded %-28s %-16s %s' % (name, verdict, (own or sum(others.values(), []) or [''])[0][:260]))
        for k, v in sorted(fired.items()):
            for l in v:
                print('        %s: %s' % (k, l[:300]))
    return 0
