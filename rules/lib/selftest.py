"""./xv selftest [--prop Cxx] [--keep]  — apply each mutant patch under mutants/ to a scratch copy of /repo (outside
/repo and /verif), regenerate facts there, and require that the named rule fires on the named instance.
A mutants/<name>.json describes: {"patch": "<name>.diff", "property": "C11", "expect_key_contains": "...", "why": "..."}.
A patch that no longer applies is reported as skipped."""
import os, sys, json, glob, subprocess, tempfile, shutil

ROOT = os.path.dirname(os.path.dirname(os.path.dirname(os.path.abspath(__file__))))


def run_mutant(meta, repo='/repo', keep=False, verbose=False):
    tmp = tempfile.mkdtemp(prefix='xv-mut-')
    try:
        scratch = os.path.join(tmp, 'repo')
        os.makedirs(scratch)
        for item in ('src', 'book', 'Cargo.toml', 'Cargo.lock'):
            s = os.path.join(repo, item)
            d = os.path.join(scratch, item)
            if os.path.isdir(s):
                shutil.copytree(s, d)
            else:
                shutil.copy(s, d)
        patch = os.path.join(ROOT, 'mutants', meta['patch'])
        p = subprocess.run(['patch', '-p1', '--no-backup-if-mismatch', '-s', '-f', '-i', patch], cwd=scratch, stdout=subprocess.PIPE, stderr=subprocess.STDOUT, text=True)
        if p.returncode != 0:
            return 'skipped', 'patch does not apply: ' + p.stdout.strip()[:200]
        env = dict(os.environ)
        env['XV_REPO'] = scratch
        env['XV_CACHE'] = os.path.join(tmp, 'cache')
        env['XV_TARGET'] = os.path.join(ROOT, '.cache', 'target-mir')
        env['XV_EVIDENCE_DIR'] = os.path.join(tmp, 'evidence')
        env['XV_OUT_DIR'] = os.path.join(tmp, 'out')
        q = subprocess.run([os.path.join(ROOT, 'xv'), 'check', meta['property'], '--tier', 'quick'], env=env, stdout=subprocess.PIPE, stderr=subprocess.STDOUT, text=True)
        out = q.stdout
        if 'does not build under the MIR engine' in out:
            return 'error', 'mutant does not compile:\n' + out[-1500:]
        want = meta['expect_key_contains']
        fired = [l for l in out.splitlines() if l.startswith('  ') and want in l]
        viol = [l for l in out.splitlines() if l.startswith('VIOLATION')]
        if q.returncode == 1 and fired and viol:
            return 'caught', fired[0].strip()[:300]
        return 'missed', out[-1200:] if verbose else 'rule did not fire on %s' % want
    finally:
        if not keep:
            shutil.rmtree(tmp, ignore_errors=True)


def main(argv):
    prop = None
    if '--prop' in argv:
        prop = argv[argv.index('--prop') + 1]
    only = None
    if '--only' in argv:
        only = argv[argv.index('--only') + 1]
    verbose = '-v' in argv
    metas = []
    for f in sorted(glob.glob(os.path.join(ROOT, 'mutants', '*.json'))):
        m = json.load(open(f))
        m['_name'] = os.path.basename(f)[:-5]
        if prop and m['property'] != prop:
            continue
        if only and only not in m['_name']:
            continue
        metas.append(m)
    bad = 0
    res = []
    for m in metas:
        st, info = run_mutant(m, verbose=verbose)
        res.append((m['_name'], st, info))
        print('selftest %-40s %-8s %s' % (m['_name'], st, info))
        if st in ('missed', 'error'):
            bad += 1
    print('selftest: %d mutants, %d caught, %d skipped, %d missed/error' % (len(res), sum(1 for r in res if r[1] == 'caught'), sum(1 for r in res if r[1] == 'skipped'), bad))
    return 1 if bad else 0
