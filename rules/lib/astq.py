"""Queries over the syn AST json."""
from .facts import walk, find_nodes


def all_fns(ast):
    """yield (file, fn_node, impl_node|None) for every fn item (free, in impl, nested in mod)"""
    out = []

    def rec(items, file, impl):
        for it in items or []:
            k = it.get('k')
            if k == 'fn':
                out.append((file, it, impl))
            elif k == 'impl':
                rec(it['items'], file, it)
            elif k == 'mod' and it.get('items'):
                rec(it['items'], file, impl)
            elif k == 'trait':
                rec(it['items'], file, it)
    for f, items in ast['files'].items():
        rec(items, f, None)
    return out


def fn_by_name(ast, file, name):
    return [fn for (f, fn, im) in all_fns(ast) if f == file and fn['name'] == name]


def str_lit(n):
    if isinstance(n, dict) and n.get('k') == 'lit' and n.get('lit') == 'str':
        return n['value']
    return None


def registrations(ast):
    """All native registrations: list of dict(file, fn (enclosing add_* fn name), line, method(add_func|add_dyn_func|...), name, args(nodes), node)"""
    regs = []
    for f, fn, im in all_fns(ast):
        if not f.startswith('src/builtin/'):
            continue
        def visit(n, ps, f=f, fn=fn):
            if n.get('k') == 'mcall' and n['method'] in ('add_func', 'add_dyn_func', 'add_native_type', 'add_type', 'add_func_intern'):
                nm = str_lit(n['args'][0]) if n['args'] else None
                regs.append({'file': f, 'fn': fn['name'], 'line': n['line'], 'method': n['method'], 'name': nm, 'args': n['args'], 'node': n})
        walk(fn['body'], visit)
    # macro-generated registrations: add_binfunc!/add_int_binop!/add_float_binop!/...(fn_name, name, ...)
    for f, items in ast['files'].items():
        if not f.startswith('src/builtin/'):
            continue
        for it in items:
            if it.get('k') == 'macro' and it.get('item') and it['name'].split('::')[-1].startswith('add_') and it.get('args'):
                a = it['args']
                if len(a) >= 2 and a[0].get('k') == 'path' and a[1].get('k') == 'path':
                    regs.append({'file': f, 'fn': a[0]['path'], 'line': it['line'], 'method': 'macro:' + it['name'], 'name': a[1]['path'], 'args': a, 'node': it})
    return regs
