"""Reusable MIR queries: value chasing, `?` recognition, dominance of sites by guards (intra- and inter-procedural)."""
from .facts import op_place, op_local, op_const, strip_generics, callee_name


def site(body, bb, stmt=None):
    """file:line of a block's terminator or statement"""
    bl = body.blocks[bb]
    sp = bl['stmts'][stmt]['span'] if stmt is not None else bl['term']['span']
    parts = sp.split(':')
    return '%s:%s' % (parts[0], parts[1])


def chase(body, local, depth=12):
    """Follow single-definition copy/ref chains from a local to where its value comes from.
    Returns (kind, payload): ('const', c) | ('arg', n) | ('call', (bb, term)) | ('rv', (bb, idx, stmt)) | ('multi', defs) | ('none', None)"""
    seen = set()
    cur = local
    for _ in range(depth):
        if cur in seen:
            break
        seen.add(cur)
        ds = body.defs().get(cur, [])
        if not ds:
            if 1 <= cur <= body.d['argc']:
                return ('arg', cur)
            return ('none', cur)
        if len(ds) > 1:
            return ('multi', (cur, ds))
        kind, bb, idx, x = ds[0]
        if kind == 'call':
            return ('call', (bb, x))
        rv = x['rv']
        k = rv['k']
        if k == 'use':
            op = rv['op']
            if 'const' in op:
                return ('const', op['const'])
            p = op_place(op)
            if all(e == '*' for e in p['p']):
                cur = p['l']
                continue
            return ('rv', (bb, idx, x))
        if k in ('ref', 'copyderef', 'rawptr'):
            p = rv['place']
            if all(e == '*' for e in p['p']):
                cur = p['l']
                continue
            return ('rv', (bb, idx, x))
        if k == 'cast':
            op = rv['op']
            if 'const' in op:
                return ('const', op['const'])
            p = op_place(op)
            if not p['p']:
                cur = p['l']
                continue
            return ('rv', (bb, idx, x))
        return ('rv', (bb, idx, x))
    return ('none', cur)


def chase_op(body, op):
    if 'const' in op:
        return ('const', op['const'])
    p = op_place(op)
    if p is None:
        return ('none', None)
    if all(e == '*' for e in p['p']):
        return chase(body, p['l'])
    return ('place', p)


def named_const_of(mir, body, op):
    """If the operand is (a reference to) a named constant item, return its def path, else None.
    Follows promoted constants (`&PRINT` is promoted)."""
    kind, c = chase_op(body, op)
    if kind != 'const':
        return None
    return _named_const(mir, c)


def _named_const(mir, c, depth=0):
    if 'uneval' in c and 'promoted' not in c:
        return c['uneval']
    if 'promoted' in c and depth < 3:
        pb = mir.by_id.get('%s::{promoted#%d}' % (c['uneval'], c['promoted']))
        if pb is None:
            return None
        names = []
        for _, _, s in pb.stmts():
            if s['k'] != 'assign':
                continue
            rv = s['rv']
            ops = []
            if rv['k'] == 'use':
                ops = [rv['op']]
            elif rv['k'] == 'agg':
                ops = rv['ops']
            for o in ops:
                cc = o.get('const')
                if cc:
                    n = _named_const(mir, cc, depth + 1)
                    if n:
                        names.append(n)
        if len(names) == 1:
            return names[0]
    return None


def try_continue_block(body, call_bb):
    """If the result of the call ending block `call_bb` is propagated with `?`, return the block reached on the
    Continue (Ok) edge and the block of the Break edge; else None."""
    t = body.term(call_bb)
    if t['k'] != 'call' or t['target'] is None or t['dest']['p']:
        return None
    dest = t['dest']['l']
    nb = t['target']
    # allow a few straight-line blocks between
    for _ in range(3):
        nt = body.term(nb)
        if nt['k'] == 'call' and strip_generics(nt.get('decl') or '') == 'std::ops::Try::branch':
            a = nt['args'][0]
            if op_local(a) != dest:
                return None
            bdest = nt['dest']['l']
            sb = nt['target']
            st = body.term(sb)
            if st['k'] != 'switch':
                return None
            dl = op_local(st['discr'])
            # discriminant of the branch result?
            ok = False
            for s in body.blocks[sb]['stmts']:
                if s['k'] == 'assign' and s['place']['l'] == dl and s['rv']['k'] == 'discr' and s['rv']['place']['l'] == bdest and not s['rv']['place']['p']:
                    ok = True
            if not ok:
                return None
            cont = brk = None
            for v, tb in st['targets']:
                if v == '0':
                    cont = tb
                elif v == '1':
                    brk = tb
            if cont is None:
                return None
            return cont, brk
        if nt['k'] == 'goto':
            nb = nt['target']
            continue
        break
    return _explicit_continue_block(body, call_bb)


def _explicit_continue_block(body, call_bb):
    """the same propagation written out: `if let Err(v) = call() { return Err(v) }`, `match call() { Ok(x) => .., Err(v) =>
    return Err(v) }`, `let .. else`: a switch on the discriminant of the call's result whose Ok edge continues and whose Err
    edge leaves the function (reaches a return without coming back to the Ok continuation)"""
    t = body.term(call_bb)
    dest = t['dest']['l']
    aliases = {dest}
    # references / moves of the result
    for i, j, s in body.stmts():
        if s['k'] == 'assign' and not s['place']['p'] and s['rv']['k'] in ('ref', 'use'):
            p = s['rv']['place'] if s['rv']['k'] == 'ref' else op_place(s['rv']['op'])
            if p is not None and p['l'] in aliases and all(e == '*' for e in p['p']):
                aliases.add(s['place']['l'])
    for sb in sorted(body.reachable(t['target'])):
        st = body.term(sb)
        if st['k'] != 'switch' or not dominates(body, call_bb, sb):
            continue
        dl = op_local(st['discr'])
        hit = False
        for kind, dbb, idx, x in body.defs().get(dl, []) if dl is not None else []:
            if kind == 'stmt' and x['rv']['k'] == 'discr' and x['rv']['place']['l'] in aliases and all(e == '*' for e in x['rv']['place']['p']):
                hit = True
        if not hit:
            continue
        tg = {int(v): x for v, x in st['targets']}
        cont = tg.get(0, st['otherwise'] if 1 in tg else None)
        brk = tg.get(1, st['otherwise'] if 0 in tg else None)
        if cont is None or brk is None or cont == brk:
            return None
        # the Err edge must leave: it may not reach the continuation
        if cont in body.reachable(brk):
            return None
        return cont, brk
    return None


def dominates(body, a, b):
    return a in body.dominators().get(b, set())


def closure_creation_sites(mir, closure_id):
    """(body, bb, stmt_idx) where a closure value of this def is constructed"""
    out = []
    parent = mir.by_id.get(mir.by_id[closure_id].parent) if closure_id in mir.by_id else None
    cands = [parent] if parent is not None else mir.bodies
    for b in cands:
        for i, j, s in b.stmts():
            if s['k'] == 'assign' and s['rv']['k'] == 'agg' and s['rv'].get('ak') in ('closure', 'coroutine') and s['rv'].get('def') == closure_id:
                out.append((b, i, j))
    return out


def guarded_interproc(mir, body, bb, guard_blocks_fn, depth=6, _seen=None):
    """Is block `bb` of `body` dominated by a guard, in this body or — failing that — at every call site /
    closure-creation site of this body, transitively?  guard_blocks_fn(body) -> list of blocks K such that being
    dominated by K means the guard has passed.  Returns (ok, trail) where trail explains the first failure."""
    if _seen is None:
        _seen = set()
    key = (body.id, bb)
    if key in _seen:
        return True, []
    _seen.add(key)
    for k in guard_blocks_fn(body):
        if dominates(body, k, bb):
            return True, []
    if depth == 0:
        return False, ['%s (depth bound reached)' % body.id]
    # climb
    sites = []
    if body.kind == 'closure':
        for (pb, i, j) in closure_creation_sites(mir, body.id):
            sites.append((pb, i))
    else:
        for (cb, i, t) in mir.callers_index().get(body.nid, []):
            sites.append((cb, i))
        # function items used as values (passed as callbacks)
        for b2 in mir.bodies:
            if b2 is body:
                continue
            for i, j, s in b2.stmts():
                pass
    if not sites:
        return False, ['%s has no callers/creation sites inside the crate and is not guarded itself' % body.id]
    for (pb, i) in sites:
        ok, trail = guarded_interproc(mir, pb, i, guard_blocks_fn, depth - 1, _seen)
        if not ok:
            return False, ['%s <- %s at %s' % (body.id, pb.id, site(pb, i))] + trail
    return True, []


def places_in_stmt(s):
    """all places mentioned in a statement (written and read)"""
    out = []
    if s['k'] == 'assign':
        out.append(('w', s['place']))
        rv = s['rv']
        if 'place' in rv:
            # a mutable borrow / raw mut pointer can be written through: mode 'm'
            out.append(('m' if rv.get('mut') and rv['k'] in ('ref', 'rawptr') else 'r', rv['place']))
        for key in ('op', 'a', 'b'):
            if key in rv and isinstance(rv[key], dict):
                p = op_place(rv[key])
                if p:
                    out.append(('r', p))
        for o in rv.get('ops', []):
            p = op_place(o)
            if p:
                out.append(('r', p))
    elif s['k'] == 'setdiscr':
        out.append(('w', s['place']))
    return out


def places_in_term(t):
    out = []
    k = t['k']
    if k == 'call':
        for a in t['args']:
            p = op_place(a)
            if p:
                out.append(('r', p))
        out.append(('w', t['dest']))
        p = op_place(t['func'])
        if p:
            out.append(('r', p))
    elif k == 'switch':
        p = op_place(t['discr'])
        if p:
            out.append(('r', p))
    elif k == 'drop':
        out.append(('r', t['place']))
    elif k == 'assert':
        p = op_place(t['cond'])
        if p:
            out.append(('r', p))
    return out


def field_accesses(mir, adt, field):
    """yield (body, bb, stmt_idx|None, mode, place) for every place projecting field `field` of `adt`"""
    for b in mir.bodies:
        for i, j, s in b.stmts():
            for mode, p in places_in_stmt(s):
                for e in p['p']:
                    if isinstance(e, dict) and e.get('n') == field and e.get('adt') == adt:
                        yield b, i, j, mode, p
        for i, bl in enumerate(b.blocks):
            for mode, p in places_in_term(bl['term']):
                for e in p['p']:
                    if isinstance(e, dict) and e.get('n') == field and e.get('adt') == adt:
                        yield b, i, None, mode, p


def aggregates(mir, adt, variant=None):
    """yield (body, bb, idx, stmt) for every aggregate construction of adt (and variant)"""
    for b in mir.bodies:
        for i, j, s in b.stmts():
            if s['k'] == 'assign' and s['rv']['k'] == 'agg' and s['rv'].get('ak') == 'adt' and s['rv']['adt'] == adt:
                if variant is None or s['rv']['v'] == variant:
                    yield b, i, j, s


def ctor_calls(mir, adt, variant):
    """tuple-variant constructors used as functions: yields (body, bb, term, 'call'|'value').
    'call'  : `Adt::Variant(x)` lowered as a call of the constructor fn (e.g. through map(Adt::Variant) inlined) — args in term
    'value' : the constructor is passed around as a function value (its uses cannot be followed)"""
    name = '%s::%s' % (adt, variant)
    for b in mir.bodies:
        for bb, t in b.calls():
            if strip_generics(t.get('callee') or t.get('decl') or '') == name:
                yield b, bb, t, 'call'
            for a in t['args']:
                c = a.get('const')
                if c and strip_generics(c.get('fn') or '') == name:
                    yield b, bb, t, 'value'
        for i, j, s in b.stmts():
            if s['k'] == 'assign':
                rv = s['rv']
                ops = []
                if rv['k'] in ('use', 'cast'):
                    ops = [rv['op']]
                elif rv['k'] == 'agg':
                    ops = rv['ops']
                for o in ops:
                    c = o.get('const')
                    if c and strip_generics(c.get('fn') or '') == name:
                        yield b, i, b.blocks[i]['term'], 'value'


def operand_locals_of_rv(rv):
    out = []
    for key in ('op', 'a', 'b'):
        if key in rv and isinstance(rv[key], dict):
            p = op_place(rv[key])
            if p:
                out.append(p['l'])
                out += [e['idx'] for e in p['p'] if isinstance(e, dict) and 'idx' in e]
    if 'place' in rv:
        out.append(rv['place']['l'])
    for o in rv.get('ops', []):
        p = op_place(o)
        if p:
            out.append(p['l'])
    return out


def backslice(body, locals_, depth=40):
    """transitive data dependences (locals) of the given locals inside one body: through statements and call arguments"""
    seen = set()
    todo = list(locals_)
    # writes through projections count as definitions of the base local too
    pdefs = {}
    for i, j, s in body.stmts():
        if s['k'] == 'assign' and s['place']['p']:
            pdefs.setdefault(s['place']['l'], []).append(s)
    while todo:
        l = todo.pop()
        if l in seen:
            continue
        seen.add(l)
        for kind, bb, idx, x in body.defs().get(l, []):
            if kind == 'call':
                for a in x['args']:
                    p = op_place(a)
                    if p:
                        todo.append(p['l'])
            else:
                todo += operand_locals_of_rv(x['rv'])
        for s in pdefs.get(l, []):
            todo += operand_locals_of_rv(s['rv'])
        # call destinations with projections
    return seen


def dominating_discriminants(body, bb):
    """[(place, pty, taken_value)] for dominating switches on an enum discriminant whose taken edge dominates bb"""
    out = []
    dom = body.dominators().get(bb, set())
    for d in dom:
        if d == bb:
            continue
        t = body.term(d)
        if t['k'] != 'switch':
            continue
        dl = op_local(t['discr'])
        src = None
        for kind, dbb, didx, x in body.defs().get(dl, []):
            if kind == 'stmt' and x['rv']['k'] == 'discr':
                pl = x['rv']['place']
                # discriminant read through a reference local: resolve `(*_r)` with `_r = &P` to P
                if pl['p'] and pl['p'][0] == '*':
                    rd = body.defs().get(pl['l'], [])
                    if len(rd) == 1 and rd[0][0] == 'stmt' and rd[0][3]['rv']['k'] == 'ref':
                        base = rd[0][3]['rv']['place']
                        pl = {'l': base['l'], 'p': list(base['p']) + list(pl['p'][1:])}
                src = (pl, x['rv']['pty'])
        if src is None:
            continue
        succs = [(v, x) for v, x in t['targets']] + [('otherwise', t['otherwise'])]
        taken = [v for v, x in succs if dominates(body, x, bb) and len([1 for _, y in succs if y == x]) == 1]
        if len(taken) == 1:
            out.append((src[0], src[1], taken[0]))
    return out


def move_origins(body, local):
    """Follow plain whole-local moves/copies backwards through *all* definitions of `local`.
    Returns (aliases:set of locals, origins:list of (bb, idx|None, kind, payload)) with kind in
      'param' (payload = local), 'proj' (payload = place read through a projection), 'call' (payload = terminator),
      'rv' (payload = statement computing the value)"""
    defs = body.defs()
    aliases = set()
    origins = []
    todo = [local]
    while todo:
        l = todo.pop()
        if l in aliases:
            continue
        aliases.add(l)
        ds = defs.get(l, [])
        if not ds and 1 <= l <= body.d['argc']:
            origins.append((0, None, 'param', l))
        for kind, dbb, idx, x in ds:
            if kind == 'call':
                origins.append((dbb, None, 'call', x))
            elif x['rv']['k'] == 'use' and op_place(x['rv']['op']) is not None:
                pl = op_place(x['rv']['op'])
                if not pl['p']:
                    todo.append(pl['l'])
                else:
                    origins.append((dbb, idx, 'proj', pl))
            else:
                origins.append((dbb, idx, 'rv', x))
    return aliases, origins


def consumers(mir, body, local, depth=3):
    """names of the functions that (transitively through moves, references, payload projections, `?`, and closures handed to
    Option/Result adaptors) receive the value of `local`: a forward use summary inside one body, one closure level deep"""
    out = set()
    seen = set()
    todo = [local]
    while todo:
        l = todo.pop()
        if l in seen:
            continue
        seen.add(l)
        for i, j, s in body.stmts():
            if s['k'] != 'assign':
                continue
            rv = s['rv']
            srcs = []
            for key in ('op', 'a', 'b'):
                if key in rv and isinstance(rv[key], dict):
                    p = op_place(rv[key])
                    if p is not None:
                        srcs.append(p['l'])
            if 'place' in rv:
                srcs.append(rv['place']['l'])
            for o in rv.get('ops', []):
                p = op_place(o)
                if p is not None:
                    srcs.append(p['l'])
            if l in srcs:
                if rv['k'] == 'discr':
                    out.add('<discriminant test>')
                    continue
                todo.append(s['place']['l'])
        for bb, t in body.calls():
            ls = [op_place(a)['l'] for a in t['args'] if op_place(a) is not None]
            if l not in ls:
                continue
            nm = strip_generics(callee_name(t) or '')
            out.add(nm)
            # pass-through adaptors: follow the result; closures handed along: look inside
            if nm.endswith(('::branch', '::from_residual', '::as_ref', '::deref', '::clone', '::unwrap', '::expect', '::ok_or', '::ok_or_else', '::as_mut')) and not t['dest']['p']:
                todo.append(t['dest']['l'])
            if depth > 0:
                for a in t['args']:
                    p = op_place(a)
                    if p is None or p['p']:
                        continue
                    k2, v2 = chase(body, p['l'])
                    if k2 == 'rv' and v2[2]['rv']['k'] == 'agg' and v2[2]['rv'].get('ak') == 'closure':
                        cb = mir.by_id.get(v2[2]['rv'].get('def'))
                        if cb is not None:
                            for q in range(2, cb.d['argc'] + 1):
                                out |= consumers(mir, cb, q, depth - 1)
    return out


def private_helper_of(mir, b, allowed, depth=3):
    """is body b (or the function enclosing the closure b) reachable only from the `allowed` bodies -- i.e. a private helper
    extracted from them?  (all callers, transitively up to `depth`, end in the allowed set)"""
    idx = mir.callers_index()
    seen = set()
    todo = [b.nid.split('::{closure')[0]]
    for _ in range(depth + 1):
        nxt = []
        for n in todo:
            if n in seen:
                continue
            seen.add(n)
            if n in allowed:
                continue
            callers = {c[0].nid.split('::{closure')[0] for c in idx.get(n, [])}
            if not callers:
                return False
            nxt += [c for c in callers if c not in allowed]
        if not nxt:
            return True
        todo = nxt
    return False


def _place_key(p):
    parts = ['_%d' % p['l']]
    for e in p['p']:
        if e == '*':
            parts.append('*')
        elif isinstance(e, dict) and 'dc' in e:
            parts.append('as:%s' % e['dc'])
        elif isinstance(e, dict) and 'f' in e:
            parts.append('f%d' % e['f'])
        else:
            parts.append('?')
    return '/'.join(parts)


def arm_infeasible(body, bb):
    """Is block `bb` (typically the `unreachable!()` arm of a match) entered only through the edge `discr(P) == v` of a
    switch S although every path from a definition of P to S passes another switch on discr(P) through an edge that
    excludes v?  (e.g. `while let V(..) = p { p = next }` followed by `match p { .., V(..) => unreachable!() }`.)
    Sound for the purpose: P is a local or a dereference of a reference local; any assignment to that local restarts
    the knowledge."""
    preds = body.preds()
    cur = bb
    S = None
    v = None
    for _ in range(4):     # the arm may start with a few straight-line blocks
        ps = [p for p in preds[cur] if not body.blocks[p].get('cleanup')]
        if len(ps) != 1:
            return False
        pterm = body.term(ps[0])
        if pterm['k'] == 'switch':
            S = ps[0]
            vals = [int(val) for val, x in pterm['targets'] if x == cur]
            if len(vals) != 1 or pterm['otherwise'] == cur:
                return False
            v = vals[0]
            break
        if pterm['k'] != 'goto':
            return False
        cur = ps[0]
    if S is None:
        return False

    def discr_place(blk):
        tm = body.term(blk)
        if tm['k'] != 'switch':
            return None
        dl = op_local(tm['discr'])
        for kind, dbb, idx, x in body.defs().get(dl, []) if dl is not None else []:
            if kind == 'stmt' and x['rv']['k'] == 'discr' and dbb == blk:
                return x['rv']['place']
        return None
    P = discr_place(S)
    if P is None:
        return False
    key = _place_key(P)
    base = P['l']
    removed = set()
    for blk in range(len(body.blocks)):
        if blk == S:
            continue
        q = discr_place(blk)
        if q is None or _place_key(q) != key:
            continue
        tm = body.term(blk)
        listed = {int(val): x for val, x in tm['targets']}
        if v in listed:
            for val, x in listed.items():
                if val != v:
                    removed.add((blk, x))
            removed.add((blk, tm['otherwise']))
        else:
            for val, x in listed.items():
                removed.add((blk, x))
    if not removed:
        return False
    starts = {0}
    for kind, dbb, idx, x in body.defs().get(base, []):
        starts.add(dbb)
    # a definition inside a block: what follows it in that block is straight-line, so start from the block itself but do not
    # count the block's own switch as "passed" if the definition comes after the discriminant read (conservative: treat the
    # defining block as a start)
    seen = set()
    todo = list(starts)
    while todo:
        c = todo.pop()
        if c in seen:
            continue
        seen.add(c)
        if c == S and c not in starts:
            return False
        for nx in body.succs()[c]:
            if (c, nx) not in removed:
                if nx == S:
                    return False
                todo.append(nx)
    return True


def bool_polarity(body, local, start_bb, start_idx, target_bb, max_states=20000, avoid=()):
    """Does `target_bb` lie on the true side or on the false side of the boolean held by `local` (defined at statement
    start_idx of start_bb, or by the call terminating start_bb when start_idx is None)?  The CFG is explored twice, once per
    value, with constant propagation over booleans (moves, Not, constants assigned in the arms of a `match` / `matches!`, & and |):
    a switch on a known boolean takes one edge, any other switch all of them.  Returns True / False / None (both or neither)."""
    def run(val):
        seen = set()
        reach = False
        if start_idx is None:
            tgt = body.term(start_bb).get('target')
            todo = [(tgt, 0, ((local, val),))] if tgt is not None else []
        else:
            todo = [(start_bb, start_idx + 1, ((local, val),))]
        n = 0
        while todo:
            bb, idx, envt = todo.pop()
            key = (bb, idx, envt)
            if key in seen or body.is_cleanup(bb) or bb in avoid:
                continue
            seen.add(key)
            n += 1
            if n > max_states:
                return None
            if bb == target_bb:
                return True
            # coming round to the definition again (a loop): that is a fresh evaluation of the boolean, not this one
            if bb == start_bb and (start_idx is None or idx <= start_idx) and len(seen) > 1:
                continue
            env = dict(envt)
            stmts = body.blocks[bb]['stmts']
            for s in stmts[idx:]:
                if s['k'] != 'assign':
                    continue
                pl = s['place']
                if pl['p']:
                    continue
                rv = s['rv']
                v = None
                if rv['k'] == 'use':
                    if 'const' in rv['op'] and 'bool' in rv['op']['const']:
                        v = rv['op']['const']['bool']
                    else:
                        ol = op_local(rv['op'])
                        v = env.get(ol) if ol is not None else None
                elif rv['k'] == 'un' and rv['op'] == 'Not':
                    ol = op_local(rv['a'])
                    v = (not env[ol]) if ol in env else None
                elif rv['k'] == 'bin' and rv['op'] in ('BitAnd', 'BitOr', 'Eq', 'Ne'):
                    la, lb = op_local(rv['a']), op_local(rv['b'])
                    ca = rv['a'].get('const', {}).get('bool') if 'const' in rv['a'] else env.get(la)
                    cb = rv['b'].get('const', {}).get('bool') if 'const' in rv['b'] else env.get(lb)
                    if isinstance(ca, bool) and isinstance(cb, bool):
                        v = {'BitAnd': ca and cb, 'BitOr': ca or cb, 'Eq': ca == cb, 'Ne': ca != cb}[rv['op']]
                if isinstance(v, bool):
                    env[pl['l']] = v
                else:
                    env.pop(pl['l'], None)
            t = body.term(bb)
            envt2 = tuple(sorted(env.items()))
            if t['k'] == 'switch':
                dl = op_local(t['discr'])
                if dl in env:
                    want = '1' if env[dl] else '0'
                    tg = [x for v_, x in t['targets'] if v_ == want]
                    todo.append((tg[0] if tg else t['otherwise'], 0, envt2))
                else:
                    for v_, x in t['targets']:
                        todo.append((x, 0, envt2))
                    todo.append((t['otherwise'], 0, envt2))
            elif t['k'] == 'call':
                if t.get('target') is not None:
                    env.pop(t['dest']['l'], None)
                    todo.append((t['target'], 0, tuple(sorted(env.items()))))
            else:
                for x in body.succ(bb):
                    if not body.is_cleanup(x):
                        todo.append((x, 0, envt2))
        return reach
    rt, rf = run(True), run(False)
    if rt is None or rf is None or rt == rf:
        return None
    return bool(rt)
