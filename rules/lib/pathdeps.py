"""Path-sensitive data dependences inside one MIR body.

For a target operand (of a statement or a call) the analysis enumerates the acyclic paths from the entry to the target and,
along each path, computes which *sources* (named input places chosen by the caller: parameters, payload fields of a matched
variant, ...) the operand's value is computed from, together with what the path has established about Option-like sources
(`known[source] = variant index`, from switches on their discriminant or on is_none()/is_some() of them).

It answers questions of the form "whenever both bounds exist, does the stored bound depend on both?" independently of whether
the code is an if-chain, a match on a tuple, or an iterator expression.  Dependences through calls are the union of the
arguments' dependences (closures carry their captures as aggregate operands)."""
from .facts import op_place, strip_generics, callee_name

MAX_PATHS = 4000


def _pkey(p):
    parts = ['_%d' % p['l']]
    for e in p['p']:
        if e == '*':
            parts.append('*')
        elif isinstance(e, dict) and 'dc' in e:
            parts.append('as:%s' % e['dc'])
        elif isinstance(e, dict) and 'f' in e:
            parts.append('f%d' % e['f'])
        else:
            parts.append('?')
    return '/'.join(parts)


class PathDeps:
    def __init__(self, body, source_of):
        """source_of(place) -> source name | None (called on every place read)"""
        self.b = body
        self.source_of = source_of

    def _place_deps(self, st, p):
        deps = set(st['deps'].get(p['l'], ()))
        s = self.source_of(p)
        if s:
            deps.add(s)
        for e in p['p']:
            if isinstance(e, dict) and 'idx' in e:
                deps |= st['deps'].get(e['idx'], set())
        return deps

    def _op_deps(self, st, o):
        p = op_place(o)
        return self._place_deps(st, p) if p is not None else set()

    def _rv_deps(self, st, rv):
        d = set()
        for key in ('op', 'a', 'b'):
            if key in rv and isinstance(rv[key], dict):
                d |= self._op_deps(st, rv[key])
        if 'place' in rv:
            d |= self._place_deps(st, rv['place'])
        for o in rv.get('ops', []):
            d |= self._op_deps(st, o)
        return d

    def _exact_source(self, st, p):
        """the source this place *is* (possibly through a reference alias or as a field of a tuple built from sources)"""
        s = self.source_of(p)
        if s:
            return s
        k = _pkey(p)
        while True:
            if k in st['alias']:
                return st['alias'][k]
            if k.endswith('/*'):
                k = k[:-2]
                continue
            return None

    def run(self, target_bb, target_kind, target_idx=None):
        """target_kind 'stmt' (operands of the aggregate / rvalue at (target_bb, target_idx)) or 'call' (arguments of the
        terminator of target_bb).  Returns list of {'deps': [set per operand], 'known': {source: variant}} , truncated flag"""
        b = self.b
        out = []
        truncated = False
        init = {'deps': {}, 'alias': {}, 'discr_of': {}, 'tested': {}, 'known': {}}
        # parameters depend on themselves through source_of (asked per place), nothing to seed
        stack = [(0, init, frozenset())]
        n = 0
        while stack:
            bb, st, onpath = stack.pop()
            if bb in onpath or b.blocks[bb].get('cleanup'):
                continue
            n += 1
            if n > MAX_PATHS:
                truncated = True
                break
            st = {k: dict(v) for k, v in st.items()}
            bl = b.blocks[bb]
            hit = None
            for i, s in enumerate(bl['stmts']):
                if bb == target_bb and target_kind == 'stmt' and i == target_idx:
                    rv = s['rv']
                    ops = rv.get('ops') or [rv[k] for k in ('op', 'a', 'b') if k in rv and isinstance(rv[k], dict)]
                    hit = [self._op_deps(st, o) for o in ops]
                    break
                if s['k'] != 'assign':
                    continue
                rv = s['rv']
                d = self._rv_deps(st, rv)
                l = s['place']['l']
                if s['place']['p']:
                    st['deps'][l] = set(st['deps'].get(l, ())) | d
                    continue
                st['deps'][l] = d
                lk = '_%d' % l
                for kk in [kk for kk in st['alias'] if kk == lk or kk.startswith(lk + '/')]:
                    del st['alias'][kk]
                st['discr_of'].pop(l, None)
                st['tested'].pop(l, None)
                if rv['k'] == 'agg' and rv.get('ak') == 'tuple':
                    for fi, o in enumerate(rv['ops']):
                        op_ = op_place(o)
                        ex = self._exact_source(st, op_) if op_ is not None else None
                        if ex:
                            st['alias']['%s/f%d' % (lk, fi)] = ex
                if rv['k'] == 'ref' or (rv['k'] == 'use' and op_place(rv['op']) is not None):
                    p = rv['place'] if rv['k'] == 'ref' else op_place(rv['op'])
                    ex = self._exact_source(st, p)
                    if ex:
                        st['alias'][lk] = ex
                if rv['k'] == 'discr':
                    ex = self._exact_source(st, rv['place'])
                    if ex:
                        st['discr_of'][l] = ex
                if rv['k'] == 'un' and rv['op'] == 'Not':
                    a = op_place(rv['a'])
                    if a is not None and not a['p'] and a['l'] in st['tested']:
                        s0, pol = st['tested'][a['l']]
                        st['tested'][l] = (s0, not pol)
            if hit is not None:
                out.append({'deps': hit, 'known': dict(st['known'])})
                continue
            t = bl['term']
            k = t['k']
            if bb == target_bb and target_kind == 'call' and k == 'call':
                out.append({'deps': [self._op_deps(st, a) for a in t['args']], 'known': dict(st['known'])})
                continue
            np = onpath | {bb}
            if k == 'call':
                if t.get('target') is None:
                    continue
                d = set()
                for a in t['args']:
                    d |= self._op_deps(st, a)
                l = t['dest']['l']
                if t['dest']['p']:
                    st['deps'][l] = set(st['deps'].get(l, ())) | d
                else:
                    st['deps'][l] = d
                    lk = '_%d' % l
                    for kk in [kk for kk in st['alias'] if kk == lk or kk.startswith(lk + '/')]:
                        del st['alias'][kk]
                    st['discr_of'].pop(l, None)
                    st['tested'].pop(l, None)
                    nm = strip_generics(callee_name(t) or '')
                    if nm in ('std::option::Option::is_none', 'std::option::Option::is_some') and t['args']:
                        p = op_place(t['args'][0])
                        ex = self._exact_source(st, p) if p is not None else None
                        if ex:
                            # tested[l] = (source, value of l that means "is None")
                            st['tested'][l] = (ex, nm.endswith('is_none'))
                    # identity-like conversions keep an alias (deref / as_ref / clone of a reference to the source)
                    if nm.endswith(('::deref', '::as_ref', '::borrow')) and t['args']:
                        p = op_place(t['args'][0])
                        ex = self._exact_source(st, p) if p is not None else None
                        if ex:
                            st['alias'][lk] = ex
                stack.append((t['target'], st, np))
            elif k == 'switch':
                p = op_place(t['discr'])
                dl = p['l'] if p is not None and not p['p'] else None
                src = st['discr_of'].get(dl)
                tst = st['tested'].get(dl)
                listed = [int(v) for v, _ in t['targets']]
                for v, x in t['targets']:
                    st2 = {kk: dict(vv) for kk, vv in st.items()}
                    if src:
                        st2['known'][src] = int(v)
                    if tst:
                        s0, none_when_true = tst
                        is_true = int(v) != 0
                        st2['known'][s0] = 0 if (is_true == none_when_true) else 1
                    stack.append((x, st2, np))
                st2 = {kk: dict(vv) for kk, vv in st.items()}
                if src and set(listed) == {0}:
                    st2['known'][src] = 1
                elif src and set(listed) == {1}:
                    st2['known'][src] = 0
                if tst and listed == [0]:
                    s0, none_when_true = tst
                    st2['known'][s0] = 0 if none_when_true else 1
                stack.append((t['otherwise'], st2, np))
            elif k in ('goto', 'drop', 'assert'):
                stack.append((t['target'], st, np))
        return out, truncated
