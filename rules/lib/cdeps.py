"""Control dependence on the MIR and the combined (data + control) influence closure.

  postdominators(body)      block -> set of blocks that post-dominate it (normal edges only; cleanup blocks ignored)
  control_deps(body)        block -> set of switch blocks it is control dependent on (Ferrante/Ottenstein/Warren)
  influence(body, blocks, locals_)
        the switches and locals that decide *whether* the given blocks run and *what* the given locals hold: data
        dependences of the locals, the switches the defining blocks are control dependent on, the data dependences of the
        discriminants of those switches, and so on.  A boolean assigned `true` / `false` in the arms of a `match` and tested
        later is thereby traced back to the comparison inside the match, whatever the surface form (if / match / matches! /
        let-else / && / ||).
"""
from .facts import op_place
from . import mirq

EXIT = -1


def _normal_succ(body, bb):
    return [s for s in body.succ(bb) if not body.is_cleanup(s)]


def postdominators(body):
    n = len(body.blocks)
    nodes = [i for i in range(n) if not body.is_cleanup(i)]
    succ = {}
    for i in nodes:
        s = _normal_succ(body, i)
        succ[i] = s if s else [EXIT]
    allset = set(nodes) | {EXIT}
    pdom = {i: set(allset) for i in nodes}
    pdom[EXIT] = {EXIT}
    changed = True
    order = list(reversed(nodes))
    while changed:
        changed = False
        for i in order:
            new = None
            for s in succ[i]:
                new = set(pdom[s]) if new is None else (new & pdom[s])
            new = (new or set()) | {i}
            if new != pdom[i]:
                pdom[i] = new
                changed = True
    return pdom


def control_deps(body):
    pdom = postdominators(body)
    cd = {}
    for s in pdom:
        if s == EXIT or body.term(s)['k'] != 'switch':
            continue
        strict = pdom[s] - {s}
        for t in _normal_succ(body, s):
            for b in pdom.get(t, ()):
                if b != EXIT and b not in strict:
                    cd.setdefault(b, set()).add(s)
    return cd


def influence(body, blocks=(), locals_=()):
    """returns (locals, switch_blocks)"""
    cd = control_deps(body)
    defs = body.defs()
    pdefs = {}
    for i, j, s in body.stmts():
        if s['k'] == 'assign' and s['place']['p']:
            pdefs.setdefault(s['place']['l'], []).append((i, s))
    L, B, S = set(), set(), set()
    todo_l = list(locals_)
    todo_b = list(blocks)
    while todo_l or todo_b:
        while todo_b:
            b = todo_b.pop()
            if b in B:
                continue
            B.add(b)
            for s in cd.get(b, ()):
                if s not in S:
                    S.add(s)
                    p = op_place(body.term(s)['discr'])
                    if p is not None:
                        todo_l.append(p['l'])
                    todo_b.append(s)
        while todo_l:
            l = todo_l.pop()
            if l in L:
                continue
            L.add(l)
            for kind, bb, idx, x in defs.get(l, []):
                todo_b.append(bb)
                if kind == 'call':
                    for a in x['args']:
                        p = op_place(a)
                        if p is not None:
                            todo_l.append(p['l'])
                else:
                    todo_l.extend(mirq.operand_locals_of_rv(x['rv']))
            for bb, s in pdefs.get(l, []):
                todo_b.append(bb)
                todo_l.extend(mirq.operand_locals_of_rv(s['rv']))
    return L, S
