"""Control dependence on the MIR and the combined (data + control) influence closure.

  postdominators(body)      block -> set of blocks that post-dominate it (normal edges only; cleanup blocks ignored)
  control_deps(body)        block -> set of switch blocks it is control dependent on (Ferrante/Ottenstein/Warren)
  influence(body, blocks, locals_)
        the switches and locals that decide *whether* the given blocks run and *what* the given locals hold: data
        dependences of the locals, the switches the defining blocks are control dependent on, the data dependences of the
        discriminants of those switches, and so on.  A boolean assigned `true` / `false` in the arms of a `match` and tested
        later is thereby traced back to the comparison inside the match, whatever the surface form (if / match / matches! /
        let-else / && / ||).
"""
from .facts import op_place
from . import mirq

EXIT = -1


def _normal_succ(body, bb):
    return [s for s in body.succ(bb) if not body.is_cleanup(s)]


def postdominators(body):
    n = len(body.blocks)
    nodes = [i for i in range(n) if not body.is_cleanup(i)]
    succ = {}
    for i in nodes:
        s = _normal_succ(body, i)
        succ[i] = s if s else [EXIT]
    allset = set(nodes) | {EXIT}
    pdom = {i: set(allset) for i in nodes}
    pdom[EXIT] = {EXIT}
    changed = True
    order = list(reversed(nodes))
    while changed:
        changed = False
        for i in order:
            new = None
            for s in succ[i]:
                new = set(pdom[s]) if new is None else (new & pdom[s])
            new = (new or set()) | {i}
            if new != pdom[i]:
                pdom[i] = new
                changed = True
    return pdom


def control_deps(body):
    pdom = postdominators(body)
    cd = {}
    for s in pdom:
        if s == EXIT or body.term(s)['k'] != 'switch':
            continue
        strict = pdom[s] - {s}
        for t in _normal_succ(body, s):
            for b in pdom.get(t, ()):
                if b != EXIT and b not in strict:
                    cd.setdefault(b, set()).add(s)
    return cd


def influence(body, blocks=(), locals_=()):
    """returns (locals, switch_blocks)"""
    cd = control_deps(body)
    defs = body.defs()
    pdefs = {}
    for i, j, s in body.stmts():
        if s['k'] == 'assign' and s['place']['p']:
            pdefs.setdefault(s['place']['l'], []).append((i, s))
    L, B, S = set(), set(), set()
    todo_l = list(locals_)
    todo_b = list(blocks)
    while todo_l or todo_b:
        while todo_b:
            b = todo_b.pop()
            if b in B:
                continue
            B.add(b)
            for s in cd.get(b, ()):
                if s not in S:
                    S.add(s)
                    p = op_place(body.term(s)['discr'])
                    if p is not None:
                        todo_l.append(p['l'])
                    todo_b.append(s)
        while todo_l:
            l = todo_l.pop()
            if l in L:
                continue
            L.add(l)
            for kind, bb, idx, x in defs.get(l, []):
                todo_b.append(bb)
                if kind == 'call':
                    for a in x['args']:
                        p = op_place(a)
                        if p is not None:
                            todo_l.append(p['l'])
                else:
                    todo_l.extend(mirq.operand_locals_of_rv(x['rv']))
            for bb, s in pdefs.get(l, []):
                todo_b.append(bb)
                todo_l.extend(mirq.operand_locals_of_rv(s['rv']))
    return L, S


# ---------------------------------------------------------------------------------------------------------------------
# deep influence: data + control dependences with mutation through `&mut` references and closure summaries
# ---------------------------------------------------------------------------------------------------------------------
_SUMMARY = {}


def _node_of_place(body, p):
    """(local, upvar field | None): reads of a closure's captured variable `_1.k` / `(*_1).k` are kept apart per k"""
    if body.kind == 'closure' and p['l'] == 1:
        for e in p['p']:
            if e == '*':
                continue
            if isinstance(e, dict) and 'f' in e:
                return (1, e['f'])
            break
    return (p['l'], None)


def _ref_root(body, local, depth=10):
    """the node a reference local points into: follows `&mut X`, `&mut (*r)`, `r2 = r`, `r = _1.k`"""
    cur = local
    for _ in range(depth):
        ds = body.defs().get(cur, [])
        if len(ds) != 1 or ds[0][0] != 'stmt':
            return None
        rv = ds[0][3]['rv']
        if rv['k'] in ('ref', 'rawptr'):
            pl = rv['place']
            n = _node_of_place(body, pl)
            if n[1] is not None:
                return n
            if any(e == '*' for e in pl['p']):
                cur = pl['l']
                continue
            return (pl['l'], None)
        if rv['k'] in ('use', 'copyderef', 'cast'):
            pl = rv.get('place') or op_place(rv.get('op') or {})
            if pl is None:
                return None
            n = _node_of_place(body, pl)
            if n[1] is not None:
                return n
            cur = pl['l']
            continue
        return None
    return None


def _closure_of(mir, body, local):
    ds = body.defs().get(local, [])
    if len(ds) == 1 and ds[0][0] == 'stmt' and ds[0][3]['rv']['k'] == 'agg' and ds[0][3]['rv'].get('ak') == 'closure':
        return mir.by_id.get(ds[0][3]['rv'].get('def')), ds[0][3]['rv']
    return None, None


def closure_summary(mir, cb, depth=3):
    """(ret_upvars, {k: upvars influencing the mutations of captured variable k})"""
    if cb.id in _SUMMARY:
        return _SUMMARY[cb.id]
    _SUMMARY[cb.id] = (set(), {})        # recursion guard
    nodes, ups = deep_influence(mir, cb, [(0, None)], depth - 1)
    muts = {}
    for (l, f), sites in _mutation_defs(mir, cb, depth - 1).items():
        if l == 1 and f is not None:
            seeds = []
            for bb, deps in sites:
                seeds += deps
            n2, u2 = deep_influence(mir, cb, seeds, depth - 1, blocks=[bb for bb, _ in sites])
            muts[f] = u2
    _SUMMARY[cb.id] = (ups, muts)
    return _SUMMARY[cb.id]


def _mutation_defs(mir, body, depth):
    """node -> [(bb, [dependency nodes])]: calls that receive a `&mut` reference to the node (or a closure that captured one)"""
    out = {}
    for bb, t in body.calls():
        argnodes = []
        for a in t['args']:
            p = op_place(a)
            if p is not None:
                argnodes.append(_node_of_place(body, p))
        for a in t['args']:
            p = op_place(a)
            if p is None or p['p']:
                continue
            ty = body.local_ty(p['l']) or ''
            if ty.startswith('&mut'):
                root = _ref_root(body, p['l'])
                if root is not None:
                    out.setdefault(root, []).append((bb, [n for n in argnodes if n != (p['l'], None)] + [(p['l'], None)]))
            cb, agg = _closure_of(mir, body, p['l']) if depth > 0 else (None, None)
            if cb is not None:
                ret_u, muts = closure_summary(mir, cb, depth)
                for k, infl in muts.items():
                    if k >= len(agg['ops']):
                        continue
                    kp = op_place(agg['ops'][k])
                    if kp is None:
                        continue
                    root = _ref_root(body, kp['l']) or (kp['l'], None)
                    deps = [n for n in argnodes if n != (p['l'], None)]
                    for j in infl:
                        jp = op_place(agg['ops'][j]) if j < len(agg['ops']) else None
                        if jp is not None:
                            deps.append(_node_of_place(body, jp))
                    out.setdefault(root, []).append((bb, deps))
    return out


def deep_influence(mir, body, seeds, depth=3, blocks=()):
    """(nodes, upvars): everything the seed nodes (local, upvar) depend on inside `body` -- through statements, call arguments,
    control dependence, mutation through &mut references, and closures (only the captured variables that influence what the
    closure returns / mutates).  `upvars` = captured-variable indices of `body` itself (when it is a closure) in the result."""
    cd = control_deps(body)
    defs = body.defs()
    pdefs = {}
    for i, j, s in body.stmts():
        if s['k'] == 'assign' and s['place']['p']:
            pdefs.setdefault(_node_of_place(body, s['place']), []).append((i, s))
    mdefs = _mutation_defs(mir, body, depth)
    N, B, S = set(), set(), set()
    seen = set()
    last = len(body.blocks) - 1
    todo_n = [(s_ if len(s_) == 3 else (s_[0], s_[1], None)) for s_ in seeds]     # (local, upvar, block of the use | None = anywhere)
    todo_b = list(blocks)
    _reach = {}

    def reaches(x, y):
        """can control flow from block x arrive at block y?"""
        if y is None or x == y:
            return True
        if x not in _reach:
            _reach[x] = body.reachable(x)
        return y in _reach[x]

    def rv_nodes(rv):
        out = []
        for key in ('op', 'a', 'b'):
            if isinstance(rv.get(key), dict):
                p = op_place(rv[key])
                if p is not None:
                    out.append(_node_of_place(body, p))
        if 'place' in rv:
            out.append(_node_of_place(body, rv['place']))
        for o in rv.get('ops', []):
            p = op_place(o)
            if p is not None:
                out.append(_node_of_place(body, p))
        return out
    while todo_n or todo_b:
        while todo_b:
            b = todo_b.pop()
            if b in B:
                continue
            B.add(b)
            for s in cd.get(b, ()):
                if s not in S:
                    S.add(s)
                    p = op_place(body.term(s)['discr'])
                    if p is not None:
                        todo_n.append(_node_of_place(body, p) + (s,))
                    todo_b.append(s)
        while todo_n:
            l, f, ub = todo_n.pop()
            if (l, f, ub) in seen:
                continue
            seen.add((l, f, ub))
            n = (l, f)
            N.add(n)
            # only definitions / mutations from which the use can be reached count (flow sensitivity at block granularity)
            d_here = [d for d in (defs.get(l, []) if f is None else []) if reaches(d[1], ub)]
            p_here = [d for d in pdefs.get(n, []) if reaches(d[0], ub)]
            m_here = [d for d in mdefs.get(n, []) if reaches(d[0], ub)]
            # which definition reaches a use is a matter of control only when there are several (assignments in different arms,
            # pushes in a loop, ...); the mere reachability of a single definition says nothing about the value
            several = len(d_here) + len(p_here) + len(m_here) >= 2
            for kind, bb, idx, x in d_here:
                if several:
                    todo_b.append(bb)
                if kind == 'call':
                    for a in x['args']:
                        p = op_place(a)
                        if p is not None:
                            todo_n.append(_node_of_place(body, p) + (bb,))
                else:
                    rv = x['rv']
                    if rv['k'] == 'agg' and rv.get('ak') == 'closure' and depth > 0 and mir.by_id.get(rv.get('def')) is not None:
                        ret_u, muts = closure_summary(mir, mir.by_id[rv['def']], depth)
                        for k in ret_u:
                            if k < len(rv['ops']) and op_place(rv['ops'][k]) is not None:
                                todo_n.append(_node_of_place(body, op_place(rv['ops'][k])) + (bb,))
                    else:
                        todo_n.extend(x_ + (bb,) for x_ in rv_nodes(rv))
            for bb, s in p_here:
                if several:
                    todo_b.append(bb)
                todo_n.extend(x_ + (bb,) for x_ in rv_nodes(s['rv']))
            for bb, deps in m_here:
                if several:
                    todo_b.append(bb)
                todo_n.extend(x_ + (bb,) for x_ in deps)
    return N, {f for (l, f) in N if f is not None}
