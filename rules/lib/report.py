"""Rule bookkeeping: instances, findings, floors; known findings; evidence and replay files."""
import json, os, re, time

ROOT = os.path.dirname(os.path.dirname(os.path.dirname(os.path.abspath(__file__))))


class Finding:
    def __init__(self, rule, key, site, msg, detail=None):
        self.rule = rule
        self.key = key          # line-free identity: rule / body / discriminator
        self.site = site        # file:line for humans
        self.msg = msg
        self.detail = detail or {}

    def as_dict(self):
        return {'rule': self.rule, 'key': self.key, 'site': self.site, 'msg': self.msg, 'detail': self.detail}


class Rule:
    def __init__(self, rid, title):
        self.rid = rid
        self.title = title
        self.instances = 0
        self.discharged = 0
        self.samples = []
        self.findings = []
        self.notes = []
        self.floor = None
        self.exempt = []
        self.kinds = set()

    def inst(self, sample=None, ok=True, kind=None):
        """count one examined instance (call site / path / table row / obligation)"""
        self.instances += 1
        if ok:
            self.discharged += 1
        if sample is not None and len(self.samples) < 6:
            self.samples.append(sample)
        if kind is not None:
            self.kinds.add(kind)
        elif sample is not None:
            self.kinds.add(str(sample)[:120])

    def fail(self, key, site, msg, detail=None):
        k = '%s/%s' % (self.rid, key)
        # de-duplicate identical keys by suffixing an ordinal
        existing = [f for f in self.findings if f.key == k or f.key.startswith(k + '#')]
        if existing:
            k = '%s#%d' % (k, len(existing) + 1)
        self.findings.append(Finding(self.rid, k, site, msg, detail))

    def exempted(self, what, reason):
        self.exempt.append({'what': what, 'reason': reason})

    def need(self, n):
        self.floor = n

    def note(self, s):
        self.notes.append(s)

    def finish(self):
        if self.floor is not None and self.instances < self.floor:
            self.fail('floor', '-', 'rule matched %d instances, fewer than the %d confirmed by hand: the rule has lost its anchors (fail closed)' % (self.instances, self.floor))


class Ctx:
    def __init__(self, prop, tier, repo):
        self.prop = prop
        self.tier = tier
        self.repo = repo
        self.rules = []
        self._mir = None
        self._ast = None
        self._grammar = None
        self.trusted = []
        self.assumptions = []
        self.explanation = ''

    @property
    def mir(self):
        if self._mir is None:
            from . import facts
            self._mir = facts.load_mir()
        return self._mir

    @property
    def ast(self):
        if self._ast is None:
            from . import facts
            self._ast = facts.load_ast()
        return self._ast

    @property
    def grammar(self):
        if self._grammar is None:
            from . import facts
            self._grammar = facts.load_grammar()
        return self._grammar

    def rule(self, rid, title):
        r = Rule(rid, title)
        self.rules.append(r)
        return r

    def book(self, rel):
        with open(os.path.join(self.repo, 'book', 'src', rel)) as f:
            return f.read()

    def src(self, rel):
        with open(os.path.join(self.repo, rel)) as f:
            return f.read()


def load_known():
    p = os.path.join(ROOT, 'known_findings.json')
    if not os.path.exists(p):
        return {'findings': [], 'fixed': []}
    with open(p) as f:
        return json.load(f)


def safe_name(s):
    return re.sub(r'[^A-Za-z0-9_.-]+', '_', s)[:180]
