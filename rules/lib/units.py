"""Unit discipline for string positions: BYTE offsets (what &str / regex-automata APIs speak) versus CODE-POINT counts
(what the language speaks: indices, lengths, widths).  A flow-insensitive origin analysis per MIR body: the origins of an
operand are found by walking its data dependences backwards through statements and call arguments, *stopping* at the
calls / field reads that define a unit (a conversion is simply a call that yields the other unit: `chars().count()` yields
code points whatever it was computed from; `substr(..).len()` yields bytes).  A sink names the unit it needs."""
import re
from .facts import op_place, strip_generics, callee_name

BYTE_CALLS = re.compile(r'^core::str::<impl str>::(len|find|rfind|find_map)$|^std::string::String::len$|^alloc::string::String::len$'
                        r'|^util::fenced_string::FencedString::(bytes|size)$'
                        r'|^regex::Match::(start|end|len|range)$'
                        r'|^regex_automata::(util::search::)?(Match|Span|HalfMatch)::(start|end|len|range|span|offset)$'
                        r'|^regex_automata::(util::search::)?Input::(start|end|get_span|get_range)$')
BYTE_FIELD_BASE = re.compile(r'regex_automata::(util::search::)?(Span|Match|HalfMatch)\b|regex::Match\b')
CP_CALLS = re.compile(r'^util::fenced_string::FencedString::len$|^<std::str::Chars as std::iter::Iterator>::count$')
PROGRAM_INT = re.compile(r'^num_traits::ToPrimitive::to_(usize|u64|i64|isize|u32|i32)$|^builtin::sequence::value_to_idx$')


def classify_call(t):
    names = [strip_generics(x) for x in (t.get('callee'), t.get('decl')) if x]
    for nm in names:
        if BYTE_CALLS.match(nm):
            return 'byte', nm
        if CP_CALLS.match(nm):
            return 'cp', nm
        if PROGRAM_INT.match(nm):
            return 'program-int', nm
    if any(n == 'std::iter::Iterator::count' for n in names) and 'std::str::Chars' in ((t.get('argtys') or [''])[0]):
        return 'cp', 'Chars::count'
    if any(n == 'core::slice::<impl [T]>::len' for n in names) and '[u8]' in ((t.get('argtys') or [''])[0]):
        return 'byte', '<[u8]>::len'
    return None


def origins_ip(mir, body, local, depth=3):
    """origins, continued one or more levels up for closure bodies: a closure parameter takes the origins of the receiver
    of the adaptor call the closure is handed to (opt.map(|off| ..): off has the origins of opt); a captured variable takes
    the origins of the captured operand at the creation site"""
    out = set(origins(body, local, mir=mir))
    if body.kind != 'closure' or depth <= 0:
        return out
    from . import mirq
    # which parameters / captures does the backward walk reach?
    reached = _reached_inputs(body, local)
    if not reached['params'] and not reached['captures']:
        return out
    for pb, bb, j in mirq.closure_creation_sites(mir, body.id):
        s = pb.blocks[bb]['stmts'][j]
        cl_local = s['place']['l']
        for k in reached['captures']:
            ops = s['rv'].get('ops') or []
            if k < len(ops):
                p = op_place(ops[k])
                if p is not None:
                    out |= origins_ip(mir, pb, p['l'], depth - 1)
        if reached['params']:
            # the call that receives the closure value
            al, _ = mirq.move_origins(pb, cl_local) if False else ({cl_local}, None)
            for cbb, ct in pb.calls():
                arg_locals = [op_place(a)['l'] if op_place(a) is not None else None for a in ct['args']]
                holders = {cl_local} | {l for l in range(len(pb.locals)) if _is_move_of(pb, l, cl_local)}
                if any(a in holders for a in arg_locals):
                    for a in arg_locals:
                        if a is not None and a not in holders:
                            out |= origins_ip(mir, pb, a, depth - 1)
    return out


def _is_move_of(body, l, src):
    ds = body.defs().get(l, [])
    if len(ds) != 1 or ds[0][0] != 'stmt':
        return False
    rv = ds[0][3]['rv']
    if rv['k'] in ('use', 'ref'):
        p = op_place(rv['op']) if rv['k'] == 'use' else rv['place']
        return p is not None and p['l'] == src
    return False


def _reached_inputs(body, local):
    """closure parameters (locals 2..argc) and captured upvar indices (fields of local 1) the backward walk reaches"""
    defs = body.defs()
    seen = set()
    todo = [local]
    params, caps = set(), set()
    while todo:
        l = todo.pop()
        if l in seen:
            continue
        seen.add(l)
        if 2 <= l <= body.d['argc'] and not defs.get(l):
            params.add(l)
        for kind, bb, idx, x in defs.get(l, []):
            if kind == 'call':
                if classify_call(x):
                    continue
                places = [op_place(a) for a in x['args']]
            else:
                rv = x['rv']
                places = [op_place(rv[k]) for k in ('op', 'a', 'b') if k in rv and isinstance(rv[k], dict)]
                if 'place' in rv:
                    places.append(rv['place'])
                places += [op_place(o) for o in rv.get('ops', [])]
            for p in places:
                if p is None:
                    continue
                if p['l'] == 1:
                    fs = [e['f'] for e in p['p'] if isinstance(e, dict) and 'f' in e]
                    if fs:
                        caps.add(fs[0])
                else:
                    todo.append(p['l'])
    # parameters destructured by pattern: `|(a, b)|` reads fields of local 2
    return {'params': params, 'captures': caps}


def origins(body, local, _depth=60, mir=None):
    """set of (unit, what, site-bb) reached from `local` going backwards; traversal stops at unit-defining calls / fields"""
    defs = body.defs()
    pdefs = {}
    for i, j, s in body.stmts():
        if s['k'] == 'assign' and s['place']['p']:
            pdefs.setdefault(s['place']['l'], []).append((i, j, s))
    out = set()
    seen = set()
    todo = [local]
    while todo:
        l = todo.pop()
        if l in seen:
            continue
        seen.add(l)

        def visit_place(p, bb):
            # a read of a byte-offset field of a regex span
            names = [e.get('n') for e in p['p'] if isinstance(e, dict) and 'n' in e]
            if names and names[-1] in ('start', 'end', 'offset') and BYTE_FIELD_BASE.search(body.local_ty(p['l'])):
                out.add(('byte', 'field %s of %s' % (names[-1], body.local_ty(p['l']).split('<')[0]), bb))
                return
            todo.append(p['l'])
            for e in p['p']:
                if isinstance(e, dict) and 'idx' in e:
                    todo.append(e['idx'])

        def visit_rv(rv, bb):
            for key in ('op', 'a', 'b'):
                if key in rv and isinstance(rv[key], dict):
                    p = op_place(rv[key])
                    if p is not None:
                        visit_place(p, bb)
            if 'place' in rv:
                visit_place(rv['place'], bb)
            for o in rv.get('ops', []):
                p = op_place(o)
                if p is not None:
                    visit_place(p, bb)

        for kind, bb, idx, x in defs.get(l, []):
            if kind == 'call':
                c = classify_call(x)
                if c:
                    out.add((c[0], c[1], bb))
                    continue
                # value-transforming adaptors: the result is what the closure returns, not the receiver
                nm = strip_generics(callee_name(x) or '')
                cl_bodies = []
                if mir is not None:
                    for a in x['args']:
                        p = op_place(a)
                        if p is None or p['p']:
                            continue
                        from . import mirq
                        k2, v2 = mirq.chase(body, p['l'])
                        if k2 == 'rv' and v2[2]['rv']['k'] == 'agg' and v2[2]['rv'].get('ak') == 'closure':
                            cb = mir.by_id.get(v2[2]['rv'].get('def'))
                            if cb is not None:
                                cl_bodies.append(cb)
                if cl_bodies and re.search(r'::(map|and_then|map_or|map_or_else|then|filter_map|unwrap_or_else)$', nm) and _depth > 0:
                    for cb in cl_bodies:
                        out |= origins_ip(mir, cb, 0, depth=2)
                    continue
                for a in x['args']:
                    p = op_place(a)
                    if p is not None:
                        visit_place(p, bb)
            else:
                visit_rv(x['rv'], bb)
        for bb, j, s in pdefs.get(l, []):
            visit_rv(s['rv'], bb)
    return out


CP_SINKS = {
    'util::fenced_string::FencedString::substring': (1, 2),
    'util::fenced_string::FencedString::substr': (1, 2),
    'util::xformatter::FillSpecs::fillers': (1,),
}
BYTE_SINKS = {
    'regex_automata::Input::range': (1,),
    'regex_automata::Input::span': (1,),
    'regex_automata::util::search::Input::range': (1,),
    'regex_automata::util::search::Input::span': (1,),
    'core::str::<impl str>::split_at': (1,),
    'core::str::<impl str>::is_char_boundary': (1,),
}
STR_INDEX = re.compile(r'^core::str::traits::<impl std::ops::Index<I> for str>::index$|^<str as std::ops::Index<.*>>::index$|^std::ops::Index::index$')


def sinks_of(body):
    """yield (bb, term, operand, needs, what)"""
    for bb, t in body.calls():
        names = [strip_generics(x) for x in (t.get('callee'), t.get('decl')) if x]
        for nm in names:
            if nm in CP_SINKS:
                for k in CP_SINKS[nm]:
                    if k < len(t['args']):
                        yield bb, t, t['args'][k], 'cp', '%s arg %d' % (nm.split('::')[-1], k)
                break
            if nm in BYTE_SINKS:
                for k in BYTE_SINKS[nm]:
                    if k < len(t['args']):
                        yield bb, t, t['args'][k], 'byte', '%s arg %d' % (nm.split('::')[-1], k)
                break
        else:
            # &str slicing: Index::index(&str, range)
            if any(STR_INDEX.match(n) for n in names) and len(t['args']) == 2 and (t.get('argtys') or [''])[0].lstrip('&').strip() == 'str':
                yield bb, t, t['args'][1], 'byte', 'str[range]'
