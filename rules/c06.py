"""C06 — errors propagate as values; violations cannot be caught.
  R06.1  violations are linear: no value that may hold a RuntimeViolation is ever dropped (path-sensitive over drop flags and
         discriminants, all bodies) or handed to a discarding combinator (ok, is_ok, unwrap_or, ...)
  R06.3  errors are linear in natives: a Result<_, Rc<ManagedXError>> that may hold Err is dropped / discarded only inside the
         documented error handlers
  R06.2  the evaluator's construction arms raise erroring operands
  R06.4  user-function calls raise erroring arguments before the body runs
  R06.5  collections cannot hold errors (element types)
"""
import re
from .lib import mirq, pathsens, book
from .lib.types import split_generic
from .lib.facts import strip_generics, op_local, op_place, callee_name

RV = 'runtime_violation::RuntimeViolation'
DISCARDERS = re.compile(r'^std::result::Result::(ok|is_ok|is_err|is_ok_and|is_err_and|unwrap_or|unwrap_or_default|unwrap_or_else|map_or|map_or_else|iter|iter_mut|into_iter|and|and_then_ok|or|or_else|err|unwrap_err|expect_err|into_ok|copied|cloned|unwrap_or_default)$|^<std::result::Result as std::iter::IntoIterator>::into_iter$|^std::mem::drop$|^std::mem::forget$')
# documented error handlers: the only natives that may drop or inspect an error value (book/src/std/errors.md, lang/runtime_errors.md)
HANDLER_FNS = {'is_error', 'if_error', 'get_error'}
# non-handler bodies that may inspect / skip an error value (one line of reason each)
E_EXEMPT = {
    ('runtime_scope::RuntimeScope::eval_func_with_values::{closure#0}', 'is_err'): 'the raise test of the user-call path itself (R06.4): finds the leftmost erroring argument in order to return it',
    ('builtin::generators::add_generator_get::{closure#0}', 'drop'): 'elements of a lazy generator that are skipped before the requested index are never observed; they are not arguments of the builtin',
}


def _judged_by_the_predicate(mir, b, drop_term):
    """the dropped local was cloned into the argument vector of an eval_func_with_values call of the same body (directly, or inside
    a local closure of that body that receives a reference to it)"""
    if b.kind != 'closure' or not strip_generics(mir.enclosing_fn(b)).endswith('XGenerator::_iter'):
        return False
    l = drop_term['place']['l']
    fam = [b] + [x for x in mir.bodies if x.kind == 'closure' and x.nid.startswith(b.nid + '::{closure')]
    if not any(strip_generics(t.get('callee') or '') == 'runtime_scope::RuntimeScope::eval_func_with_values' for x in fam for _, t in x.calls()):
        return False
    # a reference to the local is taken and handed to Clone::clone or to a local closure
    refs = {s['place']['l'] for i, j, s in b.stmts() if s['k'] == 'assign' and s['rv']['k'] == 'ref' and s['rv']['place']['l'] == l and not s['place']['p']}
    more = True
    while more:
        more = False
        for i, j, s in b.stmts():
            if s['k'] == 'assign' and not s['place']['p'] and s['place']['l'] not in refs and s['rv']['k'] in ('use', 'ref', 'agg'):
                srcs = mirq.operand_locals_of_rv(s['rv'])
                if any(x in refs for x in srcs):
                    refs.add(s['place']['l'])
                    more = True
    for bb, t in b.calls():
        if any(op_local(a) in refs for a in t['args']):
            nm = strip_generics(t.get('callee') or t.get('decl') or '')
            if nm.endswith('Clone>::clone') or nm.endswith('::clone') or 'Fn' in (t.get('decl') or '') or '{closure' in (t.get('callee') or ''):
                return True
    return False


def may_hold(ty, key, known, kind):
    """can a value of type `ty` at place `key`, given known discriminants, still contain a violation (kind V) / error (kind E)?"""
    head, args = split_generic(ty)
    if head == RV:
        return kind == 'V'
    if head == 'std::result::Result' and len(args) == 2:
        a, b = args
        v = known.get(key)
        bad_err = (split_generic(b)[0] == RV) if kind == 'V' else ('xvalue::ManagedXError' in b)
        res = False
        if v in (None, 1):
            res = res or bad_err or may_hold(b, key + '/as:1/f0', known, kind)
        if v in (None, 0):
            res = res or may_hold(a, key + '/as:0/f0', known, kind)
        return res
    if head == 'std::option::Option' and len(args) == 1:
        v = known.get(key)
        if v == 0:
            return False
        return may_hold(args[0], key + '/as:1/f0', known, kind)
    if head == 'std::ops::ControlFlow' and len(args) >= 1:
        v = known.get(key)
        res = False
        if v in (None, 1):
            res = res or may_hold(args[0], key + '/as:1/f0', known, kind)
        if v in (None, 0) and len(args) > 1:
            res = res or may_hold(args[1], key + '/as:0/f0', known, kind)
        return res
    if head == 'xexpr::TailedEvalResult':
        return False if kind == 'V' else None  # handled by callers: Value(EvaluatedValue) forwarded whole
    if head.startswith('(') and head.endswith(')'):
        return False
    return False


def carrier(ty, kind):
    """does the top-level shape of this type make it a carrier worth tracking?"""
    head, args = split_generic(ty)
    if head == RV:
        return kind == 'V'
    if head == 'std::result::Result' and len(args) == 2:
        if kind == 'V':
            return split_generic(args[1])[0] == RV or carrier(args[0], kind)
        return 'xvalue::ManagedXError' in args[1] or carrier(args[0], kind)
    if head == 'std::option::Option' and len(args) == 1:
        return carrier(args[0], kind)
    if head == 'std::ops::ControlFlow' and args:
        return any(carrier(a, kind) for a in args)
    return False


def variant_count(mir):
    def f(ty):
        head, args = split_generic(ty)
        if head in ('std::result::Result', 'std::option::Option', 'std::ops::ControlFlow'):
            return 2
        a = mir.adts.get(head)
        if a:
            return len(a['variants'])
        return None
    return f


def linear_findings(mir, kind, bodies):
    """[(body, bb, term, why)] drops of a possibly-bad carrier, decided path-sensitively"""
    out = []
    unknown = []
    vc = variant_count(mir)
    for b in bodies:
        cand = [i for i, bl in enumerate(b.blocks) if bl['term']['k'] == 'drop' and not bl['cleanup'] and (carrier(bl['term']['pty'], kind) or (kind == 'E' and bl['term']['pty'].startswith('std::rc::Rc<xvalue::ManagedXError') and any(isinstance(e, dict) and e.get('dc') == 'Err' for e in bl['term']['place']['p'])))]
        if not cand:
            continue
        hits = {}

        def on_drop(bb, t, known, b=b, hits=hits):
            if bb not in cand:
                return
            key = pathsens.place_key(t['place'])
            ty = t['pty']
            if ty.startswith('std::rc::Rc<xvalue::ManagedXError'):
                bad = True
            else:
                bad = may_hold(ty, key, known, kind)
            # a carrier dropped while the function is already committed to returning a violation loses nothing:
            # the host still receives a violation
            # ... and (errors only) a value whose clone was handed on earlier on this path is not lost by dropping the original
            forwarded = kind == 'E' and any(k2.startswith('#cl:') and (k2[4:] == key or key.startswith(k2[4:] + '/')) for k2 in known)
            if bad and known.get('#ret') != 'viol' and not forwarded:
                hits.setdefault(bb, dict(known))
        ex = pathsens.Explorer(b, vc)
        ok = ex.explore(on_drop)
        if not ok:
            unknown.append(b)
        for bb, known in hits.items():
            out.append((b, bb, b.term(bb), known))
    return out, unknown


def discarding_calls(mir, kind):
    out = []
    for b in mir.bodies:
        for bb, t in b.calls():
            nm = strip_generics(t.get('callee') or t.get('decl') or '')
            if not DISCARDERS.match(nm):
                continue
            if kind == 'V' and nm.split('::')[-1] in ('is_ok', 'is_err', 'is_ok_and', 'is_err_and'):
                # these take &self: the value lives on and stays under the drop analysis of R06.1, which does not learn the
                # variant from such a call and therefore still reports a later drop ("may hold a violation")
                continue
            aty = (t.get('argtys') or [''])[0]
            base = aty[1:].strip() if aty.startswith('&') else aty
            base = base[4:] if base.startswith('mut ') else base
            if carrier(base, kind) and split_generic(base)[0] == 'std::result::Result':
                # only when the discarded layer is the carrying one
                head, args = split_generic(base)
                err = args[1]
                hit = (split_generic(err)[0] == RV) if kind == 'V' else ('xvalue::ManagedXError' in err)
                if hit:
                    out.append((b, bb, t, nm))
    return out


def handler_body(mir, b, regs_by_fn):
    top = mir.enclosing_fn(b)
    topb = mir.by_id.get(top)
    if topb is None:
        return None
    fnname = strip_generics(top).split('::')[-1]
    names = {g['name'] for g in regs_by_fn.get((topb.file, fnname), []) if g['name']}
    return names


DROPPING = re.compile(r'^std::iter::Iterator::(last|nth|nth_back|count|skip|step_by|max|min|max_by|min_by|max_by_key|min_by_key|sum|product|position|rposition|advance_by|skip_while|filter|filter_map|find|find_map|flatten|flat_map|take_while|map_while|reduce|fold)$')
UNCONDITIONAL = {'last', 'nth', 'nth_back', 'count', 'skip', 'step_by', 'max', 'min', 'max_by', 'min_by', 'max_by_key', 'min_by_key', 'advance_by', 'position', 'rposition', 'flatten'}


FALLIBLE_ITER_SOURCES = re.compile(r'^builtin::sequence::XSequence::(iter|diter)$|^builtin::generators::XGenerator::(iter|_iter)$')


def _fallible_source(b, t, depth=8):
    """the receiver of an Iterator adaptor call comes -- through other adaptors -- from XSequence::iter / XGenerator::iter, whose
    items are Result<Result<value, error>, RuntimeViolation> although the concrete iterator type (Either<Map<.., closure>>) does
    not say so"""
    cur = op_place(t['args'][0]) if t['args'] else None
    for _ in range(depth):
        if cur is None:
            return False
        k, v = mirq.chase(b, cur['l'])
        if k != 'call':
            return False
        ct = v[1]
        nm = strip_generics(ct.get('callee') or ct.get('decl') or '')
        if FALLIBLE_ITER_SOURCES.match(nm):
            return True
        if strip_generics(ct.get('decl') or '').startswith('std::iter::Iterator::') or nm.endswith(('::into_iter', '::by_ref', '::unwrap', '::expect')):
            cur = op_place(ct['args'][0]) if ct['args'] else None
            continue
        return False
    return False


def dropping_adaptors(ctx, r6):
    """Generator items are Result<Result<value, error>, RuntimeViolation>.  An Iterator adaptor that discards items by
    position or count (skip, nth, last, count, step_by, min/max ..) discards violations with them; an adaptor that decides
    per item through a closure (filter, filter_map, skip_while, take_while, find ..) is judged by abstract evaluation of
    that closure on a violation item: it must keep it (filter: true; filter_map: Some(the item); skip_while: false; ..)."""
    from .lib import absint
    mir = ctx.mir
    n = 0
    for b in mir.bodies:
        for bb, t in b.calls():
            d = strip_generics(t.get('decl') or '')
            m = DROPPING.match(d)
            if not m:
                continue
            ty = (t.get('argtys') or [''])[0]
            if 'runtime_violation::RuntimeViolation' not in ty and not _fallible_source(b, t):
                continue
            meth = m.group(1)
            n += 1
            ok = False
            why = ''
            if meth in UNCONDITIONAL:
                why = '`%s` discards items by position: a violation raised while producing a discarded element is swallowed' % meth
            elif meth in ('fold', 'reduce', 'sum', 'product', 'flat_map', 'map_while'):
                ok = True    # every item reaches the closure / accumulator: judged by the linearity rule R06.1 there
            else:
                # closure verdict on a violation item
                cl = None
                for a in t['args'][1:]:
                    k2, v2 = mirq.chase_op(b, a)
                    if k2 == 'rv' and v2[2]['rv']['k'] == 'agg' and v2[2]['rv'].get('ak') == 'closure':
                        cl = mir.by_id.get(v2[2]['rv'].get('def'))
                if cl is None:
                    why = 'the per-item decision of `%s` is not a closure of this crate' % meth
                else:
                    item = ('err', 'VIOLATION')

                    def build(ty):
                        # the abstract closure argument for its declared type: the item position holds a violation, a zipped
                        # budget permit is granted, Option / tuple / reference wrappers are followed
                        ty = ty.strip()
                        if ty.startswith('&'):
                            return ('boxed', build(re.sub(r"^&(mut )?('\\w+ )?", '', ty)))
                        head, args = split_generic(ty)
                        if head == 'std::result::Result' and len(args) == 2 and split_generic(args[1])[0] == RV:
                            return ('ok', ('tuple', ())) if args[0].strip() == '()' else item
                        if head == 'std::option::Option' and len(args) == 1:
                            return ('some', build(args[0]))
                        if ty.startswith('(') and ty.endswith(')'):
                            inner = split_generic('T<' + ty[1:-1] + '>')[1]
                            return ('tuple', tuple(build(x) for x in inner))
                        return absint.UNKNOWN

                    def unbox(v, env, path='#p'):
                        if isinstance(v, tuple) and v and v[0] == 'boxed':
                            env[path] = unbox(v[1], env, path + 'x')
                            return ('ref', path)
                        if isinstance(v, tuple) and v and v[0] == 'tuple':
                            return ('tuple', tuple(unbox(x, env, path + str(i)) for i, x in enumerate(v[1])))
                        if isinstance(v, tuple) and v and v[0] == 'some':
                            return ('some', unbox(v[1], env, path + 's'))
                        return v
                    env0 = {}
                    env0['_2'] = unbox(build(cl.local_ty(2)), env0)

                    def nothing(tm, vals, env):
                        return absint.UNKNOWN
                    rs = absint.returns(mir, cl, env0, nothing)
                    if meth in ('filter', 'take_while'):
                        ok = rs == {True}
                    elif meth in ('skip_while',):
                        ok = rs == {False}
                    elif meth in ('filter_map', 'find_map'):
                        ok = rs == {('some', item)}
                    elif meth == 'find':
                        ok = rs == {True}
                    why = '' if ok else 'on a violation item the closure of `%s` returns %s: the violation is dropped' % (meth, sorted(map(str, rs)))
            r6.inst({'body': b.nid, 'site': mirq.site(b, bb), 'adaptor': meth, 'keeps_violations': ok}, ok=ok, kind=(b.nid, bb))
            if not ok:
                r6.fail('%s/%s' % (b.nid.split('::{closure')[0], meth), mirq.site(b, bb), why)
    r6.need(4)


def raise_gate(ctx, r4):
    """R06.4 (also R07.7): in eval_func_with_values, every *origin* of the argument vector that reaches the frame
    construction (the incoming parameter, and the payload of TailCall taken by the trampoline) must pass the raise test --
    a switch that is data-dependent on that vector and from which the erroring argument is returned -- before
    from_template is called.  Must-pass-through: with the test blocks removed from the CFG, no origin reaches the frame."""
    mir = ctx.mir
    efv = mir.find('runtime_scope::RuntimeScope::eval_func_with_values')
    if len(efv) != 1:
        r4.fail('anchor/efv', '-', 'eval_func_with_values not found')
        return
    b = efv[0]
    frames = [(bb, t) for bb, t in b.calls() if strip_generics(t.get('callee') or '') == 'runtime_scope::RuntimeScope::from_template']
    if not frames:
        r4.fail('anchor/from_template', mirq.site(b, 0), 'no call of from_template in eval_func_with_values')
        return
    defs = b.defs()
    # writes through a projection (e.g. a loop-carried `args = new_args` compiled as a drop-and-replace) count as definitions too
    for bb, t in frames:
        vec_ops = [a for a in t['args'] if op_place(a) is not None and not op_place(a)['p'] and 'Vec<' in b.local_ty(op_place(a)['l']) and 'ManagedXError' in b.local_ty(op_place(a)['l'])]
        if len(vec_ops) != 1:
            r4.fail('anchor/frame-args', mirq.site(b, bb), 'the argument vector handed to from_template was not recognised')
            continue
        a = op_place(vec_ops[0])['l']
        # origins: follow plain moves backwards
        aliases = set()
        origins = []   # (block, description)
        todo = [a]
        while todo:
            l = todo.pop()
            if l in aliases:
                continue
            aliases.add(l)
            ds = defs.get(l, [])
            if not ds and 1 <= l <= b.d['argc']:
                origins.append((0, 'parameter %s' % (b.name_of_local(l) or '_%d' % l)))
            for kind, dbb, idx, x in ds:
                if kind == 'stmt' and x['rv']['k'] == 'use' and op_place(x['rv']['op']) is not None:
                    pl = op_place(x['rv']['op'])
                    if not pl['p']:
                        todo.append(pl['l'])
                    else:
                        origins.append((dbb, 'payload %s of a %s (%s)' % ('/'.join(str(e.get('dc') or e.get('f')) if isinstance(e, dict) else e for e in pl['p']), b.local_ty(pl['l']).split('<')[0].split('::')[-1], mirq.site(b, dbb, idx))))
                elif kind == 'call':
                    origins.append((dbb, 'result of %s' % strip_generics(callee_name(x) or '?')))
                else:
                    origins.append((dbb, 'computed at %s' % mirq.site(b, dbb, idx)))
        # raise exits: TailedEvalResult::Value(Err(e)) with e data-dependent on the vector
        exits = []
        for i, j, s in b.stmts():
            if s['k'] == 'assign' and s['rv']['k'] == 'agg' and s['rv'].get('adt') == 'xexpr::TailedEvalResult' and s['rv']['v'] == 'Value':
                k, v = mirq.chase_op(b, s['rv']['ops'][0])
                if k == 'rv' and v[2]['rv']['k'] == 'agg' and v[2]['rv'].get('adt') == 'std::result::Result' and v[2]['rv']['v'] == 'Err':
                    el = op_local(v[2]['rv']['ops'][0])
                    sl = mirq.backslice(b, [el]) if el is not None else set()
                    if sl & aliases:
                        exits.append(i)
        dom = b.dominators()
        tests = set()
        for r in exits:
            for d in dom.get(r, ()):
                tm = b.term(d)
                if tm['k'] != 'switch' or d == r:
                    continue
                dl = op_local(tm['discr'])
                if dl is not None and (mirq.backslice(b, [dl]) & aliases) and not mirq.dominates(b, r, bb):
                    tests.add(d)
        if not exits or not tests:
            r4.inst({'frame_site': mirq.site(b, bb), 'raise_exits': 0}, ok=False)
            r4.fail('eval_func_with_values/no-raise', mirq.site(b, bb), "a user function's frame is built without first returning an erroring argument: f(5, error) runs f and drops the error when the parameter is unused (the book: the error prevents the call)")
            continue
        for obb, what in sorted(set(origins)):
            reach = b.reachable(obb, avoid=tests)
            # the origin block itself may be a test block's successor only through the test
            ok = bb not in reach
            r4.inst({'frame_site': mirq.site(b, bb), 'argument_vector_origin': what, 'raise_tests': sorted(mirq.site(b, x) for x in tests), 'every_path_passes_a_test': ok}, ok=ok, kind=('origin', what.split(' (')[0]))
            if not ok:
                r4.fail('eval_func_with_values/ungated-origin/%s' % re.sub(r'[^A-Za-z0-9]+', '-', what.split(' (')[0]).strip('-'), mirq.site(b, bb),
                        'the argument vector coming from %s reaches from_template on a path that does not pass the erroring-argument test: an error argument of that call (e.g. of a tail iteration) is bound to a parameter instead of being returned' % what)
    r4.need(2)


def run(ctx):
    from .lib import astq
    mir = ctx.mir
    ctx.explanation = ('Linearity of violation-carrying and error-carrying values decided path-sensitively (drop flags × discriminants) over all '
                       'MIR bodies, plus the discarding-combinator inventory; the evaluator\'s construction and call arms are checked to raise.')
    ctx.trusted = ['rustc drop elaboration: a value that is neither moved out nor returned is dropped by a Drop terminator', 'the book as the list of error handlers']
    regs = astq.registrations(ctx.ast)
    regs_by_fn = {}
    for g in regs:
        regs_by_fn.setdefault((g['file'], g['fn']), []).append(g)

    # ---------------- R06.1
    r1 = ctx.rule('R06.1', 'no value that may hold a RuntimeViolation is dropped or discarded')
    bodies = [b for b in mir.bodies if b.kind in ('fn', 'closure')]
    n_drops = 0
    for b in bodies:
        for i, bl in enumerate(b.blocks):
            if bl['term']['k'] == 'drop' and not bl['cleanup'] and carrier(bl['term']['pty'], 'V'):
                n_drops += 1
    found, unknown = linear_findings(mir, 'V', bodies)
    bad_blocks = {(b.id, bb) for b, bb, t, kn in found}
    for b in bodies:
        for i, bl in enumerate(b.blocks):
            if bl['term']['k'] == 'drop' and not bl['cleanup'] and carrier(bl['term']['pty'], 'V'):
                ok = (b.id, i) not in bad_blocks
                r1.inst({'body': b.id, 'site': mirq.site(b, i), 'type': bl['term']['pty'][:70], 'feasible_with_violation': not ok}, ok=ok, kind=(b.id, i))
    for b, bb, t, kn in found:
        r1.fail('%s/drop' % b.nid, mirq.site(b, bb), 'a %s that may hold a violation is dropped here: the violation is swallowed instead of reaching the host' % t['pty'][:60], {'known': kn})
    for b in unknown:
        r1.fail('%s/unrecognised' % b.nid, mirq.site(b, 0), 'path-sensitive exploration exceeded its state bound; drops of violation carriers in this body are undecided')
    for b, bb, t, nm in discarding_calls(mir, 'V'):
        r1.inst({'body': b.id, 'site': mirq.site(b, bb), 'combinator': nm}, ok=False)
        r1.fail('%s/%s' % (b.nid, nm.split('::')[-1]), mirq.site(b, bb), '%s applied to a Result<_, RuntimeViolation>: the violation can be discarded or converted' % nm)
    r1.need(15)

    # ---------------- R06.3
    r3 = ctx.rule('R06.3', 'errors are dropped / discarded only inside the documented handlers')
    found, unknown = linear_findings(mir, 'E', bodies)
    handlers_seen = set()
    for b, bb, t, kn in found:
        names = handler_body(mir, b, regs_by_fn) or set()
        ok = bool(names & HANDLER_FNS)
        if ok:
            handlers_seen |= names & HANDLER_FNS
        r3.inst({'body': b.id, 'site': mirq.site(b, bb), 'registered_as': sorted(names), 'handler': ok}, ok=ok, kind=(b.id, bb))
        if not ok and (b.nid, 'drop') in E_EXEMPT:
            r3.exempted(b.nid, E_EXEMPT[(b.nid, 'drop')])
            continue
        if not ok and _judged_by_the_predicate(mir, b, t):
            # an element a filter / skip_until rejects: it was handed (cloned) to the program's predicate first, and a call with an
            # erroring argument returns that error (R06.4), which these adaptors yield -- so the element dropped on the other
            # paths is not an error value
            r3.exempted('%s: element dropped after the predicate saw it' % strip_generics(mir.enclosing_fn(b)), 'the dropped element was an argument of eval_func_with_values in this body; had it been an error value, the call would have returned it (R06.4)')
            continue
        if not ok:
            r3.fail('%s/drop' % b.nid, mirq.site(b, bb), 'an error value (%s) may be dropped here: the error is swallowed by a function that is not a documented error handler' % t['pty'][:60], {'known': kn})
    for b in unknown:
        r3.fail('%s/unrecognised' % b.nid, mirq.site(b, 0), 'path-sensitive exploration exceeded its state bound')
    for b, bb, t, nm in discarding_calls(mir, 'E'):
        names = handler_body(mir, b, regs_by_fn) or set()
        ok = bool(names & HANDLER_FNS)
        if ok:
            handlers_seen |= names & HANDLER_FNS
        r3.inst({'body': b.id, 'site': mirq.site(b, bb), 'combinator': nm, 'handler': ok}, ok=ok, kind=(b.id, bb, nm))
        if not ok and (b.nid, nm.split('::')[-1]) in E_EXEMPT:
            r3.exempted(b.nid, E_EXEMPT[(b.nid, nm.split('::')[-1])])
            continue
        # the raise test of the user-call path (R06.4) looks at its argument vector through references: an inspection of a
        # *borrowed* result inside eval_func_with_values, its closures or a private helper of it drops nothing (what the
        # test then does with the error it found is decided by R06.4)
        aty = (t.get('argtys') or [''])[0]
        borrowed = aty.startswith('&') or aty.startswith('std::result::Result<&')
        EFV_ = 'runtime_scope::RuntimeScope::eval_func_with_values'
        if not ok and borrowed and nm.split('::')[-1] in ('is_err', 'is_ok', 'err', 'ok', 'is_err_and', 'is_ok_and') \
                and mirq.private_helper_of(mir, b, {EFV_}):
            r3.exempted(b.nid, 'inspection of a borrowed argument by the raise test of the user-call path (R06.4)')
            continue
        if not ok:
            r3.fail('%s/%s' % (b.nid, nm.split('::')[-1]), mirq.site(b, bb), '%s applied to an error-carrying Result outside the documented handlers' % nm)
    # all candidate drops are instances too
    n = 0
    for b in bodies:
        for i, bl in enumerate(b.blocks):
            if bl['term']['k'] == 'drop' and not bl['cleanup'] and carrier(bl['term']['pty'], 'E'):
                n += 1
                r3.inst({'body': b.id, 'site': mirq.site(b, i)}, kind=('cand', b.id, i))
    missing = HANDLER_FNS - handlers_seen
    if missing:
        r3.note('handlers without a detected drop/inspection: %s' % sorted(missing))
    r3.need(20)

    # ---------------- R06.4 user-function calls raise erroring arguments before the frame is built
    r4 = ctx.rule('R06.4', 'user-function call path returns an erroring argument before building the frame')
    raise_gate(ctx, r4)

    # ---------------- R06.6 std adaptors that drop items are not applied to iterators whose items can be violations
    r6 = ctx.rule('R06.6', 'iterator adaptors that drop items never drop a violation item')
    dropping_adaptors(ctx, r6)

    # ---------------- R06.5 collections cannot hold errors
    r5 = ctx.rule('R06.5', 'collection element types cannot hold an error (only scope cells and argument vectors hold EvaluatedValue)')
    ALLOWED_HOLDERS = {
        ('runtime_scope::EvaluationCell', 'Value'): 'scope cell: a let-bound error value is a value',
        ('xexpr::XExpr', 'Dummy'): 'already-evaluated argument handed to a native',
        ('xexpr::TailedEvalResult', 'Value'): 'evaluation result',
        ('xexpr::TailedEvalResult', 'TailCall'): 'argument vector of a tail call',
        ('runtime_scope::RuntimeScopeTemplate', 'RuntimeScopeTemplate'): 'default parameter values (evaluated once)',
    }
    ev_rx = re.compile(r'Result<std::rc::Rc<xvalue::ManagedXValue<[^>]*>>, std::rc::Rc<xvalue::ManagedXError')
    for aid, a in sorted(mir.adts.items()):
        for v in a['variants']:
            for f in v['fields']:
                if ev_rx.search(f['ty']) or 'root_runtime_scope::EvaluatedValue' in f['ty']:
                    ok = (aid, v['name']) in ALLOWED_HOLDERS
                    r5.inst({'adt': aid, 'variant': v['name'], 'field': f['name']}, ok=ok, kind=(aid, v['name'], f['name']))
                    if not ok:
                        r5.fail('%s/%s.%s' % (aid, v['name'], f['name']), a['span'], 'a data type can store an EvaluatedValue (possibly an error) — collections must hold Rc<ManagedXValue> only')
    r5.need(4)
