"""C13 — floats are always finite.  Constructor discipline, by induction over construction sites:
  R13.1  every construction of XValue::Float(x) is either dominated by the true edge of a branch on f64::is_finite(x),
         or x is a finite-preserving function (copy, clone, negation, abs) of a payload read from an existing finite
         carrier (XValue::Float, XExpr::LiteralFloat, XStaticExpr::LiteralFloat), or comes from serde_json (trusted).
  R13.2  every construction of a LiteralFloat carrier obeys the same discipline (literals are checked when parsed).
  R13.3  the host clock's value enters only through the checked constructor.
"""
from .lib import mirq
from .lib.facts import strip_generics, op_place, op_local

CARRIERS = {('xvalue::XValue', 'Float'), ('xexpr::XExpr', 'LiteralFloat'), ('xexpr::XStaticExpr', 'LiteralFloat')}
IS_FINITE = ('core::f64::<impl f64>::is_finite', 'std::f64::<impl f64>::is_finite')

# unary functions f with: x finite  =>  f(x) finite   (and identity-like plumbing)
PRESERVING = {
    '<&f64 as std::ops::Neg>::neg', '<f64 as std::ops::Neg>::neg', 'std::ops::Neg::neg',
    'core::f64::<impl f64>::abs', 'std::f64::<impl f64>::abs',
    'std::clone::impls::<impl std::clone::Clone for f64>::clone', '<f64 as std::clone::Clone>::clone',
    'std::clone::Clone::clone',
    '<&T as std::ops::Deref>::deref',
}


def carrier_projection(p):
    for e in p['p']:
        if isinstance(e, dict) and 'n' in e and (e.get('adt'), e.get('v')) in CARRIERS:
            return True
    return False


def origin(mir, body, op, depth=8, seen=None):
    """set of origin classes of an f64-valued operand: 'carrier', 'serde_json', or 'unknown:<what>'"""
    if seen is None:
        seen = set()
    if 'const' in op:
        c = op['const']
        return {'const:%s' % c.get('s', '?')}
    p = op_place(op)
    if p is None:
        return {'unknown:operand'}
    if carrier_projection(p):
        return {'carrier'}
    if any(e != '*' for e in p['p']):
        return {'unknown:projection of %s' % body.local_ty(p['l'])[:60]}
    return origin_local(mir, body, p['l'], depth, seen)


def origin_local(mir, body, l, depth, seen):
    key = (body.id, l)
    if key in seen or depth <= 0:
        return set() if key in seen else {'unknown:depth'}
    seen.add(key)
    ds = body.defs().get(l, [])
    if not ds:
        if 1 <= l <= body.d['argc']:
            return origin_arg(mir, body, l, depth, seen)
        return {'unknown:undefined local'}
    out = set()
    for kind, bb, idx, x in ds:
        if kind == 'call':
            t = x
            name = strip_generics(t.get('callee') or t.get('decl') or '')
            ty0 = (t.get('argtys') or [''])[0]
            if name in PRESERVING and ('f64' in ty0):
                out |= origin(mir, body, t['args'][0], depth - 1, seen)
            elif name.endswith('Option::unwrap') or name.endswith('Option::unwrap_or'):
                # Option<f64> produced by serde_json::Number::as_f64: serde_json never yields non-finite numbers
                k2, inner = mirq.chase_op(body, t['args'][0])
                if k2 == 'call' and strip_generics(inner[1].get('callee') or '') == 'serde_json::Number::as_f64':
                    out.add('serde_json')
                else:
                    out.add('unknown:unwrap of %s' % (strip_generics(inner[1].get('callee') or '?') if k2 == 'call' else k2))
            else:
                out.add('unknown:result of %s' % name)
        else:
            rv = x['rv']
            k = rv['k']
            if k == 'use':
                out |= origin(mir, body, rv['op'], depth - 1, seen)
            elif k in ('ref', 'copyderef'):
                p = rv['place']
                if carrier_projection(p):
                    out.add('carrier')
                elif all(e == '*' for e in p['p']):
                    out |= origin_local(mir, body, p['l'], depth - 1, seen)
                else:
                    out.add('unknown:projection of %s' % body.local_ty(p['l'])[:60])
            elif k == 'un' and rv['op'] == 'Neg':
                out |= origin(mir, body, rv['a'], depth - 1, seen)
            elif k == 'bin':
                out.add('unknown:arithmetic %s' % rv['op'])
            elif k == 'cast':
                out.add('unknown:cast from %s' % rv.get('from'))
            else:
                out.add('unknown:%s' % k)
    return out


def origin_arg(mir, body, l, depth, seen):
    """argument l of a closure/fn: union over all resolved call sites inside the crate"""
    out = set()
    n = 0
    if body.kind == 'closure':
        for cb in mir.bodies:
            for bb, t in cb.calls():
                if t.get('callee') != body.id:
                    continue
                # Fn::call(&closure, (a, b, ..)) : args[1] is the tuple
                k2, tup = mirq.chase_op(cb, t['args'][1]) if len(t['args']) > 1 else ('none', None)
                if k2 == 'rv' and tup[2]['rv']['k'] == 'agg' and tup[2]['rv']['ak'] == 'tuple':
                    ops = tup[2]['rv']['ops']
                    if l - 2 < len(ops):
                        n += 1
                        out |= origin(mir, cb, ops[l - 2], depth - 1, seen)
                        continue
                out.add('unknown:closure argument (unrecognised call shape)')
                n += 1
    else:
        for (cb, bb, t) in mir.callers_index().get(body.nid, []):
            if l - 1 < len(t['args']):
                n += 1
                out |= origin(mir, cb, t['args'][l - 1], depth - 1, seen)
    if n == 0:
        out.add('unknown:parameter with no resolved call site')
    return out


def root_place(body, op, depth=10):
    """(root local, field/variant path) an operand's value is read from, through copies, moves, references and derefs"""
    p = op_place(op)
    if p is None:
        return None
    path = []
    cur = p
    for _ in range(depth):
        names = [(e.get('dc') or e.get('n') or ('#%s' % e.get('f'))) for e in cur['p'] if isinstance(e, dict)]
        path = names + path
        ds = body.defs().get(cur['l'], [])
        if len(ds) != 1 or ds[0][0] != 'stmt':
            return (cur['l'], tuple(path))
        rv = ds[0][3]['rv']
        if rv['k'] == 'use':
            nxt = op_place(rv['op'])
        elif rv['k'] in ('ref', 'copyderef'):
            nxt = rv['place']
        else:
            return (cur['l'], tuple(path))
        if nxt is None:
            return (cur['l'], tuple(path))
        cur = nxt
    return (cur['l'], tuple(path))


def finite_checked(mir, body, bb, op):
    """is the construction in block bb dominated by the edge on which `is_finite(x)` is true, for the same value x (same root
    place)?  The test may be negated, moved, or a match guard; what counts is the edge."""
    tgt = root_place(body, op)
    for cb, t in body.calls():
        if strip_generics(t.get('callee') or '') not in IS_FINITE:
            continue
        if tgt is None or root_place(body, t['args'][0]) != tgt:
            continue
        # follow Not / plain moves from the result to the switch that tests it
        cur = t['dest']['l']
        negs = 0
        for _ in range(6):
            sws = [i for i in range(len(body.blocks)) if body.term(i)['k'] == 'switch' and op_local(body.term(i)['discr']) == cur]
            if sws:
                nt = body.term(sws[0])
                false_targets = [x for v, x in nt['targets'] if v == '0']
                true_bb = nt['otherwise']
                if not false_targets or true_bb in false_targets:
                    break
                finite_edge = true_bb if negs % 2 == 0 else false_targets[0]
                other = false_targets[0] if negs % 2 == 0 else true_bb
                # dominated by the finite edge and not reachable from the other one without passing it
                if mirq.dominates(body, finite_edge, bb) and bb not in body.reachable(other, avoid=[finite_edge]):
                    return True
                break
            nxt = None
            for i, j, s in body.stmts():
                if s['k'] == 'assign' and not s['place']['p']:
                    if s['rv']['k'] == 'un' and s['rv']['op'] == 'Not' and op_local(s['rv']['a']) == cur:
                        nxt = s['place']['l']
                        negs += 1
                    elif s['rv']['k'] == 'use' and op_local(s['rv']['op']) == cur:
                        nxt = s['place']['l']
            if nxt is None:
                break
            cur = nxt
    return False


def run(ctx):
    mir = ctx.mir
    ctx.explanation = ('Induction over construction sites: every aggregate XValue::Float / LiteralFloat in the crate is either '
                       'guarded by is_finite on the same value or is a finite-preserving function of an existing carrier payload; '
                       'the host clock value enters only through the checked constructor.')
    ctx.trusted = ['rustc MIR', 'serde_json::Number never holds a non-finite f64', 'f64 negation/abs/clone preserve finiteness']
    r1 = ctx.rule('R13.1', 'XValue::Float constructed only from checked or finite-carrier values')
    r2 = ctx.rule('R13.2', 'LiteralFloat constructed only from checked or finite-carrier values')
    for rule, specs in ((r1, [('xvalue::XValue', 'Float')]), (r2, [('xexpr::XExpr', 'LiteralFloat'), ('xexpr::XStaticExpr', 'LiteralFloat')])):
        for adt, var in specs:
            for b, bb, j, s in mirq.aggregates(mir, adt, var):
                op = s['rv']['ops'][0]
                if finite_checked(mir, b, bb, op):
                    rule.inst({'body': b.id, 'site': mirq.site(b, bb, j), 'class': 'is_finite-guarded'}, kind=(b.id, 'guard'))
                    continue
                o = origin(mir, b, op)
                bad = sorted(x for x in o if x.startswith('unknown') or x.startswith('const'))
                ok = not bad and bool(o)
                rule.inst({'body': b.id, 'site': mirq.site(b, bb, j), 'class': sorted(o)}, ok=ok, kind=(b.id, tuple(sorted(o))))
                if not ok:
                    rule.fail('%s/%s::%s' % (b.nid, adt.split('::')[-1], var), mirq.site(b, bb, j),
                              'float built without an is_finite guard from a value that is not a finite carrier payload: %s' % '; '.join(bad or ['no origin']))
            for b, bb, t, how in mirq.ctor_calls(mir, adt, var):
                if how == 'call' and finite_checked(mir, b, bb, t['args'][0]):
                    rule.inst({'body': b.id, 'site': mirq.site(b, bb), 'class': 'is_finite-guarded ctor call'})
                    continue
                o = origin(mir, b, t['args'][0]) if how == 'call' else {'unknown:constructor used as a function value'}
                bad = sorted(x for x in o if x.startswith('unknown') or x.startswith('const'))
                rule.inst({'body': b.id, 'site': mirq.site(b, bb), 'class': sorted(o)}, ok=not bad)
                if bad:
                    rule.fail('%s/%s::%s/ctor' % (b.nid, adt.split('::')[-1], var), mirq.site(b, bb),
                              'float constructor applied as a function to an unchecked value: %s' % '; '.join(bad))
    r1.need(3)
    r2.need(2)
    # the checked constructor itself must exist and be guarded
    fl = mir.find('xvalue::XValue::float')
    if len(fl) != 1:
        r1.fail('anchor/XValue::float', '-', 'checked constructor XValue::float not found')

    r3 = ctx.rule('R13.3', 'host clock value flows only into the checked constructor')
    n = 0
    for b in mir.bodies:
        if b.get('impl_trait') == 'time_provider::TimeProvider':
            continue
        for bb, t in b.calls():
            if strip_generics(t.get('decl') or '') != 'time_provider::TimeProvider::unix_now':
                continue
            n += 1
            # forward closure of copies of the destination
            locs = {t['dest']['l']}
            changed = True
            sinks = []
            while changed:
                changed = False
                for i, j, s in b.stmts():
                    if s['k'] != 'assign':
                        continue
                    rv = s['rv']
                    if rv['k'] == 'use' and op_local(rv['op']) in locs and not s['place']['p']:
                        if s['place']['l'] not in locs:
                            locs.add(s['place']['l'])
                            changed = True
            ok = True
            for i, j, s in b.stmts():
                if s['k'] == 'assign':
                    for mode, p in mirq.places_in_stmt(s):
                        if mode == 'r' and p['l'] in locs:
                            if not (s['rv']['k'] == 'use' and not s['place']['p']):
                                ok = False
                                sinks.append('stmt %s' % mirq.site(b, i, j))
            for i, t2 in b.calls():
                for ai, a in enumerate(t2['args']):
                    if op_local(a) in locs:
                        nm = strip_generics(t2.get('callee') or t2.get('decl') or '')
                        if not (nm == 'xvalue::XValue::float' and ai == 0):
                            ok = False
                            sinks.append('call %s' % nm)
            r3.inst({'body': b.id, 'site': mirq.site(b, bb)}, ok=ok)
            if not ok:
                r3.fail('%s/unix_now' % b.nid, mirq.site(b, bb), 'the clock value reaches %s instead of only XValue::float' % ', '.join(sinks))
    r3.need(1)
